package drivers

import (
	"context"
	"errors"
	"io"
	gofs "io/fs"
	"sync"
	"time"

	"github.com/tonistiigi/fsutil"
)

var errInjected = errors.New("injected source error")

// faultFS wraps a source FS: the k-th Walk callback reports an error, or the
// reads of the k-th opened file fail after j bytes.
type faultFS struct {
	fsutil.FS
	mu        sync.Mutex
	WalkErrAt int // 1-based entry index, 0 = never
	OpenErrAt int // 1-based Open call index that fails, 0 = never
	ReadErrAt int // 1-based Open call index whose reads fail
	ReadAfter int // bytes delivered before the failure
	walkN     int
	openN     int
	OnFault   func(kind string, k int)
	Walks     int
	Opens     int
	SlowOpen  time.Duration
	// the reads of the BlockAt-th opened file stop after BlockAfter bytes until Release is closed;
	// OnBlock runs once (in its own goroutine) when the reader is stuck
	BlockAt    int
	BlockAfter int
	OnBlock    func()
	Release    chan struct{}
	blockOnce  sync.Once
	// ShortRead > 0: every Read returns at most this many bytes (a synthetic, piped or decompressing source)
	ShortRead int
	// HoldOpens: every Open waits until the channel is closed and then fails (all workers fail at once while
	// the request pipeline is full)
	HoldOpens chan struct{}
}

func (f *faultFS) Walk(ctx context.Context, target string, fn gofs.WalkDirFunc) error {
	return f.FS.Walk(ctx, target, func(p string, d gofs.DirEntry, err error) error {
		f.mu.Lock()
		f.walkN++
		n := f.walkN
		f.Walks = n
		f.mu.Unlock()
		if f.WalkErrAt != 0 && n == f.WalkErrAt {
			if f.OnFault != nil {
				f.OnFault("walk", n)
			}
			return fn(p, d, errInjected)
		}
		return fn(p, d, err)
	})
}

func (f *faultFS) Open(p string) (io.ReadCloser, error) {
	f.mu.Lock()
	f.openN++
	n := f.openN
	f.Opens = n
	f.mu.Unlock()
	if f.OpenErrAt != 0 && n == f.OpenErrAt {
		if f.OnFault != nil {
			f.OnFault("open", n)
		}
		return nil, errInjected
	}
	if f.HoldOpens != nil {
		<-f.HoldOpens
		if f.OnFault != nil {
			f.OnFault("open", n)
		}
		return nil, errInjected
	}
	if f.SlowOpen > 0 {
		time.Sleep(f.SlowOpen)
	}
	rc, err := f.FS.Open(p)
	if err != nil {
		return nil, err
	}
	if f.BlockAt != 0 && n == f.BlockAt {
		return &blockReader{rc: rc, left: f.BlockAfter, fs: f}, nil
	}
	if f.ShortRead > 0 {
		rc = &shortReader{rc: rc, max: f.ShortRead}
	}
	if f.ReadErrAt != 0 && n == f.ReadErrAt {
		return &faultReader{rc: rc, left: f.ReadAfter, on: func() {
			if f.OnFault != nil {
				f.OnFault("read", n)
			}
		}}, nil
	}
	return rc, nil
}

type faultReader struct {
	rc   io.ReadCloser
	left int
	on   func()
	done bool
}

func (r *faultReader) Read(b []byte) (int, error) {
	if r.left <= 0 {
		if !r.done {
			r.done = true
			r.on()
		}
		return 0, errInjected
	}
	if len(b) > r.left {
		b = b[:r.left]
	}
	n, err := r.rc.Read(b)
	r.left -= n
	return n, err
}

func (r *faultReader) Close() error { return r.rc.Close() }

type blockReader struct {
	rc   io.ReadCloser
	left int
	fs   *faultFS
}

func (r *blockReader) Read(b []byte) (int, error) {
	if r.left > 0 {
		if len(b) > r.left {
			b = b[:r.left]
		}
		n, err := r.rc.Read(b)
		r.left -= n
		if n > 0 || err != nil {
			return n, err
		}
	}
	r.fs.blockOnce.Do(func() {
		if r.fs.OnBlock != nil {
			go r.fs.OnBlock()
		}
	})
	<-r.fs.Release
	return r.rc.Read(b)
}

func (r *blockReader) Close() error { return r.rc.Close() }

type shortReader struct {
	rc  io.ReadCloser
	max int
	n   int
}

func (r *shortReader) Read(b []byte) (int, error) {
	r.n++
	m := r.max
	if r.n%3 == 0 && m > 1 {
		m = m/2 + 1 // not every read has the same length
	}
	if len(b) > m {
		b = b[:m]
	}
	return r.rc.Read(b)
}

func (r *shortReader) Close() error { return r.rc.Close() }
