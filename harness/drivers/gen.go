package drivers

import (
	"fmt"
	"math/rand"
	"strings"
	"sync/atomic"

	"verif/harness/model"
)

var mtimeCounter int64

// uniqueMtime returns a nanosecond timestamp never handed out before, so two
// file versions with different bytes never share (size, mtime).
func uniqueMtime() int64 {
	n := atomic.AddInt64(&mtimeCounter, 1)
	// unique but NOT monotone: multiplication by an odd constant is a bijection mod 2^31, so
	// later versions of a file are as often older as newer than what was transferred before
	return 1500000000000000000 + ((n*2654435761)%(1<<31))*1000 + n%1000
}

// touchedMtime is the mtime of an entry after an edit: every other time it stays within the
// same wall-clock second as the old one and differs in the nanosecond part only (by one
// nanosecond every sixth time), so that a comparison at a coarser grain than the wire carries
// sees "unchanged".  Takes exactly one tick of the counter, like uniqueMtime.
func touchedMtime(old int64) int64 {
	n := atomic.AddInt64(&mtimeCounter, 1)
	if n%2 == 1 || old <= 0 {
		return 1500000000000000000 + ((n*2654435761)%(1<<31))*1000 + n%1000
	}
	sec, ns := old-old%1000000000, old%1000000000
	d := 1 + (n*7919)%999999998
	if n%6 == 0 {
		d = 1
	}
	return sec + (ns+d)%1000000000
}

func fileData(seed int64, size int) []byte {
	b := make([]byte, size)
	r := rand.New(rand.NewSource(seed*2654435761 + int64(size)))
	r.Read(b)
	if seed%8 == 7 {
		// contents that end in NUL bytes (from the middle on): sparse-file shortcuts must not shorten them
		for i := size / 2; i < size; i++ {
			b[i] = 0
		}
	}
	return b
}

var genNames = []string{"a", "a-b", "a b", "ab", "a.b", "a0", "b", "\xc3\xa9", "!x", "-", "0", "A", "~",
	"a\\b", "..a", "a:b", ".hidden", "z", "c", "d", "d.z", ".fsutil-metadata"}
var longName = strings.Repeat("n", 255)
var genSizes = []int{0, 1, 7, 100, 1000, 32767, 32768, 32769, 65536, 100000}
var genPerms = []uint32{0644, 0600, 0755, 0444, 0400, 0777, 04755, 02755, 01777, 0640, 06711}
var genIDs = []uint32{0, 0, 0, 1000, 65534, 12345}

type genOpts struct {
	MaxEntries int
	Special    bool // fifos and devices
	Xattrs     bool
	Links      bool
	BigFiles   bool
	LongNames  bool
}

func newFile(r *rand.Rand, o genOpts) model.Entry {
	sz := genSizes[r.Intn(4)]
	if o.BigFiles && r.Intn(4) == 0 {
		sz = genSizes[r.Intn(len(genSizes))]
	}
	seed := r.Int63()
	e := model.Entry{Type: "file", Perm: genPerms[r.Intn(len(genPerms))], Uid: genIDs[r.Intn(len(genIDs))], Gid: genIDs[r.Intn(len(genIDs))],
		Size: int64(sz), Data: fileData(seed, sz), DSeed: seed, Mtime: uniqueMtime()}
	if r.Intn(12) == 0 {
		// before the epoch, with a sub-second part (negative nanosecond remainder)
		e.Mtime = -(int64(1+r.Intn(1000000))*1000000000 + int64(1+r.Intn(999999999)))
	}
	e.Content = model.ContentID(e.Data)
	return e
}

// RandomTree builds a parent-closed tree with up to MaxEntries entries.
func RandomTree(r *rand.Rand, o genOpts) model.Tree {
	n := 1 + r.Intn(o.MaxEntries)
	var t model.Tree
	dirs := []string{""}
	used := map[string]bool{}
	var files, specials []int
	group := 100
	for tries := 0; len(t) < n && tries < n*20; tries++ {
		d := dirs[r.Intn(len(dirs))]
		nm := genNames[r.Intn(len(genNames))]
		if o.LongNames && r.Intn(25) == 0 {
			nm = longName
		}
		p := nm
		if d != "" {
			p = d + "/" + nm
		}
		if used[p] || strings.Count(p, "/") > 4 {
			continue
		}
		used[p] = true
		var e model.Entry
		k := r.Intn(100)
		switch {
		case k < 45:
			e = newFile(r, o)
		case k < 65:
			e = model.Entry{Type: "dir", Perm: []uint32{0755, 0700, 0777, 01777, 02755, 0750}[r.Intn(6)],
				Uid: genIDs[r.Intn(len(genIDs))], Gid: genIDs[r.Intn(len(genIDs))], Mtime: uniqueMtime()}
			dirs = append(dirs, p)
		case k < 77:
			tg := []string{"a", "/abs/target", "../x", "dangling", ".", "a/b/c", "\xc3\xa9", "sub/", "./a", "a//b", "a/../b", "../../", "/"}[r.Intn(13)]
			e = model.Entry{Type: "symlink", Perm: 0777, Link: tg, Uid: genIDs[r.Intn(len(genIDs))], Gid: genIDs[r.Intn(len(genIDs))], Mtime: uniqueMtime()}
		case k < 90 && o.Links && len(files) > 0 && nm != ".fsutil-metadata":
			// hard link to an existing regular file
			j := files[r.Intn(len(files))]
			if t[j].Group == 0 {
				group++
				t[j].Group = group
			}
			e = t[j]
			e.Xattrs = t[j].Xattrs
		case k < 92 && o.Special && o.Links && len(specials) > 0 && r.Intn(3) == 0 && nm != ".fsutil-metadata":
			// hard link to an existing fifo / device node
			j := specials[r.Intn(len(specials))]
			if t[j].Group == 0 {
				group++
				t[j].Group = group
			}
			e = t[j]
		case k < 94 && o.Special:
			e = model.Entry{Type: "fifo", Perm: 0644, Uid: genIDs[r.Intn(len(genIDs))], Gid: genIDs[r.Intn(len(genIDs))], Mtime: uniqueMtime()}
		case k < 100 && o.Special:
			ty := "chr"
			if r.Intn(2) == 0 {
				ty = "blk"
			}
			minor := int64(r.Intn(300))
			switch r.Intn(6) {
			case 0:
				minor = 65536 + int64(r.Intn(1000)) // beyond 16 bits
			case 1:
				minor = 1<<19 + int64(r.Intn(7)) // the top of the 20-bit range
			case 2:
				minor = 256 + int64(r.Intn(3840)) // beyond 8 bits
			}
			major := int64(1 + r.Intn(250))
			if r.Intn(5) == 0 {
				major = 256 + int64(r.Intn(3000)) // beyond 8 bits
			}
			e = model.Entry{Type: ty, Perm: 0660, Devmajor: major, Devminor: minor,
				Uid: genIDs[r.Intn(len(genIDs))], Gid: genIDs[r.Intn(len(genIDs))], Mtime: uniqueMtime()}
		default:
			e = newFile(r, o)
		}
		if nm == ".fsutil-metadata" && e.Type == "dir" {
			// an entry with the listing file's name is a leaf here: a directory of that name with children cannot coexist
			// with the listing in a metadata-only destination (Receive refuses such a stream; not judged, see DESIGN 0.7)
			dirs = dirs[:len(dirs)-1]
			e = newFile(r, o)
		}
		e.Path = p
		if o.Xattrs && (e.Type == "file" || e.Type == "dir") && e.Group == 0 && r.Intn(5) == 0 {
			e.Xattrs = map[string]string{"user.k" + fmt.Sprint(r.Intn(3)): fmt.Sprint("v", r.Intn(100))}
			if r.Intn(3) == 0 {
				e.Xattrs["user.flag"] = "" // an attribute with an empty value is still an attribute
			}
			if r.Intn(3) == 0 {
				e.Xattrs["trusted.t"] = "\x00\x01bin"
			}
			if e.Type == "file" && r.Intn(3) == 0 {
				// file capabilities (cap_net_bind_service+ep): the kernel drops this attribute on every chown
				e.Xattrs["security.capability"] = "\x01\x00\x00\x02\x00\x04\x00\x00\x00\x00\x00\x00\x00\x00\x00\x00\x00\x00\x00\x00"
			}
		}
		// (an entry with the listing file's name stays out of hard-link groups: in a metadata-only transfer it is never sent,
		// so it cannot be the link source the selector is required to select)
		if e.Type == "file" && nm != ".fsutil-metadata" {
			files = append(files, len(t))
		}
		if (e.Type == "fifo" || e.Type == "chr" || e.Type == "blk" || (e.Type == "symlink" && o.Special)) && nm != ".fsutil-metadata" {
			specials = append(specials, len(t)) // (a symlink can have several names too: link(2) on the link itself)
		}
		t = append(t, e)
	}
	t.Sort()
	return t
}

// MutateTree returns an edited copy: a history step between two syncs.
func MutateTree(r *rand.Rand, src model.Tree, o genOpts, steps int) (model.Tree, []string) {
	return mutateTree(r, src, o, steps, -1, -1)
}

// MutateAt applies mutation kind op to entry i (a no-op if it does not apply there).
func MutateAt(r *rand.Rand, src model.Tree, o genOpts, i, op int) (model.Tree, []string) {
	return mutateTree(r, src, o, 1, i, op)
}

const numMutations = 14

func mutateTree(r *rand.Rand, src model.Tree, o genOpts, steps, forceI, forceOp int) (model.Tree, []string) {
	t := src.Clone()
	var ops []string
	for s := 0; s < steps; s++ {
		if len(t) == 0 {
			e := newFile(r, o)
			e.Path = "new"
			t = append(t, e)
			ops = append(ops, "add")
			continue
		}
		i := r.Intn(len(t))
		op := r.Intn(numMutations)
		if forceI >= 0 && forceI < len(t) {
			i, op = forceI, forceOp
		}
		e := &t[i]
		ingroup := e.Group != 0
		switch op {
		case 0: // rewrite, same size
			if e.Type == "file" && !ingroup {
				e.DSeed = r.Int63()
				e.Data = fileData(e.DSeed, int(e.Size))
				e.Content = model.ContentID(e.Data)
				e.Mtime = touchedMtime(e.Mtime)
				ops = append(ops, "rewriteSame")
			}
		case 1: // rewrite, other size
			if e.Type == "file" && !ingroup {
				n := newFile(r, o)
				e.Data, e.Size, e.Content, e.Mtime, e.DSeed = n.Data, n.Size, n.Content, n.Mtime, n.DSeed
				ops = append(ops, "rewriteSize")
			}
		case 2: // touch
			if !ingroup {
				e.Mtime = touchedMtime(e.Mtime)
				ops = append(ops, "touch:"+e.Type)
			}
		case 3: // chmod
			if e.Type != "symlink" && !ingroup {
				e.Perm = genPerms[r.Intn(len(genPerms))]
				ops = append(ops, "chmod:"+e.Type)
			}
		case 4: // chown
			if !ingroup {
				e.Uid, e.Gid = genIDs[r.Intn(len(genIDs))], genIDs[r.Intn(len(genIDs))]
				ops = append(ops, "chown:"+e.Type)
			}
		case 5: // delete (with subtree)
			p := e.Path
			ty := e.Type
			var nt model.Tree
			for _, x := range t {
				if x.Path == p || strings.HasPrefix(x.Path, p+"/") {
					continue
				}
				nt = append(nt, x)
			}
			t = nt
			ops = append(ops, "delete:"+ty)
		case 6: // add next to it
			d := ""
			if k := strings.LastIndex(e.Path, "/"); k >= 0 {
				d = e.Path[:k+1]
			}
			np := d + genNames[r.Intn(len(genNames))]
			if t.Find(np) == nil {
				n := newFile(r, o)
				n.Path = np
				t = append(t, n)
				ops = append(ops, "add")
			}
		case 7, 8: // type swap
			p := e.Path
			old := e.Type
			var nt model.Tree
			for _, x := range t {
				if strings.HasPrefix(x.Path, p+"/") {
					continue
				}
				nt = append(nt, x)
			}
			t = nt
			e = t.Find(p)
			if ingroup {
				break
			}
			var n model.Entry
			switch {
			case old == "dir":
				if r.Intn(2) == 0 {
					n = newFile(r, o)
				} else {
					n = model.Entry{Type: "symlink", Link: "a", Perm: 0777, Mtime: uniqueMtime()}
				}
			case old == "file":
				if r.Intn(2) == 0 {
					n = model.Entry{Type: "dir", Perm: 0755, Mtime: uniqueMtime()}
				} else {
					n = model.Entry{Type: "symlink", Link: "b", Perm: 0777, Mtime: uniqueMtime()}
				}
			default:
				if r.Intn(2) == 0 {
					n = model.Entry{Type: "dir", Perm: 0755, Mtime: uniqueMtime()}
				} else {
					n = newFile(r, o)
				}
			}
			n.Path = p
			*e = n
			ops = append(ops, "swap:"+old+">"+n.Type)
		case 9: // symlink retarget
			if e.Type == "symlink" {
				e.Link = e.Link + "x"
				ops = append(ops, "retarget")
			}
		case 10: // device renumber
			if e.Type == "chr" || e.Type == "blk" {
				switch r.Intn(4) {
				case 0:
					e.Devminor ^= 1 << 16 // only a bit beyond the low 16
				case 1:
					e.Devminor ^= 1 << 8 // only a bit beyond the low 8
				case 2:
					e.Devmajor ^= 1 << 8
				default:
					e.Devminor++
				}
				ops = append(ops, "renumber")
			}
		case 11: // link regrouping: make e a hard link of another file / break a group
			if e.Type == "file" && o.Links {
				if ingroup {
					g := e.Group
					// break this member out of its group with fresh identity
					n := newFile(r, o)
					n.Path = e.Path
					*e = n
					cnt := 0
					for k := range t {
						if t[k].Group == g {
							cnt++
						}
					}
					_ = cnt
					ops = append(ops, "unlink")
				} else {
					for k := range t {
						if k != i && t[k].Type == "file" {
							if t[k].Group == 0 {
								t[k].Group = 1000 + r.Intn(100000)
							}
							p := e.Path
							*e = t[k]
							e.Path = p
							ops = append(ops, "link")
							break
						}
					}
				}
			}
		case 13: // twin relink: a later group member is re-linked to a new file that is identical to
			// its old primary in bytes and every metadata field; only the link name changes
			if o.Links && ingroup {
				first := -1
				for k := range t {
					if t[k].Group == e.Group {
						first = k
						break
					}
				}
				if first >= 0 && first != i {
					a := t[first]
					tw := a
					d := ""
					if k := strings.LastIndex(a.Path, "/"); k >= 0 {
						d = a.Path[:k+1]
					}
					tw.Path = d + "0tw" + fmt.Sprint(r.Intn(1000))
					if t.Find(tw.Path) == nil {
						g := 200000 + r.Intn(100000)
						tw.Group = g
						e.Group = g
						t = append(t, tw)
						ops = append(ops, "twinRelink")
					}
				}
			}
		case 12: // add a file inside a directory
			if e.Type == "dir" {
				np := e.Path + "/" + genNames[r.Intn(len(genNames))]
				if t.Find(np) == nil {
					n := newFile(r, o)
					n.Path = np
					t = append(t, n)
					ops = append(ops, "addInDir")
				}
			}
		}
	}
	t.Sort()
	return t, ops
}

// SmallUniverse enumerates every tree over the top-level names a, a-b (bytes
// on both sides of '/') where each is absent, file v1, file v2, symlink,
// empty dir, dir with child c = file v1, dir with child c = file v2.
func SmallUniverse() []model.Tree {
	f := func(p string, v int) model.Entry {
		d := fileData(int64(1000+v), 10+v)
		return model.Entry{Path: p, Type: "file", Perm: 0644, Size: int64(len(d)), Data: d, DSeed: int64(1000 + v), Content: model.ContentID(d),
			Mtime: 1400000000000000000 + int64(v)*1000000007}
	}
	dir := func(p string) model.Entry {
		return model.Entry{Path: p, Type: "dir", Perm: 0755, Mtime: 1400000000123456789}
	}
	sym := func(p string) model.Entry {
		return model.Entry{Path: p, Type: "symlink", Perm: 0777, Link: "target", Mtime: 1400000000987654321}
	}
	variants := func(n string) []model.Tree {
		return []model.Tree{
			nil,
			{f(n, 1)},
			{f(n, 2)},
			{sym(n)},
			{dir(n)},
			{dir(n), f(n+"/c", 1)},
			{dir(n), f(n+"/c", 2)},
		}
	}
	var out []model.Tree
	for _, a := range variants("a") {
		for _, b := range variants("a-b") {
			t := append(append(model.Tree{}, a...), b...)
			t.Sort()
			out = append(out, t)
		}
	}
	return out
}

// Regen restores file bytes of a tree loaded from a replay file.
func Regen(t model.Tree) {
	for i := range t {
		if t[i].Type == "file" {
			t[i].Data = fileData(t[i].DSeed, int(t[i].Size))
			t[i].Content = model.ContentID(t[i].Data)
		}
	}
}
