package drivers

import (
	"errors"
	"fmt"
	"io"
	"math/rand"
	"os"
	"sync"
	"sync/atomic"
	"time"

	"github.com/tonistiigi/fsutil/types"
	"verif/harness/hstream"
	"verif/harness/model"
)

// ---------------------------------------------------------------------------
// Reference receiver, written from the protocol description in receive.go's
// header (not from the receiver's code): reads STATs, requests ids, reads
// DATA until every requested id has been terminated, sends FIN, waits for the
// echo.  The script says which ids to ask for, in which order and when, and
// which deliberately invalid requests to add.
// ---------------------------------------------------------------------------

type RecvScript struct {
	Kind    string  `json:"kind"`    // afterEnd | eager | burst
	Frac    float64 `json:"frac"`    // fraction of requestable ids that is requested
	Shuffle bool    `json:"shuffle"` // request in random order
	Bad     string  `json:"bad"`     // "" | dup | unknown | nonfile | dupLate
	NoFin   bool    `json:"noFin"`   // leave without FIN after everything arrived
	Seed    int64   `json:"seed"`
	DelayUS int     `json:"delayUs"` // per-operation delay bound
	Links   bool    `json:"links"`   // also request hard-link members
}

func PuppetReceiver(sc RecvScript) func(conn *hstream.Conn) error {
	return func(conn *hstream.Conn) error {
		r := rand.New(rand.NewSource(sc.Seed))
		ep := conn.R
		var mu sync.Mutex
		type st struct {
			reqable bool
			regular bool
		}
		var stats []st
		endSeen := false
		terminated := map[uint32]bool{}
		requested := map[uint32]bool{}
		var reqOrder []uint32
		finEcho := false
		var recvErr error
		cond := sync.NewCond(&mu)
		delay := func() {
			if sc.DelayUS > 0 {
				time.Sleep(time.Duration(r.Intn(sc.DelayUS)) * time.Microsecond)
			}
		}
		reqCh := make(chan uint32, 100000)
		done := make(chan struct{})
		// burst: after the end marker nothing is read until every request is out (or requesting makes no headway:
		// a conforming sender applies back-pressure, it does not fail)
		var paused int32
		resume := make(chan struct{})
		var resumeOnce sync.Once
		resumeReads := func() { resumeOnce.Do(func() { atomic.StoreInt32(&paused, 0); close(resume) }) }
		// reader
		go func() {
			defer close(done)
			for {
				if atomic.LoadInt32(&paused) == 1 {
					<-resume
				}
				var p types.Packet
				if err := ep.RecvMsg(&p); err != nil {
					mu.Lock()
					recvErr = err
					cond.Broadcast()
					mu.Unlock()
					return
				}
				mu.Lock()
				switch p.Type {
				case types.PACKET_STAT:
					if p.Stat == nil {
						endSeen = true
						if sc.Kind == "burst" {
							atomic.StoreInt32(&paused, 1)
						}
					} else {
						m := os.FileMode(p.Stat.Mode)
						// every regular file of the STAT sequence may be requested, hard-link members included
						reqable := m&os.ModeType == 0 && (p.Stat.Linkname == "" || sc.Links)
						stats = append(stats, st{reqable: reqable, regular: m&os.ModeType == 0})
						if sc.Kind == "eager" && reqable && r.Float64() < sc.Frac {
							id := uint32(len(stats) - 1)
							requested[id] = true
							reqOrder = append(reqOrder, id)
							reqCh <- id
						}
					}
				case types.PACKET_DATA:
					if len(p.Data) == 0 {
						terminated[p.ID] = true
					}
				case types.PACKET_FIN:
					finEcho = true
				case types.PACKET_ERR:
					recvErr = fmt.Errorf("error from sender: %s", p.Data)
				}
				cond.Broadcast()
				fin := finEcho || recvErr != nil
				mu.Unlock()
				if fin {
					return
				}
			}
		}()
		send := func(p *types.Packet) error {
			delay()
			return ep.SendMsg(p)
		}
		// requester
		var sendErr error
		wait := func(pred func() bool) bool {
			mu.Lock()
			defer mu.Unlock()
			for !pred() && recvErr == nil {
				cond.Wait()
			}
			return recvErr == nil
		}
		if sc.Kind == "eager" {
			// requests were queued by the reader as STATs arrived; forward them until the end marker
			go func() {
				wait(func() bool { return endSeen })
				close(reqCh)
			}()
			for id := range reqCh {
				if err := send(&types.Packet{Type: types.PACKET_REQ, ID: id}); err != nil {
					sendErr = err
					break
				}
			}
		} else {
			if !wait(func() bool { return endSeen }) {
				<-done
				return recvErr
			}
			mu.Lock()
			var ids []uint32
			for i, s := range stats {
				if s.reqable && r.Float64() < sc.Frac {
					ids = append(ids, uint32(i))
				}
			}
			if sc.Shuffle {
				r.Shuffle(len(ids), func(i, j int) { ids[i], ids[j] = ids[j], ids[i] })
			}
			for _, id := range ids {
				requested[id] = true
			}
			reqOrder = ids
			mu.Unlock()
			var sent int32
			if sc.Kind == "burst" {
				go func() {
					last, idle := int32(-1), 0
					for {
						time.Sleep(50 * time.Millisecond)
						cur := atomic.LoadInt32(&sent)
						if cur == last {
							idle++
						} else {
							last, idle = cur, 0
						}
						if idle >= 3 || int(cur) >= len(ids) {
							resumeReads()
							return
						}
					}
				}()
			}
			for _, id := range ids {
				if err := send(&types.Packet{Type: types.PACKET_REQ, ID: id}); err != nil {
					sendErr = err
					break
				}
				atomic.AddInt32(&sent, 1)
			}
			resumeReads()
		}
		resumeReads()
		// deliberately invalid request
		if sendErr == nil && sc.Bad != "" {
			mu.Lock()
			var bad uint32
			ok := true
			switch sc.Bad {
			case "dup", "dupLate":
				if len(reqOrder) == 0 {
					ok = false
				} else {
					bad = reqOrder[r.Intn(len(reqOrder))]
				}
			case "unknown":
				bad = uint32(len(stats) + 1000 + r.Intn(1000))
			case "nonfile":
				// only genuinely non-regular entries (requests for hard-link members are left open by the statement)
				ok = false
				var cands []uint32
				for i, s := range stats {
					if !s.regular {
						cands = append(cands, uint32(i))
					}
				}
				if len(cands) > 0 {
					bad, ok = cands[r.Intn(len(cands))], true
				}
			}
			mu.Unlock()
			if ok {
				if sc.Bad == "dupLate" {
					wait(func() bool { return terminated[bad] })
				}
				send(&types.Packet{Type: types.PACKET_REQ, ID: bad})
				// a conforming sender now fails; give it a bounded time, then carry on with the
				// protocol so that the monitor sees whether the invalid request was accepted
				failed := make(chan struct{})
				go func() {
					wait(func() bool { return false })
					close(failed)
				}()
				select {
				case <-failed:
					<-done
					return nil
				case <-time.After(1500 * time.Millisecond):
				}
			}
		}
		if sendErr != nil {
			<-done
			return sendErr
		}
		// wait for all terminators
		if !wait(func() bool {
			for id := range requested {
				if !terminated[id] {
					return false
				}
			}
			return true
		}) {
			<-done
			return recvErr
		}
		if sc.NoFin {
			return nil // leave without acknowledging: teardown follows
		}
		if err := send(&types.Packet{Type: types.PACKET_FIN}); err != nil {
			<-done
			return err
		}
		<-done
		mu.Lock()
		defer mu.Unlock()
		if !finEcho {
			return recvErr
		}
		return nil
	}
}

// ---------------------------------------------------------------------------
// Reference sender: announces a synthetic view and answers requests with the
// chunking, interleaving and timing its script dictates.
// ---------------------------------------------------------------------------

type SendScript struct {
	Chunk      string `json:"chunk"`      // one | small | k32 | big | random
	Interleave bool   `json:"interleave"` // round-robin chunks of all open ids
	DataRaces  bool   `json:"dataRaces"`  // answer requests while STATs are still being sent
	LateEnd    bool   `json:"lateEnd"`    // hold the end marker back until all known requests are answered
	EOFAfter   int    `json:"eofAfter"`   // >0: tear the stream down after that many sent packets
	Seed       int64  `json:"seed"`
	DelayUS    int    `json:"delayUs"`
}

// ViewStats converts a tree into the STAT sequence a conforming walk exposes.
func ViewStats(t model.Tree) []*types.Stat {
	tt := t.Clone()
	// (Canon rewrites Group while it runs: take the keys first)
	keys := map[string]string{}
	for _, e := range tt {
		if e.Group != 0 {
			keys[e.Path] = fmt.Sprint(e.Group)
		}
	}
	tt.Canon(func(e *model.Entry) string { return keys[e.Path] })
	out := make([]*types.Stat, len(tt))
	for i := range tt {
		e := &tt[i]
		st := &types.Stat{Path: e.Path, Uid: e.Uid, Gid: e.Gid, ModTime: e.Mtime}
		m := os.FileMode(e.Perm & 0777)
		if e.Perm&04000 != 0 {
			m |= os.ModeSetuid
		}
		if e.Perm&02000 != 0 {
			m |= os.ModeSetgid
		}
		if e.Perm&01000 != 0 {
			m |= os.ModeSticky
		}
		switch e.Type {
		case "dir":
			m |= os.ModeDir
		case "symlink":
			m |= os.ModeSymlink
			st.Linkname = e.Link
			st.Size = int64(len(e.Link))
		case "fifo":
			m |= os.ModeNamedPipe
		case "chr":
			m |= os.ModeDevice | os.ModeCharDevice
			st.Devmajor, st.Devminor = e.Devmajor, e.Devminor
		case "blk":
			m |= os.ModeDevice
			st.Devmajor, st.Devminor = e.Devmajor, e.Devminor
		case "file":
			st.Size = e.Size
			if e.Group != 0 && e.Group != i+1 {
				st.Linkname = tt[e.Group-1].Path
			}
		}
		st.Mode = uint32(m)
		if len(e.Xattrs) > 0 {
			st.Xattrs = map[string][]byte{}
			for k, v := range e.Xattrs {
				st.Xattrs[k] = []byte(v)
			}
		}
		out[i] = st
	}
	return out
}

func PuppetSender(view model.Tree, sc SendScript) func(conn *hstream.Conn) error {
	return func(conn *hstream.Conn) error {
		r := rand.New(rand.NewSource(sc.Seed))
		ep := conn.S
		stats := ViewStats(view)
		data := map[uint32][]byte{}
		{
			tt := view.Clone()
			tt.Sort()
			for i := range tt {
				if tt[i].Type == "file" {
					data[uint32(i)] = tt[i].Data
				}
			}
		}
		var smu sync.Mutex // a sender never interleaves inside a packet
		sent := 0
		torn := false
		send := func(p *types.Packet) error {
			if sc.DelayUS > 0 {
				time.Sleep(time.Duration(r.Intn(sc.DelayUS)) * time.Microsecond)
			}
			smu.Lock()
			defer smu.Unlock()
			if torn {
				return io.ErrClosedPipe
			}
			if err := ep.SendMsg(p); err != nil {
				return err
			}
			sent++
			if sc.EOFAfter > 0 && sent >= sc.EOFAfter {
				torn = true
				ep.TearDown()
				return io.ErrClosedPipe
			}
			return nil
		}
		chunkLen := func(rest int) int {
			var n int
			switch sc.Chunk {
			case "one":
				n = 1
			case "small":
				n = 1 + r.Intn(7)
			case "k32":
				n = 32 * 1024
			case "big":
				n = 1 << 20
			default:
				n = 1 + r.Intn(70000)
			}
			if n > rest {
				n = rest
			}
			return n
		}
		var mu sync.Mutex
		cond := sync.NewCond(&mu)
		var pending []uint32 // requested, not yet fully answered
		announced := 0
		statsDone := false
		finSeen := false
		var failure error
		// request reader
		go func() {
			for {
				var p types.Packet
				if err := ep.RecvMsg(&p); err != nil {
					mu.Lock()
					if failure == nil && !finSeen {
						failure = err
					}
					cond.Broadcast()
					mu.Unlock()
					return
				}
				mu.Lock()
				switch p.Type {
				case types.PACKET_REQ:
					pending = append(pending, p.ID)
				case types.PACKET_FIN:
					finSeen = true
				case types.PACKET_ERR:
					failure = fmt.Errorf("error from receiver: %s", p.Data)
				}
				cond.Broadcast()
				stop := finSeen || failure != nil
				mu.Unlock()
				if stop {
					return
				}
			}
		}()
		// data answering
		offs := map[uint32]int{}
		answerSome := func(block bool) (bool, error) {
			mu.Lock()
			for block && len(pending) == 0 && !finSeen && failure == nil {
				cond.Wait()
			}
			if failure != nil {
				mu.Unlock()
				return false, failure
			}
			if len(pending) == 0 {
				mu.Unlock()
				return false, nil
			}
			var id uint32
			idx := 0
			if sc.Interleave {
				idx = r.Intn(len(pending))
			}
			id = pending[idx]
			mu.Unlock()
			b := data[id]
			off := offs[id]
			if off < len(b) {
				n := chunkLen(len(b) - off)
				offs[id] = off + n
				if err := send(&types.Packet{Type: types.PACKET_DATA, ID: id, Data: b[off : off+n]}); err != nil {
					return false, err
				}
				if !sc.Interleave {
					// finish the file before looking at the next request
					for offs[id] < len(b) {
						o := offs[id]
						n := chunkLen(len(b) - o)
						offs[id] = o + n
						if err := send(&types.Packet{Type: types.PACKET_DATA, ID: id, Data: b[o : o+n]}); err != nil {
							return false, err
						}
					}
				} else {
					return true, nil
				}
			}
			if err := send(&types.Packet{Type: types.PACKET_DATA, ID: id}); err != nil {
				return false, err
			}
			mu.Lock()
			for i, x := range pending {
				if x == id {
					pending = append(pending[:i], pending[i+1:]...)
					break
				}
			}
			mu.Unlock()
			return true, nil
		}
		dataDone := make(chan error, 1)
		if sc.DataRaces {
			go func() {
				for {
					mu.Lock()
					fin := finSeen
					mu.Unlock()
					if fin {
						dataDone <- nil
						return
					}
					if _, err := answerSome(true); err != nil {
						dataDone <- err
						return
					}
				}
			}()
		}
		// STAT stream
		for _, st := range stats {
			if err := send(&types.Packet{Type: types.PACKET_STAT, Stat: st}); err != nil {
				return errIfNotPlanned(sc, err)
			}
			mu.Lock()
			announced++
			mu.Unlock()
		}
		if sc.LateEnd && !sc.DataRaces {
			// answer what has been requested so far before the end marker
			for {
				more, err := answerSome(false)
				if err != nil {
					return errIfNotPlanned(sc, err)
				}
				if !more {
					break
				}
			}
		}
		if err := send(&types.Packet{Type: types.PACKET_STAT}); err != nil {
			return errIfNotPlanned(sc, err)
		}
		mu.Lock()
		statsDone = true
		_ = statsDone
		mu.Unlock()
		if sc.DataRaces {
			if err := <-dataDone; err != nil {
				return errIfNotPlanned(sc, err)
			}
		} else {
			for {
				mu.Lock()
				fin := finSeen && len(pending) == 0
				mu.Unlock()
				if fin {
					break
				}
				if _, err := answerSome(true); err != nil {
					return errIfNotPlanned(sc, err)
				}
			}
		}
		// echo FIN, then leave (teardown = end of stream for the receiver)
		if err := send(&types.Packet{Type: types.PACKET_FIN}); err != nil {
			return errIfNotPlanned(sc, err)
		}
		return nil
	}
}

func errIfNotPlanned(sc SendScript, err error) error {
	if sc.EOFAfter > 0 {
		return errors.New("planned early end of stream")
	}
	return err
}
