package drivers

import (
	"bytes"
	"context"
	"encoding/json"
	"fmt"
	gofs "io/fs"
	"os"
	"path/filepath"
	"sort"
	"strings"

	"github.com/tonistiigi/fsutil"
	"verif/harness/disk"
	"verif/harness/vt"
)

func init() { Registry["hlcases"] = HLCases }

// hlCase is one line of the case files TLC writes for spec/HardlinkMC.tla (configuration _gen): N files in walk order, their
// inode groups (canonical label = smallest member), what becomes of each (reported / hidden by the filter / inside a pruned
// directory) and the stream the algorithm model ends in.
type hlCase struct {
	Name string   `json:"name"`
	Grp  []int    `json:"grp"`
	St   []string `json:"st"`
	Out  []struct {
		P int `json:"p"`
		L int `json:"l"`
	} `json:"out"`
}

func runHLCase(c *Ctx, caseNo int, hc hlCase) (vt.Ev, error) {
	base := filepath.Join(c.Work, fmt.Sprintf("hl%d", caseNo))
	defer disk.RemoveAll(base)
	if err := os.MkdirAll(base, 0755); err != nil {
		return nil, err
	}
	// file k (1-based) lives at f<k> when it is walked, at f<k>d/x when the directory above it is pruned: the walk order of the
	// names is the order of the indices either way
	pathOf := func(k int) string {
		if hc.St[k-1] == "pruned" {
			return fmt.Sprintf("f%dd/x", k)
		}
		return fmt.Sprintf("f%d", k)
	}
	var exc []string
	for k := 1; k <= len(hc.Grp); k++ {
		p := filepath.Join(base, pathOf(k))
		if hc.St[k-1] == "pruned" {
			os.Mkdir(filepath.Dir(p), 0755)
			exc = append(exc, fmt.Sprintf("f%dd", k))
		}
		if hc.St[k-1] == "hidden" {
			exc = append(exc, fmt.Sprintf("f%d", k))
		}
		if g := hc.Grp[k-1]; g != k {
			if err := os.Link(filepath.Join(base, pathOf(g)), p); err != nil {
				return nil, err
			}
		} else if err := os.WriteFile(p, []byte(fmt.Sprintf("inode %d", k)), 0644); err != nil {
			return nil, err
		}
	}
	var f fsutil.FS
	f, err := fsutil.NewFS(base)
	if err != nil {
		return nil, err
	}
	if len(exc) > 0 {
		f, err = fsutil.NewFilterFS(f, &fsutil.FilterOpt{ExcludePatterns: exc})
		if err != nil {
			return nil, err
		}
	}
	f = fsutil.WithHardlinkReset(f)
	idx := func(p string) int {
		var k int
		if _, err := fmt.Sscanf(filepath.ToSlash(p), "f%d", &k); err != nil {
			return -1
		}
		return k
	}
	real := []vt.Ev{}
	werr := f.Walk(context.Background(), "", func(p string, d gofs.DirEntry, err error) error {
		if err != nil {
			return err
		}
		fi, err := d.Info()
		if err != nil {
			return err
		}
		if fi.IsDir() {
			return nil
		}
		st := statOf(fi)
		l := 0
		if st != nil && st.Linkname != "" {
			l = idx(st.Linkname)
			if strings.Contains(filepath.ToSlash(st.Linkname), "/") {
				l = -2 // a name inside a pruned directory
			}
		}
		real = append(real, vt.Ev{"p": idx(p), "l": l})
		return nil
	})
	mdl := []vt.Ev{}
	for _, o := range hc.Out {
		mdl = append(mdl, vt.Ev{"p": o.P, "l": o.L})
	}
	return vt.Ev{"ev": "HLCase", "case": caseNo, "grp": hc.Grp, "st": hc.St, "real": real, "model": mdl, "walkErr": werr != nil, "input": vt.Opaque(hc)}, nil
}

// HLCases walks NewFS -> NewFilterFS -> WithHardlinkReset over every (inode partition, status vector) that TLC enumerated
// from spec/HardlinkMC.tla and records the link names next to the ones the algorithm model ends in (trace spec: WalkTrace).
func HLCases(c *Ctx) error {
	var cases []hlCase
	if c.Replay != "" {
		hc := &hlCase{}
		if err := vt.ReplayInput(c.Replay, hc); err != nil {
			return err
		}
		cases = []hlCase{*hc}
	} else {
		gen := os.Getenv("VERIF_GEN_DIR")
		if gen == "" {
			return fmt.Errorf("VERIF_GEN_DIR not set (TLC-generated case files of HardlinkMC)")
		}
		files, _ := filepath.Glob(filepath.Join(gen, "hlcase_*.ndjson"))
		sort.Strings(files)
		for _, fn := range files {
			b, err := os.ReadFile(fn)
			if err != nil {
				return err
			}
			hc := hlCase{}
			if err := json.Unmarshal(bytes.TrimSpace(b), &hc); err != nil {
				return err
			}
			cases = append(cases, hc)
		}
		c.Stats.Rule = "one case = one walk of NewFS -> NewFilterFS -> WithHardlinkReset over 5 files for an (inode partition, status vector) enumerated by TLC from HardlinkMC; non-trivial = some inode has a reported and a not reported member"
	}
	for _, hc := range cases {
		ev, err := runHLCase(c, c.NextCase(), hc)
		if err != nil {
			return err
		}
		c.Out.Emit(ev)
		nt := false
		for k, g := range hc.Grp {
			if g != k+1 && hc.St[k] != hc.St[g-1] {
				nt = true
			}
		}
		c.Stats.Case(hc.Name, nt)
	}
	return nil
}
