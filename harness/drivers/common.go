package drivers

import (
	"math/rand"

	"verif/harness/vt"
)

// Ctx is what every driver gets from cmd/vdrive.
type Ctx struct {
	Out    *vt.Writer
	Stats  *vt.Stats
	Seed   int64
	Tier   string // quick | thorough
	Replay string // path of a replay file, "" for a normal run
	Work   string // scratch directory owned by this run
	What   string // scenario selector
	Rand   *rand.Rand
	caseNo int
}

func (c *Ctx) Thorough() bool { return c.Tier == "thorough" }

// NextCase hands out case numbers (1-based, unique within a trace file).
func (c *Ctx) NextCase() int {
	c.caseNo++
	return c.caseNo
}

type Driver func(c *Ctx) error

var Registry = map[string]Driver{}

func newRand(seed int64) *rand.Rand { return rand.New(rand.NewSource(seed)) }
