package drivers

import (
	"fmt"
	"os"
	"sort"
	"strings"

	"github.com/tonistiigi/fsutil"
	"github.com/tonistiigi/fsutil/types"
	"verif/harness/vt"
)

func init() { Registry["validator"] = Validator }

type vchange struct {
	Raw   string
	Kind  string
	IsDir bool
}

func (v vchange) ev() vt.Ev {
	return vt.Ev{"raw": vt.B(v.Raw), "kind": v.Kind, "isDir": v.IsDir}
}

func kindOf(s string) fsutil.ChangeKind {
	switch s {
	case "add":
		return fsutil.ChangeKindAdd
	case "modify":
		return fsutil.ChangeKindModify
	}
	return fsutil.ChangeKindDelete
}

// feed runs the real Validator over seq and returns the 1-based index of the
// first rejected change (0 = all accepted).  A panic counts as "accepted by
// crashing", reported as -1 so that no specification value can match it.
func feedValidator(seq []vchange) (idx int) {
	defer func() {
		if r := recover(); r != nil {
			idx = -1
		}
	}()
	var v fsutil.Validator
	for i, c := range seq {
		mode := uint32(0644)
		if c.IsDir {
			mode = uint32(os.ModeDir | 0755)
		}
		fi := &fsutil.StatInfo{Stat: &types.Stat{Path: c.Raw, Mode: mode}}
		if err := v.HandleChange(kindOf(c.Kind), c.Raw, fi, nil); err != nil {
			return i + 1
		}
	}
	return 0
}

func emitSeq(c *Ctx, seq []vchange, origin string) {
	impl := feedValidator(seq)
	chs := make([]vt.Ev, len(seq))
	var key strings.Builder
	offending := false
	for i, s := range seq {
		chs[i] = s.ev()
		fmt.Fprintf(&key, "%q/%s/%v;", s.Raw, s.Kind, s.IsDir)
	}
	if impl != 0 {
		offending = true
	}
	e := vt.Ev{"ev": "Seq", "case": c.NextCase(), "origin": origin, "changes": chs, "impl": impl}
	c.Out.Emit(e)
	// non-trivial: at least two elements, i.e. the verdict depends on state
	c.Stats.Case("seq:"+key.String(), len(seq) >= 2)
	if offending {
		c.Stats.Count("rejected", 1)
	} else {
		c.Stats.Count("accepted", 1)
	}
	if len(seq) >= 3 {
		c.Stats.Sample(e)
	}
}

var hostileRaw = []string{".", "..", "", "a/..", "/a", "a//b", "a", "a/b", "a-b", "a/b/c", "b",
	"../a", "a/", "./a", "a/./b", "a\\b", "a/a", "ab", "a-b/c", "a b", "a/b/..", "a/../..", "a/...", "...", "a/..b"}

// Validator drives fsutil.Validator and fsutil.ComparePath.
func Validator(c *Ctx) error {
	if c.Replay != "" {
		var rp struct {
			Ev      string `json:"ev"`
			Changes []struct {
				Raw   []int  `json:"raw"`
				Kind  string `json:"kind"`
				IsDir bool   `json:"isDir"`
			} `json:"changes"`
			P [][]int `json:"p"`
			Q [][]int `json:"q"`
		}
		if err := vt.ReadJSON(c.Replay, &rp); err != nil {
			return err
		}
		if rp.Ev == "Cmp" {
			emitCmp(c, joinP(rp.P), joinP(rp.Q))
			return nil
		}
		seq := make([]vchange, len(rp.Changes))
		for i, ch := range rp.Changes {
			seq[i] = vchange{vt.UnB(ch.Raw), ch.Kind, ch.IsDir}
		}
		emitSeq(c, seq, "replay")
		return nil
	}

	// 1. bounded-exhaustive tree of sequences over the hostile alphabet
	maxLen := 3
	if c.Thorough() {
		maxLen = 4
	}
	var syms []vchange
	raws := hostileRaw
	if !c.Thorough() {
		raws = hostileRaw[:16]
	}
	for _, r := range raws {
		for _, k := range []string{"add", "modify", "delete"} {
			for _, d := range []bool{false, true} {
				syms = append(syms, vchange{r, k, d})
			}
		}
	}
	var rec func(prefix []vchange)
	rec = func(prefix []vchange) {
		for _, s := range syms {
			seq := append(append([]vchange{}, prefix...), s)
			if feedValidator(seq) != 0 || len(seq) == maxLen {
				emitSeq(c, seq, "enum")
				continue
			}
			rec(seq)
		}
	}
	rec(nil)
	c.Stats.Exhaustive = true
	c.Stats.Note(fmt.Sprintf("all sequences up to length %d over %d symbols (%d raw paths x 3 kinds x dir/file), pruned at first rejection",
		maxLen, len(syms), len(raws)))

	// 2. random longer sequences: valid walks of random trees, then mutated
	nRand := 300
	if c.Thorough() {
		nRand = 6000
	}
	// names that merely begin with dots are ordinary names
	names := []string{"a", "a-b", "a b", "ab", "a.b", "a0", "b", "\xc3\xa9", "!", "-", "0", "A", "~", strings.Repeat("n", 255), "...", "..b", "..data", ".a", "a..", ".-"}
	for i := 0; i < nRand; i++ {
		walk := randomWalk(c, names, 2+c.Rand.Intn(30))
		emitSeq(c, walk, "walk")
		m := mutateWalk(c, walk)
		emitSeq(c, m, "mutated")
	}

	// 2b. deep chains: directories a, a/a, ... down to depth d, then one more change at level k that is a duplicate,
	// a smaller sibling (both invalid) or a larger sibling (valid): the parent records of every depth must survive
	maxDepth := 24
	for d := 1; d <= maxDepth; d++ {
		var chain []vchange
		p := ""
		var prefixes []string
		for k := 1; k <= d; k++ {
			prefixes = append(prefixes, p)
			if p == "" {
				p = "m"
			} else {
				p += "/m"
			}
			chain = append(chain, vchange{p, "add", true})
		}
		for k := 1; k <= d; k++ {
			for _, x := range []string{"m", "A", "z"} {
				q := x
				if prefixes[k-1] != "" {
					q = prefixes[k-1] + "/" + x
				}
				for _, isDir := range []bool{false, true} {
					emitSeq(c, append(append([]vchange{}, chain...), vchange{q, "add", isDir}), "deepChain")
				}
			}
		}
	}

	// 3. order: all pairs over a clean path alphabet + random pairs
	var paths []string
	cn := []string{"!", "-", ".a", "0", "a", "a-b", "a\\b", "\\", "ab", "a b", "a0", "\xc3\xa9", "a.b", "a:b", "\x01", "\xff"}
	if !c.Thorough() {
		cn = cn[:9]
	}
	// multi-byte names whose first difference is a continuation byte
	cn = append(cn, "\xc3\xa8", "\xe4\xb8\x96", "\xe4\xb8\x97", "\xc3\xa9a")
	if !c.Thorough() {
		cn = append(cn, "\xc3\xa9")
	}
	for _, x := range cn {
		paths = append(paths, x)
		for _, y := range cn {
			paths = append(paths, x+"/"+y)
		}
	}
	for _, x := range cn[:4] {
		for _, y := range cn[:4] {
			for _, z := range cn[:4] {
				paths = append(paths, x+"/"+y+"/"+z)
			}
		}
	}
	for _, p := range paths {
		for _, q := range paths {
			emitCmp(c, p, q)
		}
	}
	// random pairs over the full byte range (every byte except NUL and '/'),
	// sharing a random common prefix so that the first difference lands anywhere
	nPairs := 4000
	if c.Thorough() {
		nPairs = 60000
	}
	randName := func() string {
		n := 1 + c.Rand.Intn(3)
		b := make([]byte, n)
		for i := range b {
			for {
				b[i] = byte(1 + c.Rand.Intn(255))
				if b[i] != '/' {
					break
				}
			}
			if c.Rand.Intn(3) == 0 { // bias towards the interesting neighbourhood
				b[i] = []byte{'.', '-', '0', '\\', ' ', '!', 'a', 0x2e, 0x30, 0x5c, 0x5b, 0x5d}[c.Rand.Intn(12)]
			}
		}
		return string(b)
	}
	randPath := func(prefix []string) string {
		parts := append([]string{}, prefix...)
		for k := 0; k < 1+c.Rand.Intn(2); k++ {
			parts = append(parts, randName())
		}
		return strings.Join(parts, "/")
	}
	for i := 0; i < nPairs; i++ {
		var prefix []string
		for k := 0; k < c.Rand.Intn(3); k++ {
			prefix = append(prefix, randName())
		}
		p, q := randPath(prefix), randPath(prefix)
		if c.Rand.Intn(4) == 0 { // same leading bytes inside one component
			q = p + randName()
		}
		emitCmp(c, p, q)
		emitCmp(c, q, p)
	}
	return nil
}

func joinP(p [][]int) string {
	parts := make([]string, len(p))
	for i, n := range p {
		parts[i] = vt.UnB(n)
	}
	return strings.Join(parts, "/")
}

func emitCmp(c *Ctx, p, q string) {
	s := fsutil.ComparePath(p, q)
	sign := 0
	if s < 0 {
		sign = -1
	} else if s > 0 {
		sign = 1
	}
	c.Out.Emit(vt.Ev{"ev": "Cmp", "case": c.NextCase(), "p": vt.P(p), "q": vt.P(q), "sign": sign})
	c.Stats.Case("cmp:"+p+"\x00"+q, p != q)
}

// randomWalk produces the change sequence of a walk over a random tree.
func randomWalk(c *Ctx, names []string, n int) []vchange {
	type ent struct {
		path  string
		isDir bool
	}
	dirs := []string{""}
	seen := map[string]bool{}
	var ents []ent
	for len(ents) < n {
		d := dirs[c.Rand.Intn(len(dirs))]
		nm := names[c.Rand.Intn(len(names))]
		p := nm
		if d != "" {
			p = d + "/" + nm
		}
		if seen[p] || strings.Count(p, "/") > 4 || len(p) > 600 {
			if c.Rand.Intn(8) == 0 {
				break
			}
			continue
		}
		seen[p] = true
		isDir := c.Rand.Intn(3) == 0
		if isDir {
			dirs = append(dirs, p)
		}
		ents = append(ents, ent{p, isDir})
	}
	sort.Slice(ents, func(i, j int) bool {
		return lessComponents(ents[i].path, ents[j].path)
	})
	out := make([]vchange, len(ents))
	for i, e := range ents {
		k := "add"
		if c.Rand.Intn(6) == 0 {
			k = "modify"
		}
		out[i] = vchange{e.path, k, e.isDir}
	}
	return out
}

// lessComponents is the harness's own component-wise order (independent of
// fsutil.ComparePath); TLC re-checks it anyway.
func lessComponents(a, b string) bool {
	pa, pb := strings.Split(a, "/"), strings.Split(b, "/")
	for i := 0; i < len(pa) && i < len(pb); i++ {
		if pa[i] != pb[i] {
			return pa[i] < pb[i]
		}
	}
	return len(pa) < len(pb)
}

func mutateWalk(c *Ctx, w []vchange) []vchange {
	m := append([]vchange{}, w...)
	if len(m) == 0 {
		return m
	}
	i := c.Rand.Intn(len(m))
	switch c.Rand.Intn(8) {
	case 0: // swap two neighbours
		if i+1 < len(m) {
			m[i], m[i+1] = m[i+1], m[i]
		}
	case 1: // duplicate
		m = append(m[:i+1], m[i:]...)
	case 2: // drop (a parent, possibly)
		m = append(m[:i], m[i+1:]...)
	case 3: // directory becomes a file
		m[i].IsDir = false
	case 4: // directory is deleted, children stay
		m[i].Kind = "delete"
	case 5: // hostile element inserted
		h := hostileRaw[c.Rand.Intn(len(hostileRaw))]
		m = append(m[:i], append([]vchange{{h, "add", c.Rand.Intn(2) == 0}}, m[i:]...)...)
	case 6: // hostile suffix on an existing path
		m[i].Raw = m[i].Raw + []string{"/..", "/.", "/", "//x", "/../.."}[c.Rand.Intn(5)]
	case 7: // move an element to the end
		e := m[i]
		m = append(append(m[:i:i], m[i+1:]...), e)
	}
	return m
}
