package drivers

import (
	"context"
	"fmt"
	"os"
	"path/filepath"
	"strings"
	"sync"
	"time"

	"github.com/tonistiigi/fsutil"
	"verif/harness/disk"
	"verif/harness/hstream"
	"verif/harness/model"
	"verif/harness/vt"
)

func init() { Registry["faults"] = Faults }

type faultInput struct {
	Scenario  string     `json:"scenario"`
	Src       model.Tree `json:"src"`
	Dst       model.Tree `json:"dst"`
	Kind      string     `json:"kind"` // none S.send S.recv R.send R.recv S.cancel@send S.cancel@recv R.cancel@send R.cancel@recv walk open read hasher notify
	K         int        `json:"k"`
	J         int        `json:"j"`
	CapS      int        `json:"capS"`
	CapR      int        `json:"capR"`
	SlowData  int        `json:"slowDataUs"`
	Quiet     bool       `json:"quiet"`
	CbDelayMS int        `json:"cbDelayMs"`
	OnlyKinds []string   `json:"onlyKinds,omitempty"`
}

type opCounts struct {
	SSend, SRecv, RSend, RRecv, Walks, Opens, Hasher, Notify int
}

var snapCache sync.Map

// cachedSnapshot: the paths and types of a (read-only) source directory, computed once.
func cachedSnapshot(dir string) ([]vt.Ev, error) {
	if v, ok := snapCache.Load(dir); ok {
		return v.([]vt.Ev), nil
	}
	t, err := disk.Snapshot(dir, false)
	if err != nil {
		return nil, err
	}
	out := make([]vt.Ev, len(t))
	for i := range t {
		out[i] = vt.Ev{"p": vt.P(t[i].Path), "t": t[i].Type}
	}
	snapCache.Store(dir, out)
	return out, nil
}

// runFault runs one (possibly faulty) transfer and then a fault-free
// follow-up transfer into whatever it left behind.  Cases: caseNo, caseNo+1.
func runFault(c *Ctx, caseNo int, in faultInput, srcDir string) ([]vt.Ev, *SyncResult, opCounts, error) {
	var cnt opCounts
	base := filepath.Join(c.Work, fmt.Sprintf("fcase%d", caseNo))
	src, dst := filepath.Join(base, "src"), filepath.Join(base, "dst")
	defer disk.RemoveAll(base)
	if err := os.MkdirAll(dst, 0755); err != nil {
		return nil, nil, cnt, err
	}
	if srcDir != "" {
		src = srcDir // the source is read-only: one materialisation per scenario
	} else {
		if err := os.MkdirAll(src, 0755); err != nil {
			return nil, nil, cnt, err
		}
		if err := disk.Materialise(src, in.Src); err != nil {
			return nil, nil, cnt, err
		}
	}
	if err := disk.Materialise(dst, in.Dst); err != nil {
		return nil, nil, cnt, err
	}
	realFS, err := fsutil.NewFS(src)
	if err != nil {
		return nil, nil, cnt, err
	}
	var connRef *hstream.Conn
	ffs := &faultFS{FS: realFS, OnFault: func(kind string, k int) {
		if connRef != nil {
			connRef.Log(vt.Ev{"ev": "Fault", "ep": "S", "op": kind, "k": k})
		}
	}}
	srcFull, err := cachedSnapshot(src)
	if err != nil {
		return nil, nil, cnt, err
	}
	o := SyncOpts{Mode: "dirty", Differ: "metadata", CapS2R: in.CapS, CapR2S: in.CapR, SrcFS: ffs, Quiet: in.Quiet,
		Timeout: 2500 * time.Millisecond, CbDelay: time.Duration(in.CbDelayMS) * time.Millisecond,
		Extra: vt.Ev{"input": vt.Opaque(in), "origin": in.Scenario, "fault": in.Kind, "k": in.K, "srcFull": srcFull}}
	if in.SlowData > 0 {
		d := time.Duration(in.SlowData) * time.Microsecond
		o.Gate = func(ep, op string, k int) {
			if ep == "S" && op == "sent:DATA" {
				time.Sleep(d)
			}
		}
	}
	switch in.Kind {
	case "walk":
		ffs.WalkErrAt = in.K
	case "open":
		ffs.OpenErrAt = in.K
	case "read":
		ffs.ReadErrAt, ffs.ReadAfter = in.K, in.J
	case "hasher":
		o.HasherErrAt = in.K
	case "notify":
		o.NotifyErrAt = in.K
	}
	o.Setup = func(conn *hstream.Conn, cancelS, cancelR context.CancelFunc) {
		connRef = conn
		brk := func() { conn.Break() }
		switch in.Kind {
		case "S.send":
			conn.S.Faults = []hstream.Fault{{Op: "send", K: in.K, Err: hstream.ErrBroken, Do: brk}}
		case "S.recv":
			conn.S.Faults = []hstream.Fault{{Op: "recv", K: in.K, Err: hstream.ErrBroken, Do: brk}}
		case "R.send":
			conn.R.Faults = []hstream.Fault{{Op: "send", K: in.K, Err: hstream.ErrBroken, Do: brk}}
		case "R.recv":
			conn.R.Faults = []hstream.Fault{{Op: "recv", K: in.K, Err: hstream.ErrBroken, Do: brk}}
		case "S.sendErrOnce":
			// one SendMsg reports an error, the stream itself stays usable (the failure must still surface)
			conn.S.Faults = []hstream.Fault{{Op: "send", K: in.K, Err: hstream.ErrBroken}}
		case "R.sendErrOnce":
			conn.R.Faults = []hstream.Fault{{Op: "send", K: in.K, Err: hstream.ErrBroken}}
		case "S.cancel@send":
			conn.S.Faults = []hstream.Fault{{Op: "send", K: in.K, Do: cancelS}}
		case "S.cancel@recv":
			conn.S.Faults = []hstream.Fault{{Op: "recv", K: in.K, Do: cancelS}}
		case "R.cancel@send":
			conn.R.Faults = []hstream.Fault{{Op: "send", K: in.K, Do: cancelR}}
		case "R.cancel@recv":
			conn.R.Faults = []hstream.Fault{{Op: "recv", K: in.K, Do: cancelR}}
		}
	}
	if in.Kind == "openFailsWhenPipelineFull" {
		// all opens are held back until the stream has gone quiet (every request the receiver can make is queued or
		// waiting to be queued), then every one of them fails
		ffs.HoldOpens = make(chan struct{})
	}
	o.SetupCallOnly = func(conn *hstream.Conn, cancelS, cancelR context.CancelFunc) {
		if in.Kind == "openFailsWhenPipelineFull" {
			go func() {
				for time.Since(conn.LastActivity()) < 300*time.Millisecond {
					time.Sleep(50 * time.Millisecond)
				}
				close(ffs.HoldOpens)
			}()
		}
		if in.Kind == "R.cancelCall@readBlocked" || in.Kind == "S.cancelCall@readBlocked" {
			// the source's reader is stuck mid-file; once everything else has drained, one call's context is
			// cancelled (the stream does not notice), and a little later the reader is released
			ffs.BlockAt, ffs.BlockAfter, ffs.Release = in.K, in.J, make(chan struct{})
			ffs.OnBlock = func() {
				time.Sleep(200 * time.Millisecond)
				conn.Log(vt.Ev{"ev": "Fault", "ep": in.Kind[:1], "op": "cancelCall@readBlocked", "k": in.K})
				if in.Kind[0] == 'R' {
					cancelR()
				} else {
					cancelS()
				}
				time.Sleep(200 * time.Millisecond)
				close(ffs.Release)
			}
		}
		switch in.Kind {
		case "S.cancelCall@send":
			conn.S.Faults = []hstream.Fault{{Op: "send", K: in.K, Do: cancelS}}
		case "R.cancelCall@recv":
			conn.R.Faults = []hstream.Fault{{Op: "recv", K: in.K, Do: cancelR}}
		case "R.cancelCall@send":
			conn.R.Faults = []hstream.Fault{{Op: "send", K: in.K, Do: cancelR}}
		}
	}
	res, err := RunSync(caseNo, src, dst, o)
	if err != nil {
		return nil, nil, cnt, err
	}
	cnt.SSend, cnt.SRecv = res.Conn.S.Ops()
	cnt.RSend, cnt.RRecv = res.Conn.R.Ops()
	cnt.Walks, cnt.Opens = ffs.Walks, ffs.Opens
	cnt.Hasher, cnt.Notify = res.HasherCalls, res.NotifyCalls
	evs := res.Events
	if in.Kind != "none" && len(res.Hung) == 0 {
		// follow-up: a later fault-free transfer into the leftovers must converge
		res2, err := RunSync(caseNo+1, src, dst, SyncOpts{Mode: "dirty", Differ: "metadata", CapS2R: 8, CapR2S: 8, Quiet: in.Quiet,
			Timeout: 2500 * time.Millisecond,
			Extra:   vt.Ev{"input": vt.Opaque(in), "origin": in.Scenario + "/followup", "followUp": true}})
		if err != nil {
			return nil, nil, cnt, err
		}
		evs = append(evs, res2.Events...)
	}
	return evs, res, cnt, nil
}

func faultScenarios(c *Ctx) []faultInput {
	mk := func(p string, size int, seed int64) model.Entry {
		d := fileData(seed, size)
		return model.Entry{Path: p, Type: "file", Perm: 0644, Size: int64(size), Data: d, DSeed: seed, Content: model.ContentID(d), Mtime: uniqueMtime()}
	}
	small := model.Tree{
		{Path: "d", Type: "dir", Perm: 0755, Mtime: uniqueMtime()},
		mk("d/a", 0, 1), mk("d/b", 10, 2), mk("e", 32768, 3), mk("f", 70000, 4), mk("g", 100, 5),
		{Path: "l", Type: "symlink", Perm: 0777, Link: "e", Mtime: uniqueMtime()},
	}
	dirty, _ := MutateTree(c.Rand, small, genOpts{MaxEntries: 10}, 4)
	var fan model.Tree
	for k := 0; k < 300; k++ {
		fan = append(fan, mk(fmt.Sprintf("f%04d", k), 1, int64(100+k)))
	}
	// a directory first (its notification is synchronous in the diff loop), then 320 files:
	// a slow failing callback on the directory lets more than 2x128 STATs pile up
	dirFirst := model.Tree{{Path: "00d", Type: "dir", Perm: 0755, Mtime: uniqueMtime()}}
	for k := 0; k < 320; k++ {
		dirFirst = append(dirFirst, mk(fmt.Sprintf("f%04d", k), 1, int64(700+k)))
	}
	// a view that needs no file content at all (directories, symlinks, empty files): a transfer cut short anywhere
	// still looks complete to a receiver that is told "end of stream"
	var noContent model.Tree
	for k := 0; k < 24; k++ {
		noContent = append(noContent, model.Entry{Path: fmt.Sprintf("d%02d", k), Type: "dir", Perm: 0755, Mtime: uniqueMtime()})
		if k%3 == 0 {
			noContent = append(noContent, model.Entry{Path: fmt.Sprintf("d%02d/l", k), Type: "symlink", Link: "..", Perm: 0777, Mtime: uniqueMtime()})
		}
	}
	noContent.Sort()
	out := []faultInput{
		{Scenario: "small/empty", Src: small, CapS: 1, CapR: 1},
		{Scenario: "small/dirty", Src: small, Dst: dirty, CapS: 0, CapR: 0},
		{Scenario: "fanout300/slowdata", Src: fan, CapS: 32, CapR: 64, SlowData: 1000},
		{Scenario: "noContent/dirsAndLinks", Src: noContent, CapS: 1, CapR: 1, OnlyKinds: []string{"S.cancelCall@send", "S.cancel@send", "R.cancelCall@recv", "walk", "S.send", "R.recv"}},
		{Scenario: "dirfirst320/slowcallback", Src: dirFirst, CapS: 64, CapR: 64, CbDelayMS: 400, OnlyKinds: []string{"notify", "hasher"}},
	}
	if c.Thorough() {
		out = append(out,
			faultInput{Scenario: "small/empty/cap32", Src: small, CapS: 32, CapR: 32},
			faultInput{Scenario: "fanout300/cap0", Src: fan, CapS: 0, CapR: 0},
			faultInput{Scenario: "fanout300/slowdata/cap1", Src: fan, CapS: 1, CapR: 64, SlowData: 200},
		)
		for i := 0; i < 4; i++ {
			t := RandomTree(c.Rand, genOpts{MaxEntries: 15, BigFiles: true, Links: true})
			d, _ := MutateTree(c.Rand, t, genOpts{MaxEntries: 15}, 3)
			out = append(out, faultInput{Scenario: fmt.Sprintf("random%d", i), Src: t, Dst: d, CapS: []int{0, 1, 32}[i%3], CapR: []int{1, 32, 0}[i%3]})
		}
	}
	return out
}

// Faults: fault enumeration (C04).  A fault-free run of each scenario counts
// the operations of every kind; then every (kind, k) is injected once.
func Faults(c *Ctx) error {
	if c.Replay != "" {
		in := &faultInput{}
		if err := vt.ReplayInput(c.Replay, in); err != nil {
			return err
		}
		Regen(in.Src)
		Regen(in.Dst)
		if in.Kind == "kill" {
			srcDir := filepath.Join(c.Work, "ksrc")
			os.MkdirAll(srcDir, 0755)
			if err := disk.Materialise(srcDir, in.Src); err != nil {
				return err
			}
			evs, _, _, err := runKill(c, c.caseNo+1, *in, srcDir)
			c.caseNo += 2
			if err != nil {
				return err
			}
			for _, e := range evs {
				c.Out.Emit(e)
			}
			return nil
		}
		evs, _, _, err := runFault(c, c.caseNo+1, *in, "")
		c.caseNo += 2
		if err != nil {
			return err
		}
		for _, e := range evs {
			c.Out.Emit(e)
		}
		return nil
	}
	c.Stats.Rule = "one case = one real transfer with one injected fault (kind, operation index) followed by a fault-free follow-up transfer into the leftovers; non-trivial = the fault fired; distinct by (scenario, kind, index)"
	scenarios := faultScenarios(c)
	if c.What == "local" {
		// the small scenarios with the faults that leave the stream intact (callbacks, source errors, a single failed
		// send): used by the checks of the outcome properties - whenever Receive still reports success the destination
		// must be what the source is
		var keep []faultInput
		for _, sc := range scenarios {
			if strings.HasPrefix(sc.Scenario, "small/") {
				sc.OnlyKinds = []string{"notify", "hasher", "open", "read", "walk", "S.sendErrOnce", "R.sendErrOnce"}
				keep = append(keep, sc)
			}
		}
		scenarios = keep
	}
	for si, sc := range scenarios {
		srcDir := filepath.Join(c.Work, fmt.Sprintf("fsrc%d", si))
		if err := os.MkdirAll(srcDir, 0755); err != nil {
			return err
		}
		if err := disk.Materialise(srcDir, sc.Src); err != nil {
			return err
		}
		base := sc
		base.Kind = "none"
		n := c.caseNo + 1
		c.caseNo += 2
		evs, res, cnt, err := runFault(c, n, base, srcDir)
		if err != nil {
			return err
		}
		for _, e := range evs {
			c.Out.Emit(e)
		}
		c.Stats.Case(vt.Opaque(struct{ S, K string }{sc.Scenario, "none"}), false)
		if !(res.SOK && res.ROK) {
			c.Stats.Note("fault-free run of " + sc.Scenario + " did not succeed")
		}
		c.Stats.Note(fmt.Sprintf("%s: ops counted in the fault-free run: %+v", sc.Scenario, cnt))
		kinds := []struct {
			kind string
			n    int
		}{
			{"S.send", cnt.SSend}, {"S.recv", cnt.SRecv}, {"R.send", cnt.RSend}, {"R.recv", cnt.RRecv},
			{"S.cancel@send", cnt.SSend}, {"S.cancel@recv", cnt.SRecv}, {"R.cancel@send", cnt.RSend}, {"R.cancel@recv", cnt.RRecv},
			{"S.cancelCall@send", cnt.SSend}, {"R.cancelCall@recv", cnt.RRecv}, {"R.cancelCall@send", cnt.RSend},
			{"walk", cnt.Walks}, {"open", cnt.Opens}, {"read", cnt.Opens}, {"hasher", cnt.Hasher}, {"notify", cnt.Notify},
			{"R.cancelCall@readBlocked", cnt.Opens}, {"S.cancelCall@readBlocked", cnt.Opens},
			{"openFailsWhenPipelineFull", 1},
			{"S.sendErrOnce", cnt.SSend}, {"R.sendErrOnce", cnt.RSend},
		}
		// SIGKILL of the receiving process at the sender's k-th SendMsg
		if len(sc.OnlyKinds) == 0 && sc.SlowData == 0 {
			var ks []int
			if cnt.SSend <= 40 {
				for k := 0; k < cnt.SSend; k++ {
					ks = append(ks, k)
				}
			} else {
				for _, k := range []int{0, 1, 150, 301, 450, cnt.SSend - 2} {
					ks = append(ks, k)
				}
			}
			hung := 0
			for _, k := range ks {
				if hung >= 2 {
					continue
				}
				in := sc
				in.Kind, in.K = "kill", k
				n := c.caseNo + 1
				c.caseNo += 2
				evs, _, hang, err := runKill(c, n, in, srcDir)
				if err != nil {
					return fmt.Errorf("%s kill@%d: %w", sc.Scenario, k, err)
				}
				for _, e := range evs {
					c.Out.Emit(e)
				}
				c.Stats.Case(vt.Opaque(struct {
					S string
					N int
				}{sc.Scenario, k}), true)
				c.Stats.Count("kind:kill", 1)
				if hang {
					hung++
					c.Stats.Count("hang:kill", 1)
				}
			}
		}
		for _, kd := range kinds {
			if len(sc.OnlyKinds) > 0 {
				keep := false
				for _, x := range sc.OnlyKinds {
					keep = keep || x == kd.kind
				}
				if !keep {
					continue
				}
			}
			// operation indexes: all of them for small scenarios, a spread for large ones
			var ks []int
			first := 0
			if kd.kind == "walk" || kd.kind == "open" || kd.kind == "read" || kd.kind == "hasher" || kd.kind == "notify" || strings.HasSuffix(kd.kind, "@readBlocked") {
				first = 1
			}
			limit := 40
			if c.Thorough() {
				limit = 160
			}
			if len(sc.Src) > 100 {
				limit = 5
				if c.Thorough() {
					limit = 40
				}
			}
			last := kd.n - 1 + first
			if kd.n <= limit {
				for k := first; k <= last; k++ {
					ks = append(ks, k)
				}
			} else {
				seen := map[int]bool{}
				// beyond 132 outstanding requests (pipeline 128 + 4 workers) and around the end of the STAT stream
				for _, k := range []int{first, 170, 230, 301, last, 150, 200, 320} {
					if len(ks) >= limit {
						break
					}
					if k >= first && k <= last && !seen[k] {
						seen[k] = true
						ks = append(ks, k)
					}
				}
				for len(ks) < limit {
					k := first + c.Rand.Intn(kd.n)
					if !seen[k] {
						seen[k] = true
						ks = append(ks, k)
					}
				}
			}
			hung := 0
			for _, k := range ks {
				if hung >= 2 {
					c.Stats.Count("skippedAfterHangs:"+kd.kind, 1)
					continue
				}
				in := sc
				in.Kind, in.K = kd.kind, k
				if kd.kind == "read" {
					in.J = []int{0, 1, 32768, 40000}[c.Rand.Intn(4)]
				}
				if strings.HasSuffix(kd.kind, "@readBlocked") {
					in.J = []int{0, 1, 10, 32768}[c.Rand.Intn(4)]
				}
				n := c.caseNo + 1
				c.caseNo += 2
				evs, res, _, err := runFault(c, n, in, srcDir)
				if err != nil {
					return fmt.Errorf("%s %s@%d: %w", sc.Scenario, kd.kind, k, err)
				}
				fired := false
				for _, e := range evs {
					c.Out.Emit(e)
					if e["ev"] == "Fault" {
						fired = true
					}
				}
				c.Stats.Case(vt.Opaque(struct {
					S, K string
					N    int
				}{sc.Scenario, kd.kind, k}), fired)
				c.Stats.Count("kind:"+kd.kind, 1)
				if res.Quiesced {
					c.Stats.Count("neededEnvironmentTeardown:"+kd.kind, 1)
				}
				if len(res.Hung) > 0 {
					hung++
					c.Stats.Count("hang:"+kd.kind, 1)
				}
				if res.SOK {
					c.Stats.Count("sendOKdespiteFault", 1)
				}
				if res.ROK {
					c.Stats.Count("recvOKdespiteFault", 1)
				}
				if fired && len(c.Stats.Samples) < 5 && k > first {
					c.Stats.Sample(vt.Ev{"scenario": sc.Scenario, "fault": kd.kind, "k": k, "sendErr": trunc(res.SErr), "recvErr": trunc(res.RErr),
						"neededEnvTeardown": res.Quiesced, "hung": len(res.Hung) > 0})
				}
			}
		}
	}
	return nil
}
