package drivers

import (
	"bytes"
	"context"
	"encoding/json"
	"fmt"
	gofs "io/fs"
	"os"
	"os/exec"
	"path"
	"path/filepath"
	"runtime/debug"
	"sort"
	"strings"
	"syscall"
	"time"

	"github.com/tonistiigi/fsutil"
	"verif/harness/disk"
	"verif/harness/model"
	"verif/harness/vt"
)

func init() {
	Registry["follow"] = Follow
	childRoles["follow-child"] = followChild
}

type followCase struct {
	Case        int        `json:"case"`
	Tree        model.Tree `json:"tree"`
	Reqs        []string   `json:"reqs"`
	WithInclude bool       `json:"withInclude,omitempty"` // the transfer also sets an include list (that selects nothing by itself)
	// FailTarget: looking this path up fails with an I/O error (not "does not exist")
	FailTarget string `json:"failTarget,omitempty"`
	// Model: the case was enumerated by TLC from spec/ResolverMC.tla; the result of the ALGORITHM model's run (no transfer follows)
	Model *followModel `json:"model,omitempty"`
}

type followModel struct {
	Name   string   `json:"name"`
	Result []string `json:"result"`
	IsNil  bool     `json:"isNil"`
}

// followModelCases reads the (tree, request list) cases TLC wrote for ResolverMC; every `stride`-th file is taken.
func followModelCases(gen string, stride int) ([]followCase, error) {
	files, _ := filepath.Glob(filepath.Join(gen, "followcase_*.ndjson"))
	sort.Strings(files)
	var out []followCase
	for k, f := range files {
		if k%stride != 0 {
			continue
		}
		b, err := os.ReadFile(f)
		if err != nil {
			return nil, err
		}
		var mc struct {
			Name string `json:"name"`
			Tree []struct {
				P  string `json:"p"`
				T  string `json:"t"`
				Ln string `json:"ln"`
			} `json:"tree"`
			Reqs   []string `json:"reqs"`
			Result []string `json:"result"`
			IsNil  bool     `json:"isNil"`
		}
		if err := json.Unmarshal(bytes.TrimSpace(b), &mc); err != nil {
			return nil, err
		}
		fc := followCase{Reqs: mc.Reqs, Model: &followModel{Name: mc.Name, Result: mc.Result, IsNil: mc.IsNil}}
		if fc.Model.Result == nil {
			fc.Model.Result = []string{}
		}
		for i, e := range mc.Tree {
			switch e.T {
			case "dir":
				fc.Tree = append(fc.Tree, model.Entry{Path: e.P, Type: "dir", Perm: 0755, Mtime: 1400000000000000000 + int64(i)})
			case "symlink":
				fc.Tree = append(fc.Tree, model.Entry{Path: e.P, Type: "symlink", Perm: 0777, Link: e.Ln, Mtime: 1400000000000000000 + int64(i)})
			default:
				fc.Tree = append(fc.Tree, model.Entry{Path: e.P, Type: "file", Perm: 0644, Mtime: 1400000000000000000 + int64(i), Data: []byte("x"), Size: 1, Content: model.ContentID([]byte("x"))})
			}
		}
		fc.Tree.Sort()
		out = append(out, fc)
	}
	return out, nil
}

// lookupFaultFS fails every Walk of one target with EIO.
type lookupFaultFS struct {
	fsutil.FS
	target string
	hit    bool
}

func (f *lookupFaultFS) Walk(ctx context.Context, target string, fn gofs.WalkDirFunc) error {
	if filepath.Clean(target) == f.target {
		f.hit = true
		return &os.PathError{Op: "lstat", Path: target, Err: syscall.EIO}
	}
	return f.FS.Walk(ctx, target, fn)
}

func hasWild(s string) bool { return strings.ContainsAny(s, "*?[") }

// comps splits a request / result element into components ("" for the root)
func comps(p string) [][]int {
	p = strings.Trim(filepath.ToSlash(p), "/")
	if p == "" || p == "." {
		return [][]int{}
	}
	return vt.P(p)
}

// resolveTree resolves a component list chroot-style in a model tree (every symlink followed, ".." clamped at the
// root, absolute targets restart at the root); ok=false on a cycle (fuel) .  The result is the path reached, which need
// not exist.
func resolveTree(t model.Tree, parts []string) (string, bool) {
	cur := []string{}
	fuel := 40
	for len(parts) > 0 {
		p := parts[0]
		parts = parts[1:]
		switch p {
		case "", ".":
			continue
		case "..":
			if len(cur) > 0 {
				cur = cur[:len(cur)-1]
			}
			continue
		}
		nxt := strings.Join(append(append([]string{}, cur...), p), "/")
		if e := t.Find(nxt); e != nil && e.Type == "symlink" {
			if fuel == 0 {
				return "", false
			}
			fuel--
			if strings.HasPrefix(e.Link, "/") {
				cur = []string{}
			}
			parts = append(strings.Split(e.Link, "/"), parts...)
			continue
		}
		cur = append(cur, p)
	}
	return strings.Join(cur, "/"), true
}

type expansion struct {
	P []string
	W []int // 1-based positions of the components that came from a wildcard
}

// expandWild enumerates the literal paths a wildcard request stands for: each wildcard component is matched
// (path.Match, the standard library's glob) against the names in the directory the literal prefix resolves to.
func expandWild(t model.Tree, req string) []expansion {
	parts := strings.Split(strings.Trim(req, "/"), "/")
	cur := []expansion{{}}
	for i, comp := range parts {
		var next []expansion
		for _, x := range cur {
			if !hasWild(comp) {
				next = append(next, expansion{append(append([]string{}, x.P...), comp), x.W})
				continue
			}
			dir, ok := resolveTree(t, x.P)
			if !ok {
				continue
			}
			if dir != "" {
				if e := t.Find(dir); e == nil || e.Type != "dir" {
					continue
				}
			}
			for _, e := range t {
				parent, name := path.Split(e.Path)
				if strings.TrimSuffix(parent, "/") != dir {
					continue
				}
				if m, err := path.Match(comp, name); err == nil && m {
					next = append(next, expansion{append(append([]string{}, x.P...), name), append(append([]int{}, x.W...), i+1)})
				}
			}
		}
		cur = next
		if len(cur) > 16 {
			cur = cur[:16]
		}
	}
	return cur
}

// followChild: args <dir>; reads <dir>/cases.json, appends one event per finished case to
// <dir>/events.ndjson and the number of the case in flight to <dir>/inflight.
func followChild(args []string) {
	dir := args[0]
	debug.SetMaxStack(64 << 20)
	var cases []followCase
	if err := vt.ReadJSON(filepath.Join(dir, "cases.json"), &cases); err != nil {
		fmt.Fprintln(os.Stderr, err)
		os.Exit(2)
	}
	f, err := os.OpenFile(filepath.Join(dir, "events.ndjson"), os.O_CREATE|os.O_APPEND|os.O_WRONLY, 0644)
	if err != nil {
		os.Exit(2)
	}
	for _, fc := range cases {
		os.WriteFile(filepath.Join(dir, "inflight"), []byte(fmt.Sprint(fc.Case)), 0644)
		base := filepath.Join(dir, fmt.Sprintf("t%d", fc.Case))
		src, dst := filepath.Join(base, "src"), filepath.Join(base, "dst")
		os.MkdirAll(src, 0755)
		os.MkdirAll(dst, 0755)
		if err := disk.Materialise(src, fc.Tree); err != nil {
			fmt.Fprintln(os.Stderr, "materialise:", err)
			os.Exit(2)
		}
		snap, err := disk.Snapshot(src, false)
		if err != nil {
			os.Exit(2)
		}
		fsys, err := fsutil.NewFS(src)
		if err != nil {
			os.Exit(2)
		}
		type res struct {
			l   []string
			err error
		}
		ch := make(chan res, 1)
		var lf *lookupFaultFS
		go func() {
			var target fsutil.FS = fsys
			if fc.FailTarget != "" {
				lf = &lookupFaultFS{FS: fsys, target: fc.FailTarget}
				target = lf
			}
			l, err := fsutil.FollowLinks(target, fc.Reqs)
			ch <- res{l, err}
		}()
		var r res
		hang := false
		select {
		case r = <-ch:
		case <-time.After(4 * time.Second):
			hang = true
		}
		reqs := make([]vt.Ev, len(fc.Reqs))
		for i, q := range fc.Reqs {
			reqs[i] = vt.Ev{"p": comps(q), "wild": hasWild(q), "s": q}
		}
		exps := []vt.Ev{}
		for _, q := range fc.Reqs {
			if hasWild(q) {
				for _, x := range expandWild(snap, q) {
					w := x.W
					if w == nil {
						w = []int{}
					}
					exps = append(exps, vt.Ev{"p": vt.P(strings.Join(x.P, "/")), "w": w})
				}
			}
		}
		result := [][][]int{}
		resWild := []bool{}
		for _, x := range r.l {
			result = append(result, comps(x))
			resWild = append(resWild, hasWild(x))
		}
		ev := vt.Ev{"ev": "Follow", "case": fc.Case, "tree": snap.Ev(), "reqs": reqs, "result": result, "resWild": resWild,
			"resultStr": nonNil(r.l), "isNil": r.l == nil && !hang && r.err == nil, "hang": hang, "err": r.err != nil,
			"byteSorted": sort.StringsAreSorted(r.l), "synced": false, "syncFailed": false, "dst": []vt.Ev{}, "input": vt.Opaque(fc), "exps": exps}
		if r.err != nil {
			ev["errText"] = trunc(r.err.Error())
		}
		ev["lookupFault"] = fc.FailTarget != "" && lf != nil && lf.hit
		if fc.Model != nil {
			mr := [][][]int{}
			for _, x := range fc.Model.Result {
				mr = append(mr, comps(x))
			}
			ev["model"] = vt.Ev{"result": mr, "isNil": fc.Model.IsNil}
		}
		if !hang && r.err == nil && fc.FailTarget == "" && fc.Model == nil {
			// end to end: a transfer with these follow-paths
			fo := &fsutil.FilterOpt{FollowPaths: fc.Reqs}
			if fc.WithInclude && r.l != nil {
				// together with an include list (one that selects nothing by itself): the followed paths must still arrive
				fo.IncludePatterns = []string{"zz-no-such-entry"}
			}
			ev["withInclude"] = fc.WithInclude && r.l != nil
			ffs, err := fsutil.NewFilterFS(fsys, fo)
			if err == nil {
				sres, err := RunSync(fc.Case, src, dst, SyncOpts{Mode: "dirty", Differ: "metadata", CapS2R: 8, CapR2S: 8, SrcFS: ffs, NoProgress: true,
					Timeout: 3 * time.Second})
				if err == nil && sres.SOK && sres.ROK {
					ev["synced"] = true
					ev["dst"] = sres.After.Ev()
				} else {
					ev["syncFailed"] = true
					if err == nil {
						ev["syncErr"] = trunc(sres.SErr + " | " + sres.RErr)
					}
				}
			} else {
				ev["syncFailed"] = true
				ev["syncErr"] = trunc(err.Error())
			}
		}
		b, _ := json.Marshal(ev)
		f.Write(append(b, '\n'))
		disk.RemoveAll(base)
		if hang {
			// the runaway goroutine keeps burning CPU / stack: start over in a fresh process
			os.WriteFile(filepath.Join(dir, "inflight"), []byte("restart"), 0644)
			f.Close()
			os.Exit(3)
		}
	}
	os.WriteFile(filepath.Join(dir, "inflight"), []byte("done"), 0644)
	f.Close()
}

func followTree(c *Ctx) model.Tree {
	names := []string{"a", "b", "l", "m", "a-b", "d"}
	if c.Rand.Intn(6) == 0 {
		names = append(names, "l[1]", "l?", "d1") // entry names that are themselves glob patterns
	}
	targets := []string{"a", "b", "/a", "..", "../..", "a/b", "l", "m", "/", "nonexistent", "../b", "d/a", "./a", "/d/l", "a-b", "m/x", "a:b", "d/a:b", "/a:b/a"}
	if c.Rand.Intn(4) == 0 {
		names = append(names, "a:b") // a colon is an ordinary byte of a name
	}
	var t model.Tree
	used := map[string]bool{}
	dirs := []string{""}
	n := 3 + c.Rand.Intn(10)
	for len(t) < n {
		d := dirs[c.Rand.Intn(len(dirs))]
		nm := names[c.Rand.Intn(len(names))]
		p := nm
		if d != "" {
			p = d + "/" + nm
		}
		if used[p] || strings.Count(p, "/") > 2 {
			if c.Rand.Intn(8) == 0 {
				break
			}
			continue
		}
		used[p] = true
		switch c.Rand.Intn(5) {
		case 0, 1:
			t = append(t, model.Entry{Path: p, Type: "dir", Perm: 0755, Mtime: uniqueMtime()})
			dirs = append(dirs, p)
		case 2, 3:
			t = append(t, model.Entry{Path: p, Type: "symlink", Perm: 0777, Link: targets[c.Rand.Intn(len(targets))], Mtime: uniqueMtime()})
		default:
			e := newFile(c.Rand, genOpts{})
			e.Path = p
			t = append(t, e)
		}
	}
	t.Sort()
	return t
}

// Follow drives fsutil.FollowLinks and a transfer with follow-paths (C18).
func Follow(c *Ctx) error {
	var cases []followCase
	if c.Replay != "" {
		fc := &followCase{}
		if err := vt.ReplayInput(c.Replay, fc); err != nil {
			return err
		}
		Regen(fc.Tree)
		cases = []followCase{*fc}
	} else {
		// fixed shapes: byte-order vs containment (a, a-b, a/b), cycles through non-final components, root
		fixed := []followCase{
			{Tree: model.Tree{{Path: "a", Type: "dir", Perm: 0755}, {Path: "a-b", Type: "dir", Perm: 0755}, {Path: "a/b", Type: "dir", Perm: 0755}}, Reqs: []string{"a", "a-b", "a/b"}},
			{Tree: model.Tree{{Path: "a", Type: "dir", Perm: 0755}, {Path: "a/b", Type: "dir", Perm: 0755}, {Path: "a.x", Type: "dir", Perm: 0755}}, Reqs: []string{"a/b", "a.x", "a"}},
			{Tree: model.Tree{{Path: "a", Type: "symlink", Link: "b", Perm: 0777}, {Path: "b", Type: "symlink", Link: "a", Perm: 0777}}, Reqs: []string{"a/sub/file"}},
			{Tree: model.Tree{{Path: "l", Type: "symlink", Link: "l", Perm: 0777}}, Reqs: []string{"l/x", "l"}},
			{Tree: model.Tree{{Path: "d", Type: "dir", Perm: 0755}, {Path: "d/x", Type: "symlink", Link: "/d/y", Perm: 0777}, {Path: "d/y", Type: "symlink", Link: "x", Perm: 0777}}, Reqs: []string{"d/x/file", "d/*/file"}},
			{Tree: model.Tree{{Path: "up", Type: "symlink", Link: "..", Perm: 0777}, {Path: "-name", Type: "dir", Perm: 0755}}, Reqs: []string{"up", "-name"}},
			{Tree: model.Tree{{Path: "sub", Type: "dir", Perm: 0755}, {Path: "sub/up", Type: "symlink", Link: "/", Perm: 0777}, {Path: "data", Type: "dir", Perm: 0755}}, Reqs: []string{"*.conf", "sub/up"}},
		}
		// wildcards: in a middle component over a symlink to a directory, over a plain directory with a link further down
		// (the recorded finding), over entry names that are themselves glob patterns
		fl := func(p string) model.Entry { e := newFile(c.Rand, genOpts{}); e.Path = p; return e }
		dr := func(p string) model.Entry { return model.Entry{Path: p, Type: "dir", Perm: 0755} }
		ln := func(p, to string) model.Entry { return model.Entry{Path: p, Type: "symlink", Link: to, Perm: 0777} }
		fixed = append(fixed,
			followCase{Tree: model.Tree{ln("dl", "real"), dr("real"), fl("real/file")}, Reqs: []string{"d*/file"}},
			followCase{Tree: model.Tree{dr("dir"), ln("dir/l[1]", "../foo/target"), dr("foo"), fl("foo/target")}, Reqs: []string{"dir/l*"}},
			followCase{Tree: model.Tree{dr("dir"), ln("dir/l?", "../t"), ln("dir/l*", "/t"), fl("t")}, Reqs: []string{"dir/l*"}},
			followCase{Tree: model.Tree{fl("a"), dr("a-b"), ln("a-b/a-b", "/a")}, Reqs: []string{"*/*"}},
			followCase{Tree: model.Tree{dr("d1"), ln("d1/l", "/t"), fl("t")}, Reqs: []string{"d*/l"}},
			followCase{Tree: model.Tree{dr("d1"), fl("d1/x"), ln("d2", "d1")}, Reqs: []string{"d?/x"}},
			followCase{Tree: model.Tree{dr("dir"), ln("dir/l1", "../t1"), ln("dir/l2", "/t2"), fl("t1"), fl("t2")}, Reqs: []string{"dir/l[12]"}},
			followCase{Tree: model.Tree{ln("current", "etc/conf:prod"), dr("etc"), fl("etc/conf:prod"), ln("abs", "/etc/conf:prod")}, Reqs: []string{"current", "abs"}},
			followCase{Tree: model.Tree{ln("la", "ta"), ln("lb", "tb"), dr("ta"), fl("ta/f"), dr("tb"), fl("tb/f")}, Reqs: []string{"l[ab]/f"}},
		)
		// long chains (well below the kernel's limit of 40 nested lookups): every link and the final location are wanted
		for _, n := range []int{9, 12, 20} {
			var t model.Tree
			for k := 0; k < n; k++ {
				to := fmt.Sprintf("c%02d", k+1)
				if k == n-1 {
					to = "end/file"
				} else if k%3 == 1 {
					to = "/" + to
				}
				t = append(t, ln(fmt.Sprintf("c%02d", k), to))
			}
			t = append(t, dr("end"), fl("end/file"))
			fixed = append(fixed, followCase{Tree: t, Reqs: []string{"c00"}})
			// the same chain reached through an intermediate component: d -> c00 (a chain that ends in a directory)
			var t2 model.Tree
			for k := 0; k < n; k++ {
				to := fmt.Sprintf("c%02d", k+1)
				if k == n-1 {
					to = "end"
				}
				t2 = append(t2, ln(fmt.Sprintf("c%02d", k), to))
			}
			t2 = append(t2, dr("end"), fl("end/file"))
			fixed = append(fixed, followCase{Tree: t2, Reqs: []string{"c00/file"}})
		}
		// link targets in which ".." follows a component that is itself a symlink (a defect repaired in the tree, kept as regression cases):
		// m -> d/l/../f with d/l -> /e/sub really ends at e/f; a -> a/../b is a cycle
		fixed = append(fixed,
			followCase{Tree: model.Tree{dr("d"), ln("d/l", "/e/sub"), dr("e"), dr("e/sub"), fl("e/f"), ln("m", "d/l/../f")}, Reqs: []string{"m"}},
			followCase{Tree: model.Tree{dr("d"), ln("d/l", "../e/sub"), dr("e"), dr("e/sub"), fl("e/f"), fl("d/f"), ln("m", "/d/l/../f")}, Reqs: []string{"m"}},
			followCase{Tree: model.Tree{ln("a", "a/../b"), ln("b", ".")}, Reqs: []string{"a"}},
			followCase{Tree: model.Tree{dr("d"), ln("d/l", "/e"), dr("e"), fl("f"), ln("m", "d/l/../f")}, Reqs: []string{"m"}},
		)
		// a cycle below a directory that an earlier request of the list already resolved (termination must not lean on the
		// visited set being filled by exactly this request)
		fixed = append(fixed,
			followCase{Tree: model.Tree{fl("bar"), dr("dir"), ln("dir/l1", "l2"), ln("dir/l2", "l1")}, Reqs: []string{"bar", "dir", "dir/l1"}},
			followCase{Tree: model.Tree{dr("dir"), ln("dir/l1", "/dir/l2/x"), ln("dir/l2", "l1")}, Reqs: []string{"dir", "dir/l1/y"}},
			followCase{Tree: model.Tree{dr("dir"), dr("dir/sub"), ln("dir/sub/l", "../sub/l")}, Reqs: []string{"dir/sub", "dir", "dir/sub/l"}},
		)
		for i := range fixed {
			fixed[i].Tree.Sort()
		}
		for i := range fixed {
			for k := range fixed[i].Tree {
				fixed[i].Tree[k].Mtime = uniqueMtime()
			}
		}
		cases = append(cases, fixed...)
		// the (tree, request list) cases TLC enumerated from spec/ResolverMC.tla with the algorithm model's result
		if gen := os.Getenv("VERIF_GEN_DIR"); gen != "" {
			stride := 6
			if c.Thorough() {
				stride = 1
			}
			mcs, err := followModelCases(gen, stride)
			if err != nil {
				return err
			}
			cases = append(cases, mcs...)
			c.Stats.Note(fmt.Sprintf("%d (tree, request list) cases enumerated by TLC from ResolverMC (every %d-th), each with the algorithm model's result", len(mcs), stride))
		}
		n := 1500
		if c.Thorough() {
			n = 8000
		}
		for i := 0; i < n; i++ {
			t := followTree(c)
			var reqs []string
			for k := 0; k < 1+c.Rand.Intn(3); k++ {
				var q string
				switch c.Rand.Intn(8) {
				case 0:
					q = []string{"*", "l/*", "*/b", "a/*", "d/*/a", "d*/a", "l*", "d/l*", "?/b", "a/*/a", "m*/x", "*/*", "d*/l", "[al]/a", "l[a-z]", "d/[lm]", "[a-m]/b"}[c.Rand.Intn(17)]
				case 1:
					// requests are clean paths: the statement quantifies ".." over symlink targets, not over requests
					q = []string{"nonexistent", "a/nonexistent/x", "/", "b/nonexistent", "."}[c.Rand.Intn(5)]
				default:
					if len(t) > 0 {
						q = t[c.Rand.Intn(len(t))].Path
						if c.Rand.Intn(3) == 0 {
							q += "/" + []string{"a", "b", "x", "l"}[c.Rand.Intn(4)]
						}
					} else {
						q = "a"
					}
				}
				reqs = append(reqs, q)
			}
			fcase := followCase{Tree: t, Reqs: reqs}
			if i%9 == 4 && len(reqs) > 0 && !hasWild(reqs[0]) {
				// an I/O error while looking up a component of the first request
				parts := strings.Split(strings.Trim(reqs[0], "/"), "/")
				if parts[0] != "" && parts[0] != "." {
					fcase.FailTarget = strings.Join(parts[:1+c.Rand.Intn(len(parts))], "/")
				}
			}
			cases = append(cases, fcase)
		}
		c.Stats.Rule = "one case = FollowLinks over a materialised tree with symlinks (relative, absolute, '..' beyond the root, chains, cycles, intermediate components, dangling) and 1-3 requests (literal, non-existent, wildcard), followed by a real transfer with those follow-paths; non-trivial = some request traverses at least one symlink; distinct by (tree, requests)"
	}
	for i := range cases {
		cases[i].Case = c.NextCase()
		if c.Replay == "" {
			cases[i].WithInclude = i%2 == 0
		}
	}
	self, err := os.Executable()
	if err != nil {
		return err
	}
	dir := filepath.Join(c.Work, "follow")
	os.MkdirAll(dir, 0755)
	defer disk.RemoveAll(dir)
	remaining := cases
	crashed := map[int]string{}
	// a resolver that does not terminate costs a watchdog period and a fresh child per case: after a dozen hangs / crashes the
	// verdict is established and the rest of the cases is left out (a run over thousands of hanging cases would only time out)
	skipped := map[int]bool{}
	restarts := 0
	for len(remaining) > 0 {
		js, _ := json.Marshal(remaining)
		os.WriteFile(filepath.Join(dir, "cases.json"), js, 0644)
		os.Remove(filepath.Join(dir, "inflight"))
		cmd := exec.Command(self, "follow-child", dir)
		var stderr bytes.Buffer
		cmd.Stderr = &stderr
		runErr := cmd.Run()
		infl, _ := os.ReadFile(filepath.Join(dir, "inflight"))
		if string(infl) == "done" {
			break
		}
		// which cases are finished?
		done := map[int]bool{}
		data, _ := os.ReadFile(filepath.Join(dir, "events.ndjson"))
		for _, ln := range bytes.Split(data, []byte("\n")) {
			var e struct {
				Case int `json:"case"`
			}
			if json.Unmarshal(ln, &e) == nil && e.Case != 0 {
				done[e.Case] = true
			}
		}
		var rest []followCase
		first := true
		for _, fc := range remaining {
			if done[fc.Case] {
				continue
			}
			if first && string(infl) != "restart" {
				// the child died while this case was in flight (stack overflow / fatal error)
				crashed[fc.Case] = trunc(fmt.Sprint(runErr, " ", lastLines(stderr.String())))
				first = false
				continue
			}
			first = false
			rest = append(rest, fc)
		}
		if len(rest) == len(remaining) {
			return fmt.Errorf("follow child made no progress: %v %s", runErr, trunc(stderr.String()))
		}
		remaining = rest
		restarts++
		if restarts >= 12 && len(remaining) > 0 {
			for _, fc := range remaining {
				skipped[fc.Case] = true
			}
			c.Stats.Note(fmt.Sprintf("stopped after %d hangs / crashes: %d cases not run", restarts, len(remaining)))
			break
		}
	}
	byCase := map[int]vt.Ev{}
	data, _ := os.ReadFile(filepath.Join(dir, "events.ndjson"))
	for _, ln := range bytes.Split(bytes.TrimRight(data, "\n"), []byte("\n")) {
		if len(ln) == 0 {
			continue
		}
		var e vt.Ev
		d := json.NewDecoder(bytes.NewReader(ln))
		d.UseNumber()
		if err := d.Decode(&e); err != nil {
			return err
		}
		n, _ := e["case"].(json.Number).Int64()
		byCase[int(n)] = e
	}
	for _, fc := range cases {
		if skipped[fc.Case] {
			continue
		}
		e, ok := byCase[fc.Case]
		if !ok {
			// crashed: report as non-termination with the crash text
			tt := fc.Tree.Clone()
			tt.Sort()
			reqs := make([]vt.Ev, len(fc.Reqs))
			for i, q := range fc.Reqs {
				reqs[i] = vt.Ev{"p": comps(q), "wild": hasWild(q), "s": q}
			}
			e = vt.Ev{"ev": "Follow", "case": fc.Case, "tree": tt.Ev(), "reqs": reqs, "result": [][][]int{}, "resWild": []bool{}, "resultStr": []string{},
				"isNil": false, "hang": true, "err": false, "byteSorted": true, "synced": false, "syncFailed": false, "dst": []vt.Ev{},
				"crash": crashed[fc.Case], "input": vt.Opaque(fc), "exps": []vt.Ev{}, "lookupFault": false}
		}
		c.Out.Emit(e)
		nt := false
		for _, x := range fc.Tree {
			if x.Type == "symlink" {
				for _, q := range fc.Reqs {
					if q == x.Path || strings.HasPrefix(q, x.Path+"/") {
						nt = true
					}
				}
			}
		}
		c.Stats.Case(vt.Opaque(fc), nt)
		if nt && len(fc.Tree) < 9 {
			c.Stats.Sample(vt.Ev{"tree": linksOf(fc.Tree), "requests": fc.Reqs, "result": e["resultStr"], "hang": e["hang"]})
		}
	}
	return nil
}

func lastLines(s string) string {
	ls := strings.Split(strings.TrimSpace(s), "\n")
	if len(ls) > 2 {
		ls = ls[:2]
	}
	return strings.Join(ls, " / ")
}

func linksOf(t model.Tree) []string {
	out := make([]string, len(t))
	for i, e := range t {
		out[i] = e.Type[:3] + ":" + e.Path
		if e.Type == "symlink" {
			out[i] += "->" + e.Link
		}
	}
	return out
}
