package drivers

import (
	"context"
	"encoding/json"
	"fmt"
	"io"
	"os"
	"path/filepath"
	"sort"
	"strings"
	"syscall"

	"github.com/tonistiigi/fsutil"
	"github.com/tonistiigi/fsutil/types"
	"verif/harness/disk"
	"verif/harness/vt"
)

func init() { Registry["dwcases"] = DWCases }

// dwCase is one line of the case files TLC writes for spec/DiskWriterMC.tla (configuration _gen): what the destination path
// holds (old), what the incoming stat says (new), and what the model's run of DiskWriter.HandleChange ends in.
type dwCase struct {
	Old          string `json:"old"` // none file dir0 dir1 linkOut fifo
	New          string `json:"new"` // file hlFile dir symlink fifo dev hlFifo
	Fails        bool   `json:"fails"`
	KindAtD      string `json:"kindAtD"`
	SameAsX      bool   `json:"sameAsX"`
	SameAsY      bool   `json:"sameAsY"`
	ChildLeft    bool   `json:"childLeft"`
	KeptDirInode bool   `json:"keptDirInode"`
	Leftover     bool   `json:"leftover"`
}

func inoOf(p string) uint64 {
	fi, err := os.Lstat(p)
	if err != nil {
		return 0
	}
	if st, ok := fi.Sys().(*syscall.Stat_t); ok {
		return st.Ino
	}
	return 0
}

// dirIdentity: inode, mode, owner and modification time of a directory entry itself
func dirIdentity(p string) string {
	fi, err := os.Lstat(p)
	if err != nil {
		return "gone"
	}
	st, _ := fi.Sys().(*syscall.Stat_t)
	if st == nil {
		return fmt.Sprint(fi.Mode(), fi.ModTime().UnixNano())
	}
	return fmt.Sprint(st.Ino, fi.Mode(), st.Uid, st.Gid, fi.ModTime().UnixNano())
}

func kindOfPath(p string) string {
	fi, err := os.Lstat(p)
	if err != nil {
		return "none"
	}
	m := fi.Mode()
	switch {
	case m.IsDir():
		return "dir"
	case m&os.ModeSymlink != 0:
		return "symlink"
	case m&os.ModeNamedPipe != 0:
		return "fifo"
	case m&os.ModeDevice != 0:
		return "dev"
	case m.IsRegular():
		return "file"
	}
	return "other"
}

func runDWCase(c *Ctx, caseNo int, dc dwCase) (vt.Ev, error) {
	base := filepath.Join(c.Work, fmt.Sprintf("dw%d", caseNo))
	defer disk.RemoveAll(base)
	dest, outside := filepath.Join(base, "dest"), filepath.Join(base, "O")
	for _, d := range []string{dest, outside} {
		if err := os.MkdirAll(d, 0755); err != nil {
			return nil, err
		}
	}
	// the outside directory O with its child OC; the earlier entries X (a regular file) and Y (a fifo) inside the destination
	if err := os.WriteFile(filepath.Join(outside, "OC"), []byte("outside"), 0600); err != nil {
		return nil, err
	}
	if err := os.WriteFile(filepath.Join(dest, "X"), []byte("xxx"), 0644); err != nil {
		return nil, err
	}
	if err := syscall.Mkfifo(filepath.Join(dest, "Y"), 0644); err != nil {
		return nil, err
	}
	D := filepath.Join(dest, "D")
	switch dc.Old {
	case "file":
		os.WriteFile(D, []byte("old"), 0600)
	case "dir0":
		os.Mkdir(D, 0700)
	case "dir1":
		os.Mkdir(D, 0700)
		os.WriteFile(filepath.Join(D, "C"), []byte("child"), 0600)
	case "linkOut":
		os.Symlink("../O", D)
	case "fifo":
		syscall.Mkfifo(D, 0600)
	}
	outBefore, err := disk.Snapshot(outside, true)
	if err != nil {
		return nil, err
	}
	outDirBefore := dirIdentity(outside)
	dInoBefore, cInoBefore := inoOf(D), inoOf(filepath.Join(D, "C"))
	st := &types.Stat{Path: "D", Uid: 0, Gid: 0, ModTime: 1500000000123456789}
	switch dc.New {
	case "file":
		st.Mode, st.Size = 0640, 3
	case "hlFile":
		st.Mode, st.Size, st.Linkname = 0644, 3, "X"
	case "dir":
		st.Mode = uint32(os.ModeDir | 0750)
	case "symlink":
		st.Mode, st.Linkname = uint32(os.ModeSymlink|0777), "some/target"
	case "fifo":
		st.Mode = uint32(os.ModeNamedPipe | 0640)
	case "dev":
		st.Mode, st.Devmajor, st.Devminor = uint32(os.ModeDevice|os.ModeCharDevice|0640), 1, 3
	case "hlFifo":
		st.Mode, st.Linkname = uint32(os.ModeNamedPipe|0644), "Y"
	}
	kind := fsutil.ChangeKindModify
	if dc.Old == "none" {
		kind = fsutil.ChangeKindAdd
	}
	dw, err := fsutil.NewDiskWriter(context.Background(), dest, fsutil.DiskWriterOpt{
		SyncDataCb: func(ctx context.Context, p string, w io.WriteCloser) error {
			_, err := w.Write([]byte("new"))
			return err
		}})
	if err != nil {
		return nil, err
	}
	herr := dw.HandleChange(kind, "D", &fsutil.StatInfo{Stat: st}, nil)
	werr := dw.Wait(context.Background())
	fails := herr != nil || werr != nil
	outAfter, err := disk.Snapshot(outside, true)
	if err != nil {
		return nil, err
	}
	leftover := []string{}
	if ents, err := os.ReadDir(dest); err == nil {
		for _, e := range ents {
			if strings.HasPrefix(e.Name(), ".tmp.") {
				leftover = append(leftover, e.Name())
			}
		}
	}
	sort.Strings(leftover)
	content := ""
	if kindOfPath(D) == "file" {
		b, _ := os.ReadFile(D)
		content = string(b)
	}
	obs := vt.Ev{"fails": fails, "kindAtD": kindOfPath(D), "sameAsX": inoOf(D) != 0 && inoOf(D) == inoOf(filepath.Join(dest, "X")),
		"sameAsY":      inoOf(D) != 0 && inoOf(D) == inoOf(filepath.Join(dest, "Y")),
		"childLeft":    cInoBefore != 0 && inoOf(filepath.Join(D, "C")) == cInoBefore,
		"keptDirInode": dInoBefore != 0 && inoOf(D) == dInoBefore, "leftover": len(leftover) > 0, "content": content,
		"outsideTouched": vt.Opaque(outBefore.Ev()) != vt.Opaque(outAfter.Ev()) || dirIdentity(outside) != outDirBefore}
	ev := vt.Ev{"ev": "DWCase", "case": caseNo, "old": dc.Old, "new": dc.New,
		"model": vt.Ev{"fails": dc.Fails, "kindAtD": dc.KindAtD, "sameAsX": dc.SameAsX, "sameAsY": dc.SameAsY, "childLeft": dc.ChildLeft,
			"keptDirInode": dc.KeptDirInode, "leftover": dc.Leftover},
		"obs": obs, "input": vt.Opaque(dc)}
	if herr != nil {
		ev["err"] = trunc(herr.Error())
	}
	return ev, nil
}

// DWCases runs the real DiskWriter.HandleChange on every (old entry, incoming stat) pair that TLC enumerated from
// spec/DiskWriterMC.tla and records what it ends in next to what the model's run ends in (trace spec: DWTrace).
func DWCases(c *Ctx) error {
	var cases []dwCase
	if c.Replay != "" {
		dc := &dwCase{}
		if err := vt.ReplayInput(c.Replay, dc); err != nil {
			return err
		}
		cases = []dwCase{*dc}
	} else {
		gen := os.Getenv("VERIF_GEN_DIR")
		if gen == "" {
			return fmt.Errorf("VERIF_GEN_DIR not set (TLC-generated case files of DiskWriterMC)")
		}
		files, _ := filepath.Glob(filepath.Join(gen, "dwcase_*.ndjson"))
		sort.Strings(files)
		for _, f := range files {
			err := readLines(f, func(ln []byte) error {
				dc := dwCase{}
				if err := json.Unmarshal(ln, &dc); err != nil {
					return err
				}
				cases = append(cases, dc)
				return nil
			})
			if err != nil {
				return err
			}
		}
		c.Stats.Rule = "one case = one DiskWriter.HandleChange call on a (destination entry, incoming stat) pair enumerated by TLC from DiskWriterMC; non-trivial = every case"
	}
	for _, dc := range cases {
		ev, err := runDWCase(c, c.NextCase(), dc)
		if err != nil {
			return err
		}
		c.Out.Emit(ev)
		c.Stats.Case(vt.Opaque(dc), true)
		c.Stats.Count("old:"+dc.Old, 1)
		c.Stats.Count("new:"+dc.New, 1)
	}
	return nil
}
