package drivers

import (
	"context"
	"encoding/json"
	"fmt"
	gofs "io/fs"
	"os"
	"path"
	"path/filepath"
	"sort"
	"strings"

	"github.com/moby/patternmatcher"
	"github.com/tonistiigi/fsutil"
	"github.com/tonistiigi/fsutil/types"
	"verif/harness/disk"
	"verif/harness/hstream"
	"verif/harness/model"
	"verif/harness/vt"
)

func init() {
	Registry["walk"] = Walk
	Registry["filter"] = Filter
}

type walkInput struct {
	Tree   model.Tree `json:"tree"`
	API    string     `json:"api"` // Walk WalkDir FS FSsub SubDir
	Target string     `json:"target,omitempty"`
	Names  []string   `json:"names,omitempty"` // SubDir: names of the sub-roots (each gets the same tree)
	// Prewalk: the FS value has been walked once before the walk that is judged
	Prewalk bool `json:"prewalk,omitempty"`
	// Reset: the FS is wrapped in WithHardlinkReset (an unfiltered view: the wrapper must change nothing)
	Reset bool `json:"reset,omitempty"`
}

func statOf(fi gofs.FileInfo) *types.Stat {
	if fi == nil {
		return nil
	}
	st, _ := fi.Sys().(*types.Stat)
	return st
}

// subset keeps the entries at or below target and relabels hard-link groups within it
func subset(t model.Tree, target string) model.Tree {
	var out model.Tree
	for _, e := range t {
		if target == "" || e.Path == target || strings.HasPrefix(e.Path, target+"/") {
			out = append(out, e)
		}
	}
	out.Canon(func(e *model.Entry) string {
		if e.Nlink > 1 {
			return fmt.Sprint(e.Ino)
		}
		return ""
	})
	return out
}

func runWalk(c *Ctx, caseNo int, in walkInput) (vt.Ev, error) {
	base := filepath.Join(c.Work, fmt.Sprintf("wk%d", caseNo))
	defer disk.RemoveAll(base)
	if err := os.MkdirAll(base, 0755); err != nil {
		return nil, err
	}
	root := filepath.Join(base, "root")
	if err := os.Mkdir(root, 0755); err != nil {
		return nil, err
	}
	if err := disk.Materialise(root, in.Tree); err != nil {
		return nil, err
	}
	snap, err := disk.Snapshot(root, false)
	if err != nil {
		return nil, err
	}
	var calls []vt.Ev
	var walkErr error
	record := func(p string, st *types.Stat) {
		if st == nil {
			calls = append(calls, vt.Ev{"raw": vt.B(p), "t": "nostat", "perm": 0, "uid": 0, "gid": 0, "size": "", "mt": "", "ln": "", "dev": "", "x": "", "hl": []int{}})
			return
		}
		ev := hstream.StatEv(st)
		if filepath.ToSlash(p) != st.Path {
			ev["raw"] = vt.B("MISMATCH:" + p + "|" + st.Path)
		}
		calls = append(calls, ev)
	}
	expected := snap
	ctx := context.Background()
	switch in.API {
	case "Walk":
		walkErr = fsutil.Walk(ctx, root, nil, func(p string, fi os.FileInfo, err error) error {
			if err != nil {
				return err
			}
			record(p, statOf(fi))
			return nil
		})
	case "WalkDir":
		walkErr = fsutil.WalkDir(ctx, root, nil, func(p string, d gofs.DirEntry, err error) error {
			if err != nil {
				return err
			}
			fi, err := d.Info()
			if err != nil {
				return err
			}
			record(p, statOf(fi))
			return nil
		})
	case "FS", "FSsub":
		f, err := fsutil.NewFS(root)
		if err != nil {
			return nil, err
		}
		if in.Reset {
			// the library's own wrapper asks every entry for its stat and hands the same entry on: the consumer asks again
			f = fsutil.WithHardlinkReset(f)
		}
		target := "/"
		if in.API == "FSsub" {
			target = in.Target
			expected = subset(snap, in.Target)
		}
		// the same FS value is walked more than once in practice (a walk, then an export; a sub-target, then the whole
		// tree): an earlier walk must leave nothing behind.  The walk that is judged is the LAST one.
		if in.Prewalk {
			f.Walk(ctx, "/", func(p string, d gofs.DirEntry, err error) error {
				if err == nil && d != nil {
					d.Info() // stats are computed on demand: a walk that never asks for them leaves nothing to leak
				}
				return err
			})
		}
		walkErr = f.Walk(ctx, target, func(p string, d gofs.DirEntry, err error) error {
			if err != nil {
				return err
			}
			fi, err := d.Info()
			if err != nil {
				return err
			}
			record(p, statOf(fi))
			return nil
		})
	case "SubDir":
		var dirs []fsutil.Dir
		names := append([]string{}, in.Names...)
		var exp model.Tree
		sort.Strings(names)
		for k, n := range names {
			f, err := fsutil.NewFS(root)
			if err != nil {
				return nil, err
			}
			st := &types.Stat{Path: n, Mode: uint32(os.ModeDir | 0751), Uid: uint32(10 + k), Gid: 7, ModTime: 1234567890000000000 + int64(k)}
			dirs = append(dirs, fsutil.Dir{Stat: st, FS: f})
			top := hstream.StatToEntry(st)
			top.Path = n
			exp = append(exp, top)
			off := len(exp)
			for _, e := range snap {
				e2 := e
				e2.Path = n + "/" + e.Path
				if e.Type == "symlink" && strings.HasPrefix(e.Link, "/") {
					e2.Link = path.Join("/"+n, e.Link)
				}
				if e.Group != 0 {
					e2.Group = e.Group + off
				}
				exp = append(exp, e2)
			}
		}
		// shuffle the order in which the dirs are handed over: SubDirFS sorts them
		if len(dirs) > 1 {
			dirs[0], dirs[len(dirs)-1] = dirs[len(dirs)-1], dirs[0]
		}
		sfs, err := fsutil.SubDirFS(dirs)
		if err != nil {
			return nil, err
		}
		expected = exp
		walkErr = sfs.Walk(ctx, "", func(p string, d gofs.DirEntry, err error) error {
			if err != nil {
				return err
			}
			fi, err := d.Info()
			if err != nil {
				return err
			}
			record(p, statOf(fi))
			return nil
		})
	}
	if calls == nil {
		calls = []vt.Ev{}
	}
	ev := vt.Ev{"ev": "Walk", "case": caseNo, "api": in.API, "tree": expected.Ev(), "calls": calls, "walkErr": walkErr != nil,
		"input": vt.Opaque(in)}
	if walkErr != nil {
		ev["err"] = trunc(walkErr.Error())
	}
	return ev, nil
}

// Walk drives fsutil.Walk / WalkDir / FS.Walk / SubDirFS (C09).
func Walk(c *Ctx) error {
	if c.Replay != "" {
		in := &walkInput{}
		if err := vt.ReplayInput(c.Replay, in); err != nil {
			return err
		}
		Regen(in.Tree)
		ev, err := runWalk(c, c.NextCase(), *in)
		if err != nil {
			return err
		}
		c.Out.Emit(ev)
		return nil
	}
	var inputs []walkInput
	apis := []string{"Walk", "WalkDir", "FS"}
	for i, t := range SmallUniverse() {
		inputs = append(inputs, walkInput{Tree: t, API: apis[i%3]})
	}
	// names around '/' in byte order, under directories whose names are prefixes of their siblings
	names := []string{"a", "a-b", "a b", "a.b", "ab", "a0", "\xc3\xa9", "a!", "a\\b"}
	for _, top := range names[:5] {
		var t model.Tree
		t = append(t, model.Entry{Path: top, Type: "dir", Perm: 0755, Mtime: uniqueMtime()})
		for _, n := range names {
			e := newFile(c.Rand, genOpts{})
			e.Path = n
			if n != top {
				t = append(t, e)
			}
			e2 := newFile(c.Rand, genOpts{})
			e2.Path = top + "/" + n
			t = append(t, e2)
		}
		t.Sort()
		for _, api := range apis {
			inputs = append(inputs, walkInput{Tree: t, API: api, Prewalk: (api == "FS" || api == "FSsub") && c.Rand.Intn(2) == 0})
		}
	}
	n := 260
	if c.Thorough() {
		n = 4000
	}
	o := genOpts{MaxEntries: 45, Special: true, Xattrs: true, Links: true, BigFiles: false, LongNames: true}
	for i := 0; i < n; i++ {
		t := RandomTree(c.Rand, o)
		in := walkInput{Tree: t, API: []string{"Walk", "WalkDir", "FS", "FSsub", "SubDir"}[i%5]}
		if in.API == "FSsub" {
			var dirs []string
			for _, e := range t {
				if e.Type == "dir" {
					dirs = append(dirs, e.Path)
				}
			}
			if len(dirs) == 0 {
				in.API = "FS"
			} else {
				in.Target = dirs[c.Rand.Intn(len(dirs))]
			}
		}
		if in.API == "SubDir" {
			all := []string{"lib", "lib.so", "a", "a-b", "z", "0"}
			c.Rand.Shuffle(len(all), func(i, j int) { all[i], all[j] = all[j], all[i] })
			in.Names = all[:1+c.Rand.Intn(3)]
		}
		inputs = append(inputs, in)
	}
	for i := range inputs {
		if inputs[i].API == "FS" || inputs[i].API == "FSsub" {
			inputs[i].Prewalk = i%2 == 0
			inputs[i].Reset = i%3 == 0
		}
	}
	c.Stats.Rule = "one case = one walk (Walk / WalkDir / FS.Walk root or sub-target / SubDirFS) of a materialised tree; non-trivial = the tree has a directory with contents and either a hard-link group or names that sort differently bytewise vs path-wise; distinct by (tree, api)"
	for _, in := range inputs {
		ev, err := runWalk(c, c.NextCase(), in)
		if err != nil {
			return err
		}
		c.Out.Emit(ev)
		nt := false
		hasDir, hasGroup, tricky := false, false, false
		for _, e := range in.Tree {
			if strings.Contains(e.Path, "/") {
				hasDir = true
			}
			if e.Group != 0 {
				hasGroup = true
			}
			if strings.ContainsAny(e.Path, "-. !\\") {
				tricky = true
			}
		}
		nt = hasDir && (hasGroup || tricky)
		c.Stats.Case(in.API+in.Target+strings.Join(in.Names, ",")+in.Tree.Key(), nt)
		c.Stats.Count("api:"+in.API, 1)
		if nt && len(in.Tree) < 12 {
			c.Stats.Sample(vt.Ev{"api": in.API, "target": in.Target, "subroots": in.Names, "tree": pathsOf(in.Tree)})
		}
	}
	return nil
}

// ---------------------------------------------------------------------------

type filterInput struct {
	Tree    model.Tree `json:"tree"`
	Inc     []string   `json:"inc"`
	Exc     []string   `json:"exc"`
	MapKind string     `json:"mapKind"` // "" | rewrite | files | all
	MapSeed int64      `json:"mapSeed"`
	// Unreadable: (empty) directories that cannot be listed while the walk runs (mode 0000, walker without CAP_DAC_*)
	Unreadable []string `json:"unreadable,omitempty"`
	// Model: the case was enumerated by TLC from spec/FilterWalkMC.tla; what the ALGORITHM model reports for it
	Model *filterModel `json:"model,omitempty"`
	API   string       `json:"api"`
	// Follow: FollowPaths of the filter; their resolution is appended to the include list (in that order)
	Follow []string `json:"follow,omitempty"`
}

type patInfo struct {
	Neg []bool   `json:"neg"`
	Hit [][]bool `json:"hit"`
}

// hitMatrix asks the library, one de-negated pattern at a time, whether the pattern matches
// the path or one of its ancestors.
func hitMatrix(pats []string, paths []string) (patInfo, error) {
	pi := patInfo{Neg: []bool{}, Hit: [][]bool{}}
	for _, p := range pats {
		q := strings.TrimSpace(p)
		neg := strings.HasPrefix(q, "!")
		if neg {
			q = q[1:]
		}
		pm, err := patternmatcher.New([]string{q})
		if err != nil {
			return pi, err
		}
		row := make([]bool, len(paths))
		for i, f := range paths {
			m, err := pm.MatchesOrParentMatches(f)
			if err != nil {
				return pi, err
			}
			row[i] = m
		}
		pi.Neg = append(pi.Neg, neg)
		pi.Hit = append(pi.Hit, row)
	}
	return pi, nil
}

// incrVerdicts chains the library's incremental matcher along the ancestor chain of every
// entry of the FULL tree (no pruning): the verdicts a walk gets if it uses that matcher right.
func incrVerdicts(pats []string, t model.Tree) ([]bool, error) {
	out := make([]bool, len(t))
	if len(pats) == 0 {
		return out, nil
	}
	pm, err := patternmatcher.New(pats)
	if err != nil {
		return nil, err
	}
	infos := map[string]patternmatcher.MatchInfo{}
	for i, e := range t {
		parent := ""
		if k := strings.LastIndex(e.Path, "/"); k >= 0 {
			parent = e.Path[:k]
		}
		var pinfo patternmatcher.MatchInfo
		if parent != "" {
			pinfo = infos[parent]
		}
		m, info, err := pm.MatchesUsingParentResults(e.Path, pinfo)
		if err != nil {
			return nil, err
		}
		out[i] = m
		if e.Type == "dir" {
			infos[e.Path] = info
		}
	}
	return out, nil
}

func runFilter(c *Ctx, caseNo int, in filterInput) (vt.Ev, error) {
	base := filepath.Join(c.Work, fmt.Sprintf("fl%d", caseNo))
	defer disk.RemoveAll(base)
	root := filepath.Join(base, "root")
	if err := os.MkdirAll(root, 0755); err != nil {
		return nil, err
	}
	if err := disk.Materialise(root, in.Tree); err != nil {
		return nil, err
	}
	snap, err := disk.Snapshot(root, false)
	if err != nil {
		return nil, err
	}
	paths := make([]string, len(snap))
	tree := make([]vt.Ev, len(snap))
	for i, e := range snap {
		paths[i] = e.Path
		tree[i] = vt.Ev{"p": vt.P(e.Path), "t": e.Type}
	}
	// follow-paths: the include list the filter works with is the caller's list followed by what the paths resolve to
	// (FollowLinks itself is C18's subject; here its result is taken as given)
	incEff := in.Inc
	if len(in.Follow) > 0 {
		bfs, err := fsutil.NewFS(root)
		if err != nil {
			return nil, err
		}
		fr, err := fsutil.FollowLinks(bfs, in.Follow)
		if err != nil || fr == nil {
			return nil, nil // resolves to the root / fails: not a case of this driver
		}
		incEff = append(append([]string{}, in.Inc...), fr...)
	}
	inc, err := hitMatrix(incEff, paths)
	if err != nil {
		return nil, nil // invalid pattern: not a case
	}
	exc, err := hitMatrix(in.Exc, paths)
	if err != nil {
		return nil, nil
	}
	iv, err := incrVerdicts(incEff, snap)
	if err != nil {
		return nil, nil
	}
	ev2, err := incrVerdicts(in.Exc, snap)
	if err != nil {
		return nil, nil
	}
	incr := make([]bool, len(snap))
	for i := range snap {
		incr[i] = (len(incEff) == 0 || iv[i]) && !(len(in.Exc) > 0 && ev2[i])
	}
	// map function: a pure function of the path, decided from a per-case table
	mapv := make([]string, len(snap))
	table := map[string]fsutil.MapResult{}
	rewriteUid := 0
	mr := newRand(in.MapSeed)
	for i, e := range snap {
		mapv[i] = "keep"
		if in.MapKind == "files" && e.Type != "dir" || in.MapKind == "all" {
			switch mr.Intn(6) {
			case 0:
				mapv[i] = "exclude"
				table[e.Path] = fsutil.MapResultExclude
			case 1:
				mapv[i] = "skipdir"
				table[e.Path] = fsutil.MapResultSkipDir
			}
		}
	}
	var mapFn fsutil.MapFunc
	if in.MapKind != "" {
		rewriteUid = 4242
		mapFn = func(p string, st *types.Stat) fsutil.MapResult {
			st.Uid = 4242
			if r, ok := table[filepath.ToSlash(p)]; ok {
				return r
			}
			return fsutil.MapResultKeep
		}
	}
	opt := &fsutil.FilterOpt{IncludePatterns: in.Inc, ExcludePatterns: in.Exc, Map: mapFn, FollowPaths: in.Follow}
	if len(in.Follow) == 0 {
		opt.FollowPaths = nil
	}
	if len(in.Inc) == 0 {
		opt.IncludePatterns = nil
	}
	if len(in.Exc) == 0 {
		opt.ExcludePatterns = nil
	}
	var calls []vt.Ev
	rec := func(p string, fi gofs.FileInfo) {
		st := statOf(fi)
		uid := -1
		if st != nil {
			uid = int(st.Uid)
		}
		calls = append(calls, vt.Ev{"raw": vt.B(filepath.ToSlash(p)), "uid": uid})
	}
	var werr error
	ctx := context.Background()
	if len(in.Unreadable) > 0 {
		for _, u := range in.Unreadable {
			os.Chmod(filepath.Join(root, u), 0)
		}
		if err := setReadCaps(false); err != nil {
			return nil, nil
		}
		defer func() {
			setReadCaps(true)
			for _, u := range in.Unreadable {
				os.Chmod(filepath.Join(root, u), 0755)
			}
		}()
	}
	if in.API == "WalkDir" {
		werr = fsutil.WalkDir(ctx, root, opt, func(p string, d gofs.DirEntry, err error) error {
			if err != nil {
				return err
			}
			fi, err := d.Info()
			if err != nil {
				return err
			}
			rec(p, fi)
			return nil
		})
	} else {
		werr = fsutil.Walk(ctx, root, opt, func(p string, fi os.FileInfo, err error) error {
			if err != nil {
				return err
			}
			rec(p, fi)
			return nil
		})
	}
	if calls == nil {
		calls = []vt.Ev{}
	}
	if in.Inc == nil {
		in.Inc = []string{}
	}
	if in.Exc == nil {
		in.Exc = []string{}
	}
	var modelEv vt.Ev
	if in.Model != nil {
		alg := [][][]int{}
		for _, q := range in.Model.Alg {
			alg = append(alg, vt.P(q))
		}
		modelEv = vt.Ev{"alg": alg}
	}
	out := vt.Ev{"ev": "Filter", "case": caseNo, "tree": tree, "inc": inc, "exc": exc, "incr": incr, "mapv": mapv,
		"rewriteUid": rewriteUid, "calls": calls, "walkErr": werr != nil, "incPats": in.Inc, "excPats": in.Exc,
		"input": vt.Opaque(in)}
	if modelEv != nil {
		out["model"] = modelEv
	}
	return out, nil
}

var filterNames = []string{"a", "ab", "b", "a.txt", "c"}

func randomPattern(c *Ctx, t model.Tree) string {
	segs := []string{"a", "ab", "b", "c", "a.txt", "*", "**", "a*", "?", "[ab]*", "*.txt", "b*"}
	var p string
	switch c.Rand.Intn(10) {
	case 0, 1, 2: // a literal path of the tree
		if len(t) > 0 {
			p = t[c.Rand.Intn(len(t))].Path
		} else {
			p = "a"
		}
	case 3: // literal with trailing glob
		if len(t) > 0 {
			p = t[c.Rand.Intn(len(t))].Path + []string{"/*", "/**", "/*/**", "/"}[c.Rand.Intn(4)]
		} else {
			p = "a/*"
		}
	default:
		n := 1 + c.Rand.Intn(3)
		parts := make([]string, n)
		for i := range parts {
			parts[i] = segs[c.Rand.Intn(len(segs))]
		}
		p = strings.Join(parts, "/")
	}
	if c.Rand.Intn(4) == 0 {
		p = "!" + p
	}
	return p
}

func filterTree(c *Ctx) model.Tree {
	// names chosen so that literals, prefixes ("a" vs "ab", "a.txt") and wildcards all bite
	var t model.Tree
	used := map[string]bool{}
	dirs := []string{""}
	n := 3 + c.Rand.Intn(16)
	for len(t) < n {
		d := dirs[c.Rand.Intn(len(dirs))]
		nm := filterNames[c.Rand.Intn(len(filterNames))]
		p := nm
		if d != "" {
			p = d + "/" + nm
		}
		if used[p] || strings.Count(p, "/") > 3 {
			if c.Rand.Intn(10) == 0 {
				break
			}
			continue
		}
		used[p] = true
		if c.Rand.Intn(3) == 0 {
			t = append(t, model.Entry{Path: p, Type: "dir", Perm: 0755, Mtime: uniqueMtime()})
			dirs = append(dirs, p)
		} else {
			e := newFile(c.Rand, genOpts{})
			switch c.Rand.Intn(9) {
			case 0: // not only regular files are selected or left out
				e = model.Entry{Type: "symlink", Perm: 0777, Link: []string{"a", "../b", "/c", "nowhere"}[c.Rand.Intn(4)], Mtime: uniqueMtime()}
			case 1:
				e = model.Entry{Type: "fifo", Perm: 0644, Mtime: uniqueMtime()}
			}
			e.Path = p
			t = append(t, e)
		}
	}
	t.Sort()
	return t
}

// Filter drives filtered walks (C10).
type filterModel struct {
	Name string   `json:"name"`
	Alg  []string `json:"alg"`
}

// filterModelTree is the tree of spec/FilterWalkMC.tla: every path of depth <= 3 over the names a, ab; depth-3 entries are files.
func filterModelTree(c *Ctx) model.Tree {
	var t model.Tree
	names := []string{"a", "ab"}
	for _, x := range names {
		t = append(t, model.Entry{Path: x, Type: "dir", Perm: 0755, Mtime: uniqueMtime()})
		for _, y := range names {
			t = append(t, model.Entry{Path: x + "/" + y, Type: "dir", Perm: 0755, Mtime: uniqueMtime()})
			for _, z := range names {
				e := newFile(c.Rand, genOpts{})
				e.Path = x + "/" + y + "/" + z
				t = append(t, e)
			}
		}
	}
	t.Sort()
	return t
}

// filterModelCases reads the pattern lists TLC wrote for FilterWalkMC (and CopyFilterMC), with the algorithm model's output.
func filterModelCases(c *Ctx, gen string) ([]filterInput, error) {
	files, _ := filepath.Glob(filepath.Join(gen, "filtercase_*.ndjson"))
	sort.Strings(files)
	tree := filterModelTree(c)
	var out []filterInput
	for k, f := range files {
		err := readLines(f, func(ln []byte) error {
			var fc struct {
				Name string   `json:"name"`
				Mode string   `json:"mode"`
				Pats []string `json:"pats"`
				Alg  []string `json:"alg"`
			}
			if err := json.Unmarshal(ln, &fc); err != nil {
				return err
			}
			in := filterInput{Tree: tree, API: []string{"Walk", "WalkDir"}[k%2], Model: &filterModel{Name: fc.Name, Alg: fc.Alg}}
			if in.Model.Alg == nil {
				in.Model.Alg = []string{}
			}
			if fc.Mode == "inc" {
				in.Inc = fc.Pats
			} else {
				in.Exc = fc.Pats
			}
			out = append(out, in)
			return nil
		})
		if err != nil {
			return nil, err
		}
	}
	return out, nil
}

func Filter(c *Ctx) error {
	if c.Replay != "" {
		in := &filterInput{}
		if err := vt.ReplayInput(c.Replay, in); err != nil {
			return err
		}
		Regen(in.Tree)
		ev, err := runFilter(c, c.NextCase(), *in)
		if err != nil {
			return err
		}
		if ev != nil {
			c.Out.Emit(ev)
		}
		return nil
	}
	n := 4000
	if c.Thorough() {
		n = 40000
	}
	c.Stats.Rule = "one case = one filtered walk of a materialised tree with include/exclude lists and a map function; non-trivial = some entry of the full tree is not reported and some entry is; distinct by (tree, patterns, map table)"
	// fixed full tree for the systematic part: every single include and every single exclude pattern of the
	// sub-language, and every ordered pair [X, !Y] / [!X, Y]
	full := model.Tree{}
	for _, p := range []string{"a", "a/a", "a/a/a", "a/a/b", "a/ab", "a/b", "a.txt", "ab", "ab/a", "ab/b", "b", "b/a", "b/a/a", "c"} {
		isDir := false
		for _, q := range []string{"a", "a/a", "ab", "b", "b/a"} {
			if p == q {
				isDir = true
			}
		}
		if isDir {
			full = append(full, model.Entry{Path: p, Type: "dir", Perm: 0755, Mtime: uniqueMtime()})
		} else {
			e := newFile(c.Rand, genOpts{})
			e.Path = p
			full = append(full, e)
		}
	}
	full.Sort()
	var single []string
	for _, s1 := range []string{"a", "ab", "b", "*", "**", "a*", "c", "a.txt"} {
		single = append(single, s1)
		for _, s2 := range []string{"a", "b", "*", "**", "a*", "ab"} {
			single = append(single, s1+"/"+s2)
			if c.Thorough() {
				for _, s3 := range []string{"a", "*", "**"} {
					single = append(single, s1+"/"+s2+"/"+s3)
				}
			}
		}
	}
	var inputs []filterInput
	// include lists whose order matters (exceptions after what they carve from) combined with follow-paths
	{
		mkf := func(p string) model.Entry { e := newFile(c.Rand, genOpts{}); e.Path = p; return e }
		dr := func(p string) model.Entry { return model.Entry{Path: p, Type: "dir", Perm: 0755, Mtime: uniqueMtime()} }
		ft := model.Tree{dr("dir"), mkf("dir/akey"), mkf("dir/keep"), dr("dir/private"), mkf("dir/private/x"),
			{Path: "l", Type: "symlink", Link: "t", Perm: 0777, Mtime: uniqueMtime()}, mkf("t"), mkf("u")}
		ft.Sort()
		for _, inc := range [][]string{{"dir", "!dir/akey"}, {"dir", "!dir/akey", "!dir/private"}, {"!dir/akey", "dir"}, {"dir/*", "!dir/private"}, {"u"}} {
			for _, exc := range [][]string{nil, {"t"}, {"dir/keep"}} {
				for _, api := range []string{"Walk", "WalkDir"} {
					inputs = append(inputs, filterInput{Tree: ft, Inc: inc, Exc: exc, Follow: []string{"l"}, API: api})
				}
			}
		}
	}
	// entry names that contain pattern metacharacters, named by patterns that escape them
	{
		mkf := func(p string) model.Entry { e := newFile(c.Rand, genOpts{}); e.Path = p; return e }
		dr := func(p string) model.Entry { return model.Entry{Path: p, Type: "dir", Perm: 0755, Mtime: uniqueMtime()} }
		mt := model.Tree{dr("a*b"), mkf("a*b/c"), mkf("a*b/d"), dr("axb"), mkf("axb/c"), dr("q?"), mkf("q?/c"), dr("q?/s[1]"), mkf("q?/s[1]/f"), mkf("z")}
		mt.Sort()
		for _, l := range [][]string{{`a\*b/c`}, {`a\*b`}, {`q\?/c`, "z"}, {`q\?/s\[1]/f`}, {`a\*b/c`, "axb"}, {`a\*b`, `!a\*b/d`}, {`a*b/c`}, {`q?/c`}} {
			inputs = append(inputs, filterInput{Tree: mt, Inc: l, API: "Walk"}, filterInput{Tree: mt, Exc: l, API: "WalkDir"})
		}
	}
	// a directory the walker may not list (as an unprivileged sender meets it) that the filter excludes, with an exception
	// pattern or a wildcard in the list so that it cannot be pruned up front: the filtered view is still delivered
	{
		mkf := func(p string) model.Entry { e := newFile(c.Rand, genOpts{}); e.Path = p; return e }
		dr := func(p string) model.Entry { return model.Entry{Path: p, Type: "dir", Perm: 0755, Mtime: uniqueMtime()} }
		ut := model.Tree{dr("bar"), dr("foo"), dr("foo/bar"), mkf("foo/x"), mkf("z")}
		ut.Sort()
		for k, l := range [][]string{{"**/bar", "!foo/bar/baz"}, {"*/bar", "bar", "!foo/bar/baz"}, {"foo/bar", "bar", "!foo/bar/baz"}, {"**/bar"}, {"bar", "foo/bar"}} {
			inputs = append(inputs, filterInput{Tree: ut, Exc: l, API: []string{"Walk", "WalkDir"}[k%2], Unreadable: []string{"bar", "foo/bar"}})
		}
		for k, l := range [][]string{{"z", "foo/x"}, {"**/x"}, {"*/x", "z"}} {
			inputs = append(inputs, filterInput{Tree: ut, Inc: l, API: []string{"Walk", "WalkDir"}[k%2], Unreadable: []string{"bar", "foo/bar"}})
		}
	}
	// the pattern lists TLC enumerated from spec/FilterWalkMC.tla on the model's own tree, with the algorithm model's output
	if gen := os.Getenv("VERIF_GEN_DIR"); gen != "" {
		mcs, err := filterModelCases(c, gen)
		if err != nil {
			return err
		}
		inputs = append(inputs, mcs...)
		c.Stats.Note(fmt.Sprintf("%d pattern lists enumerated by TLC from FilterWalkMC, each with the algorithm model's output", len(mcs)))
	}
	for _, p := range single {
		inputs = append(inputs, filterInput{Tree: full, Inc: []string{p}, API: "Walk"})
		inputs = append(inputs, filterInput{Tree: full, Exc: []string{p}, API: "WalkDir"})
	}
	// map decisions on directories that are only reported as ancestors of what an include pattern keeps
	for k, p := range single {
		for ms := 0; ms < 3; ms++ {
			inputs = append(inputs, filterInput{Tree: full, Inc: []string{p}, API: []string{"Walk", "WalkDir"}[(k+ms)%2], MapKind: "all", MapSeed: int64(1000*k + ms)})
		}
	}
	pairs := single
	if !c.Thorough() && len(pairs) > 26 {
		pairs = pairs[:26]
	}
	for _, x := range pairs {
		for _, y := range pairs {
			if c.Thorough() || c.Rand.Intn(3) == 0 {
				inputs = append(inputs, filterInput{Tree: full, Inc: []string{x, "!" + y}, API: "Walk"})
				inputs = append(inputs, filterInput{Tree: full, Exc: []string{x, "!" + y}, API: "Walk"})
				// redundant entries: the same pattern again after the exception
				if c.Thorough() || c.Rand.Intn(3) == 0 {
					inputs = append(inputs, filterInput{Tree: full, Inc: []string{x, "!" + y, x}, API: "WalkDir"})
					inputs = append(inputs, filterInput{Tree: full, Exc: []string{x, "!" + y, x}, API: "WalkDir"})
				}
			}
		}
	}
	c.Stats.Note(fmt.Sprintf("systematic part: %d single patterns as include and as exclude, pairs [X, !Y] over %d patterns on a fixed 14-entry tree", len(single), len(pairs)))
	for i := 0; i < n; i++ {
		t := filterTree(c)
		in := filterInput{Tree: t, API: []string{"Walk", "WalkDir"}[i%2], MapSeed: c.Rand.Int63()}
		for k := 0; k < c.Rand.Intn(4); k++ {
			in.Inc = append(in.Inc, randomPattern(c, t))
		}
		for k := 0; k < c.Rand.Intn(4); k++ {
			in.Exc = append(in.Exc, randomPattern(c, t))
		}
		switch c.Rand.Intn(6) {
		case 0:
			in.MapKind = "rewrite"
		case 1:
			in.MapKind = "files"
		case 2:
			// map decisions on directories too; half of them without patterns (every entry is selected directly), half
			// with (directories that are only reported as ancestors of a kept entry are consulted lazily)
			in.MapKind = "all"
			if c.Rand.Intn(2) == 0 {
				in.Inc, in.Exc = nil, nil
			}
		}
		inputs = append(inputs, in)
	}
	for _, in := range inputs {
		ev, err := runFilter(c, c.NextCase(), in)
		if err != nil {
			return err
		}
		if ev == nil {
			c.Stats.Count("invalidPatternSkipped", 1)
			continue
		}
		c.Out.Emit(ev)
		ncalls := len(ev["calls"].([]vt.Ev))
		c.Stats.Case(vt.Opaque(in), ncalls > 0 && ncalls < len(in.Tree))
		c.Stats.Count("mapKind:"+in.MapKind, 1)
		if ncalls > 0 && ncalls < len(in.Tree) && len(in.Inc)+len(in.Exc) >= 2 {
			c.Stats.Sample(vt.Ev{"tree": pathsOf(in.Tree), "include": in.Inc, "exclude": in.Exc, "mapKind": in.MapKind, "reported": ncalls})
		}
	}
	return nil
}
