package drivers

// Child dispatches re-exec'd helper roles (chroot jail children, killable
// receivers).  It returns true if the invocation was a child role.
var childRoles = map[string]func(args []string){}

func Child(name string, args []string) bool {
	if f, ok := childRoles[name]; ok {
		f(args)
		return true
	}
	return false
}
