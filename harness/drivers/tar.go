package drivers

import (
	"archive/tar"
	"bytes"
	"context"
	"fmt"
	"io"
	gofs "io/fs"
	"os"
	"os/exec"
	"path/filepath"
	"strconv"
	"strings"

	"github.com/tonistiigi/fsutil"
	"github.com/tonistiigi/fsutil/types"
	"verif/harness/disk"
	"verif/harness/hstream"
	"verif/harness/model"
	"verif/harness/vt"
)

func init() { Registry["tar"] = Tar }

type tarInput struct {
	Tree model.Tree `json:"tree"`
	Exc  []string   `json:"exc"`
	Inc  []string   `json:"inc"`
	// Twice: the same FS value has been exported once before the export that is judged
	Twice bool `json:"twice,omitempty"`
	// Bare: an unfiltered view is exported as NewFS returns it (no WithHardlinkReset around it)
	Bare bool `json:"bare,omitempty"`
	// NoReset: a FILTERED view is exported as NewFilterFS returns it (no WithHardlinkReset around it): entries a pattern hides
	// are never stat'ed by the walk, so the first name the view reports of an inode is the one that carries the bytes
	NoReset bool `json:"noReset,omitempty"`
	// Mounts: the view is a SubDirFS that mounts the (optionally filtered) tree once under each of these names
	Mounts []string `json:"mounts,omitempty"`
}

func parseOctal(b []byte) (int64, bool) {
	if len(b) > 0 && b[0]&0x80 != 0 { // base-256
		var n int64
		for i, c := range b {
			if i == 0 {
				c &= 0x7f
			}
			n = n<<8 | int64(c)
		}
		return n, true
	}
	s := strings.Trim(string(b), " \x00")
	if s == "" {
		return 0, true
	}
	n, err := strconv.ParseInt(s, 8, 64)
	return n, err == nil
}

// rawWalk is a strict POSIX block walk: it trusts the size field of every header,
// whatever its type.  Returns the member names (extension headers resolved), their raw
// size fields, and whether the archive ended with two zero blocks and nothing else.
func rawWalk(b []byte) (names []string, sizes []int64, ok bool) {
	var longName string
	paxPath := ""
	for len(b) >= 512 {
		h := b[:512]
		if bytes.Equal(h, make([]byte, 512)) {
			rest := b[512:]
			return names, sizes, len(rest) >= 512 && bytes.Equal(rest, make([]byte, len(rest)))
		}
		size, good := parseOctal(h[124:136])
		if !good || size < 0 {
			return names, sizes, false
		}
		flag := h[156]
		blocks := (size + 511) / 512
		if int64(len(b)) < 512+blocks*512 {
			return names, sizes, false
		}
		payload := b[512 : 512+size]
		b = b[512+blocks*512:]
		switch flag {
		case 'x', 'g': // PAX extended header: look for path=
			paxPath = ""
			p := payload
			for len(p) > 0 {
				sp := bytes.IndexByte(p, ' ')
				if sp < 0 {
					break
				}
				n, err := strconv.Atoi(string(p[:sp]))
				if err != nil || n > len(p) || n < sp+2 {
					break
				}
				rec := string(p[sp+1 : n-1])
				if strings.HasPrefix(rec, "path=") {
					paxPath = rec[5:]
				}
				p = p[n:]
			}
			continue
		case 'L':
			longName = strings.TrimRight(string(payload), "\x00")
			continue
		case 'K':
			continue
		}
		name := strings.TrimRight(string(h[0:100]), "\x00")
		if pre := strings.TrimRight(string(h[345:500]), "\x00"); pre != "" && string(h[257:262]) == "ustar" {
			name = pre + "/" + name
		}
		if paxPath != "" {
			name, paxPath = paxPath, ""
		}
		if longName != "" {
			name, longName = longName, ""
		}
		names = append(names, name)
		sizes = append(sizes, size)
	}
	return names, sizes, false
}

func runTar(c *Ctx, caseNo int, in tarInput) (vt.Ev, error) {
	base := filepath.Join(c.Work, fmt.Sprintf("tar%d", caseNo))
	defer disk.RemoveAll(base)
	src, ext := filepath.Join(base, "src"), filepath.Join(base, "ext")
	os.MkdirAll(src, 0755)
	os.MkdirAll(ext, 0755)
	if err := disk.Materialise(src, in.Tree); err != nil {
		return nil, err
	}
	var f fsutil.FS
	f, err := fsutil.NewFS(src)
	if err != nil {
		return nil, err
	}
	if len(in.Exc)+len(in.Inc) > 0 {
		opt := &fsutil.FilterOpt{ExcludePatterns: in.Exc, IncludePatterns: in.Inc}
		if len(in.Exc) == 0 {
			opt.ExcludePatterns = nil
		}
		if len(in.Inc) == 0 {
			opt.IncludePatterns = nil
		}
		f, err = fsutil.NewFilterFS(f, opt)
		if err != nil {
			return nil, nil
		}
	}
	if len(in.Mounts) > 0 {
		var dirs []fsutil.Dir
		for _, m := range in.Mounts {
			dirs = append(dirs, fsutil.Dir{Stat: &types.Stat{Path: m, Mode: uint32(os.ModeDir | 0755), ModTime: 1400000000000000000}, FS: f})
		}
		f, err = fsutil.SubDirFS(dirs)
		if err != nil {
			return nil, err
		}
	}
	if !(in.Bare && len(in.Exc)+len(in.Inc) == 0) && !in.NoReset {
		f = fsutil.WithHardlinkReset(f)
	}
	// where the bytes of a view path live on disk (the ground truth for member payloads: not the view's own Open)
	diskPath := func(p string) string {
		if len(in.Mounts) > 0 {
			_, rest, _ := strings.Cut(filepath.ToSlash(p), "/")
			return filepath.Join(src, rest)
		}
		return filepath.Join(src, p)
	}
	// the view: what the walk of this FS reports, with the bytes its Open yields
	var view []vt.Ev
	werr := f.Walk(context.Background(), "/", func(p string, d gofs.DirEntry, err error) error {
		if err != nil {
			return err
		}
		fi, err := d.Info()
		if err != nil {
			return err
		}
		st := statOf(fi)
		if st == nil {
			return fmt.Errorf("no stat")
		}
		ev := hstream.StatEv(st)
		ev["lnb"] = vt.B(st.Linkname)
		if os.FileMode(st.Mode)&os.ModeSymlink == 0 {
			ev["lnb"] = []int{}
		}
		ev["mtsec"] = int(floorSec(st.ModTime))
		ev["c"] = ""
		if os.FileMode(st.Mode)&os.ModeType == 0 {
			if b, err := os.ReadFile(diskPath(p)); err == nil {
				ev["c"] = model.ContentID(b)
			}
		}
		view = append(view, ev)
		return nil
	})
	if werr != nil {
		return nil, werr
	}
	var buf bytes.Buffer
	if in.Twice {
		// the same FS value exported before: nothing of that export may leak into this one
		fsutil.WriteTar(context.Background(), f, io.Discard)
	}
	terr := fsutil.WriteTar(context.Background(), f, &buf)
	raw := buf.Bytes()
	members := []vt.Ev{}
	eofClean := false
	tr := tar.NewReader(bytes.NewReader(raw))
	for {
		h, err := tr.Next()
		if err == io.EOF {
			eofClean = true
			break
		}
		if err != nil {
			break
		}
		payload, _ := io.ReadAll(tr)
		x := map[string]string{}
		for k, v := range h.PAXRecords {
			if strings.HasPrefix(k, "SCHILY.xattr.") {
				x[strings.TrimPrefix(k, "SCHILY.xattr.")] = v
			}
		}
		perm := uint32(h.Mode) & 07777
		members = append(members, vt.Ev{"name": vt.B(h.Name), "flag": string([]byte{h.Typeflag}), "size": fmt.Sprint(h.Size), "rawSize": "?",
			"c": model.ContentID(payload), "perm": int(perm), "uid": h.Uid, "gid": h.Gid, "mtsec": int(h.ModTime.Unix()),
			"ln": vt.B(h.Linkname), "dev": fmt.Sprintf("%d:%d", h.Devmajor, h.Devminor), "x": model.XattrString(x)})
	}
	rnames, rsizes, rok := rawWalk(raw)
	rawNames := [][]int{}
	for i, n := range rnames {
		rawNames = append(rawNames, vt.B(n))
		if i < len(members) {
			members[i]["rawSize"] = fmt.Sprint(rsizes[i])
		}
	}
	// extraction with GNU tar
	extractedOK := false
	var extracted model.Tree
	if terr == nil {
		cmd := exec.Command("tar", "-xpf", "-", "--xattrs", "--xattrs-include=*", "--same-owner", "--numeric-owner", "-C", ext)
		cmd.Stdin = bytes.NewReader(raw)
		out, err := cmd.CombinedOutput()
		if err == nil {
			extracted, err = disk.Snapshot(ext, false)
			extractedOK = err == nil
		} else {
			_ = out
		}
	}
	xev := extracted.Ev()
	for i := range xev {
		xev[i]["mtsec"] = int(floorSec(extracted[i].Mtime))
	}
	if view == nil {
		view = []vt.Ev{}
	}
	// a destination writer that fails at some offset (every position of the archive tail included): WriteTar must say so
	swallowed := []int{}
	if terr == nil && len(raw) > 0 {
		offs := []int{len(raw) - 1, len(raw) - 512, len(raw) - 1023, len(raw) - 1024, len(raw) - 1025, len(raw) / 2, 0}
		for _, at := range offs {
			if at < 0 {
				continue
			}
			fw := &failingWriter{left: at}
			if err := fsutil.WriteTar(context.Background(), f, fw); err == nil && fw.failed {
				swallowed = append(swallowed, at)
			}
		}
	}
	ev := vt.Ev{"ev": "Tar", "case": caseNo, "view": view, "members": members, "eofClean": eofClean, "rawWalkOK": rok, "rawNames": rawNames, "writeErrorsSwallowedAt": swallowed,
		"writeErr": terr != nil, "extractedOK": extractedOK, "extracted": xev, "bytes": len(raw), "input": vt.Opaque(in)}
	if terr != nil {
		ev["err"] = trunc(terr.Error())
	}
	return ev, nil
}

// floorSec: whole seconds of a nanosecond timestamp, rounded towards minus infinity (times before the epoch)
func floorSec(ns int64) int64 {
	s := ns / 1e9
	if ns%1e9 < 0 {
		s--
	}
	return s
}

// failingWriter accepts left bytes and fails from then on.
type failingWriter struct {
	left   int
	failed bool
}

func (w *failingWriter) Write(b []byte) (int, error) {
	if len(b) <= w.left {
		w.left -= len(b)
		return len(b), nil
	}
	n := w.left
	w.left = 0
	w.failed = true
	return n, fmt.Errorf("injected write error")
}

// Tar drives fsutil.WriteTar (C17).
func Tar(c *Ctx) error {
	if c.Replay != "" {
		in := &tarInput{}
		if err := vt.ReplayInput(c.Replay, in); err != nil {
			return err
		}
		Regen(in.Tree)
		ev, err := runTar(c, c.NextCase(), *in)
		if err != nil {
			return err
		}
		if ev != nil {
			c.Out.Emit(ev)
		}
		return nil
	}
	n := 600
	if c.Thorough() {
		n = 4000
	}
	c.Stats.Rule = "one case = WriteTar over the view of a materialised tree (optionally filtered), parsed with archive/tar and a strict block walk and extracted with GNU tar; non-trivial = the view has a hard-link group or a multi-chunk file or a name longer than 100 bytes; distinct by (tree, filter)"
	o := genOpts{MaxEntries: 30, Special: true, Xattrs: true, Links: true, BigFiles: true, LongNames: true}
	// views assembled from several mounted trees, with mount names that are prefixes of one another
	var fixed []tarInput
	{
		mk := func(p, data string) model.Entry {
			return model.Entry{Path: p, Type: "file", Perm: 0644, Mtime: uniqueMtime(), Data: []byte(data), Size: int64(len(data)), Content: model.ContentID([]byte(data))}
		}
		dr := func(p string) model.Entry { return model.Entry{Path: p, Type: "dir", Perm: 0755, Mtime: uniqueMtime()} }
		// (the inner trees of spec/MountRouteMC.tla: x, b/x, -b/x - "a" + "b/x" and "ab" + "/x" spell the same characters)
		t1 := model.Tree{dr("b"), mk("b/x", "AAAA"), mk("x", "BBBB"), mk("y", "yy"), dr("-b"), mk("-b/x", "CCCC")}
		t1.Sort()
		for _, mounts := range [][]string{{"a", "ab"}, {"ab", "a"}, {"m"}, {"a", "a-b", "ab"}} {
			fixed = append(fixed, tarInput{Tree: t1, Mounts: mounts}, tarInput{Tree: t1, Mounts: mounts, Bare: true})
		}
	}
	// filtered views in which the first walked name of an inode is hidden by a pattern that names the file itself: the
	// surviving name must come out as a regular member with the bytes
	{
		mkg := func(p, data string, g int) model.Entry {
			return model.Entry{Path: p, Type: "file", Perm: 0644, Mtime: uniqueMtime(), Data: []byte(data), Size: int64(len(data)), Content: model.ContentID([]byte(data)), Group: g}
		}
		dr := func(p string) model.Entry { return model.Entry{Path: p, Type: "dir", Perm: 0755, Mtime: uniqueMtime()} }
		t2 := model.Tree{mkg("a", "shared-bytes", 500), mkg("b", "shared-bytes", 500), dr("d"), mkg("d/c", "shared-bytes", 500), mkg("z", "other", 0)}
		t2.Sort()
		for _, exc := range [][]string{{"a"}, {"a", "b"}, {"a*"}, {"b"}} {
			fixed = append(fixed, tarInput{Tree: t2, Exc: exc}, tarInput{Tree: t2, Exc: exc, Twice: true}, tarInput{Tree: t2, Exc: exc, NoReset: true})
		}
		fixed = append(fixed, tarInput{Tree: t2, Inc: []string{"b", "d"}}, tarInput{Tree: t2, Inc: []string{"d", "z"}})
	}
	for i := 0; i < n+len(fixed); i++ {
		var in tarInput
		if i < len(fixed) {
			in = fixed[i]
		} else {
			in = tarInput{Tree: RandomTree(c.Rand, o), Twice: i%2 == 0, Bare: i%4 < 2}
			if i%9 == 4 {
				in.Mounts = [][]string{{"a", "ab"}, {"m"}, {"b", "a", "a0"}}[c.Rand.Intn(3)]
				// (no fifos below mounts: a view that routes a path to the wrong mount must fail or deliver wrong bytes, not
				// block the driver in open(2) of a fifo)
				var keep model.Tree
				for _, e := range in.Tree {
					if e.Type != "fifo" {
						keep = append(keep, e)
					}
				}
				in.Tree = keep
			}
		}
		t := in.Tree
		switch c.Rand.Intn(5) + 5*b2i(i < len(fixed)) {
		case 0:
			in.Exc = []string{[]string{"a", "a*", "*/b", "**/a0"}[c.Rand.Intn(4)]}
		case 1:
			in.Inc = []string{[]string{"a*", "*", "b", "-"}[c.Rand.Intn(4)]}
		}
		ev, err := runTar(c, c.NextCase(), in)
		if err != nil {
			return err
		}
		if ev == nil {
			continue
		}
		c.Out.Emit(ev)
		nt := false
		for _, e := range t {
			if e.Group != 0 || e.Size > 32768 || len(filepath.Base(e.Path)) > 100 {
				nt = true
			}
		}
		c.Stats.Case(vt.Opaque(in), nt)
		if nt && len(t) < 10 {
			c.Stats.Sample(vt.Ev{"tree": pathsOfShort(t), "include": in.Inc, "exclude": in.Exc, "archiveBytes": ev["bytes"]})
		}
	}
	return nil
}

func pathsOfShort(t model.Tree) []string {
	out := pathsOf(t)
	for i := range out {
		if len(out[i]) > 40 {
			out[i] = out[i][:40] + "..."
		}
	}
	return out
}

func b2i(b bool) int {
	if b {
		return 1
	}
	return 0
}
