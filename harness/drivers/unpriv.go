package drivers

import (
	"fmt"
	"syscall"
	"unsafe"
)

// Dropping CAP_DAC_OVERRIDE from the effective set of every thread makes the
// in-process receiver behave like an unprivileged owner of the destination:
// a read-only file cannot be opened for writing without changing its mode.
// The permitted set is left alone, so the capability is raised again afterwards.

const capV3 = 0x20080522
const capDacOverride = 1

type capHeader struct {
	version uint32
	pid     int32
}
type capData struct {
	effective, permitted, inheritable uint32
}

const capDacReadSearch = 2

// setReadCaps: CAP_DAC_OVERRIDE and CAP_DAC_READ_SEARCH together (without them a mode-0000 directory cannot be listed even by
// uid 0: the walker sees what an unprivileged sender sees)
func setReadCaps(on bool) error {
	hdr := capHeader{version: capV3}
	var data [2]capData
	if _, _, e := syscall.RawSyscall(syscall.SYS_CAPGET, uintptr(unsafe.Pointer(&hdr)), uintptr(unsafe.Pointer(&data[0])), 0); e != 0 {
		return fmt.Errorf("capget: %v", e)
	}
	if on {
		data[0].effective |= 1<<capDacOverride | 1<<capDacReadSearch
	} else {
		data[0].effective &^= 1<<capDacOverride | 1<<capDacReadSearch
	}
	if _, _, e := syscall.AllThreadsSyscall(syscall.SYS_CAPSET, uintptr(unsafe.Pointer(&hdr)), uintptr(unsafe.Pointer(&data[0])), 0); e != 0 {
		return fmt.Errorf("capset: %v", e)
	}
	return nil
}

func setDacOverride(on bool) error {
	hdr := capHeader{version: capV3}
	var data [2]capData
	if _, _, e := syscall.RawSyscall(syscall.SYS_CAPGET, uintptr(unsafe.Pointer(&hdr)), uintptr(unsafe.Pointer(&data[0])), 0); e != 0 {
		return fmt.Errorf("capget: %v", e)
	}
	if on {
		data[0].effective |= 1 << capDacOverride
	} else {
		data[0].effective &^= 1 << capDacOverride
	}
	if _, _, e := syscall.AllThreadsSyscall(syscall.SYS_CAPSET, uintptr(unsafe.Pointer(&hdr)), uintptr(unsafe.Pointer(&data[0])), 0); e != 0 {
		return fmt.Errorf("capset: %v", e)
	}
	return nil
}
