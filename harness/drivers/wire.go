package drivers

import (
	"fmt"
	"os"
	"path/filepath"
	"runtime"
	"sync"
	"sync/atomic"
	"time"

	"verif/harness/disk"
	"verif/harness/model"
	"verif/harness/vt"
)

func init() { Registry["wire"] = Wire }

type wireInput struct {
	What   string     `json:"what"` // sender | receiver
	Src    model.Tree `json:"src"`
	Dst    model.Tree `json:"dst"`
	RS     RecvScript `json:"rs"`
	SS     SendScript `json:"ss"`
	CapS   int        `json:"capS"`
	CapR   int        `json:"capR"`
	Differ string     `json:"differ"`
	Mode   string     `json:"mode"`
	Origin string     `json:"origin"`
	// PostSendUS: SendMsg of the real side returns that long after the packet became visible
	PostSendUS int `json:"postSendUs"`
	// Filter: receiver-side Filter by name (see filterByName)
	Filter string `json:"filter,omitempty"`
}

func runWireInput(c *Ctx, caseNo int, in wireInput) ([]vt.Ev, *SyncResult, error) {
	base := filepath.Join(c.Work, fmt.Sprintf("wcase%d", caseNo))
	src, dst := filepath.Join(base, "src"), filepath.Join(base, "dst")
	defer disk.RemoveAll(base)
	if err := os.MkdirAll(src, 0755); err != nil {
		return nil, nil, err
	}
	if err := os.MkdirAll(dst, 0755); err != nil {
		return nil, nil, err
	}
	o := SyncOpts{Mode: "dirty", Differ: "metadata", CapS2R: in.CapS, CapR2S: in.CapR}
	if in.PostSendUS > 0 {
		real := "S"
		if in.What != "sender" {
			real = "R"
		}
		d := time.Duration(in.PostSendUS) * time.Microsecond
		o.Gate = func(ep, op string, k int) {
			if ep == real && (op == "sent:STAT" || op == "sent:REQ") {
				time.Sleep(d)
			}
		}
	}
	extra := vt.Ev{"input": vt.Opaque(in), "origin": in.Origin}
	if in.What == "sender" {
		if err := disk.Materialise(src, in.Src); err != nil {
			return nil, nil, fmt.Errorf("materialise src: %w", err)
		}
		snap, err := disk.Snapshot(src, false)
		if err != nil {
			return nil, nil, err
		}
		extra["src"] = snap.Ev()
		extra["srcExact"] = true
		extra["script"] = vt.Opaque(in.RS)
		o.PuppetR = PuppetReceiver(in.RS)
	} else {
		if err := disk.Materialise(dst, in.Dst); err != nil {
			return nil, nil, fmt.Errorf("materialise dst: %w", err)
		}
		if in.Mode != "" {
			o.Mode = in.Mode
		}
		if in.Differ != "" {
			o.Differ = in.Differ
		}
		view := in.Src.Clone()
		view.Sort()
		byPath := map[string][]byte{}
		for i := range view {
			if view[i].Type == "file" {
				byPath[view[i].Path] = view[i].Data
			}
		}
		o.Content = func(p string) ([]byte, bool) { b, ok := byPath[p]; return b, ok }
		o.PuppetS = PuppetSender(view, in.SS)
		extra["script"] = vt.Opaque(in.SS)
		extra["srcExact"] = false
		if in.Filter != "" {
			o.Filter = filterByName(in.Filter)
			extra["filter"] = in.Filter
		}
	}
	o.Extra = extra
	res, err := RunSync(caseNo, src, dst, o)
	if err != nil {
		return nil, nil, err
	}
	return res.Events, res, nil
}

// Wire: real Send against a reference receiver (C06), reference sender against
// real Receive (C07).
func Wire(c *Ctx) error {
	if c.Replay != "" {
		in := &wireInput{}
		if err := vt.ReplayInput(c.Replay, in); err != nil {
			return err
		}
		Regen(in.Src)
		Regen(in.Dst)
		evs, _, err := runWireInput(c, c.NextCase(), *in)
		if err != nil {
			return err
		}
		for _, e := range evs {
			c.Out.Emit(e)
		}
		return nil
	}
	var inputs []wireInput
	caps := []int{0, 1, 2, 8, 64}
	o := genOpts{MaxEntries: 30, Special: true, Xattrs: true, Links: true, BigFiles: true, LongNames: true}
	uni := SmallUniverse()
	if c.What == "sender" {
		n := 420
		if c.Thorough() {
			n = 6000
		}
		for i := 0; i < n; i++ {
			var src model.Tree
			origin := "random"
			switch {
			case i%40 == 7: // large fan-out: more requests than pipeline (128) + workers (4)
				nf := 150 + c.Rand.Intn(250)
				for k := 0; k < nf; k++ {
					e := newFile(c.Rand, genOpts{})
					e.Path = fmt.Sprintf("f%04d", k)
					src = append(src, e)
				}
				origin = "fanout"
			case i%3 == 0:
				src = uni[c.Rand.Intn(len(uni))]
				origin = "universe"
			default:
				src = RandomTree(c.Rand, o)
			}
			rs := RecvScript{Kind: []string{"afterEnd", "eager", "afterEnd"}[c.Rand.Intn(3)], Frac: []float64{0, 0.3, 0.7, 1, 1}[c.Rand.Intn(5)],
				Shuffle: c.Rand.Intn(2) == 0, Seed: c.Rand.Int63(), DelayUS: []int{0, 0, 20, 200}[c.Rand.Intn(4)], Links: c.Rand.Intn(2) == 0}
			if origin == "fanout" {
				rs.Frac, rs.DelayUS = 1, 0
				if c.Rand.Intn(2) == 0 {
					// every request before any content is read: more than pipeline + workers outstanding, workers stalled
					rs.Kind = "burst"
					rs.Shuffle = c.Rand.Intn(2) == 0
				}
			}
			switch c.Rand.Intn(10) {
			case 0:
				rs.Bad = "dup"
			case 1:
				rs.Bad = "unknown"
			case 2:
				rs.Bad = "nonfile"
			case 3:
				rs.Bad = "dupLate"
			case 4:
				rs.NoFin = true
			}
			in := wireInput{What: "sender", Src: src, RS: rs, CapS: caps[c.Rand.Intn(len(caps))], CapR: caps[c.Rand.Intn(len(caps))], Origin: origin}
			if origin != "fanout" && c.Rand.Intn(3) == 0 {
				in.PostSendUS = []int{200, 1000, 3000}[c.Rand.Intn(3)]
				in.RS.Kind = "eager"
				in.RS.Frac = 1
				if len(in.Src) > 12 {
					in.Src = uni[c.Rand.Intn(len(uni))]
				}
			}
			inputs = append(inputs, in)
		}
		c.Stats.Rule = "one case = real Send over a materialised source against the reference receiver with one request script; non-trivial = at least two files requested or a deliberately invalid request; distinct by (tree, script, capacities)"
	} else {
		n := 260
		if c.Thorough() {
			n = 6000
		}
		for i := 0; i < n; i++ {
			var view, dst model.Tree
			origin := "random"
			if i%60 == 11 {
				// large fan-out with a sender that announces everything before answering anything
				nf := 300 + c.Rand.Intn(400)
				for k := 0; k < nf; k++ {
					e := newFile(c.Rand, genOpts{})
					e.Path = fmt.Sprintf("f%04d", k)
					view = append(view, e)
				}
				inputs = append(inputs, wireInput{What: "receiver", Src: view, SS: SendScript{Chunk: "k32", Seed: c.Rand.Int63()},
					Mode: "dirty", Differ: "metadata", CapS: caps[c.Rand.Intn(len(caps))], CapR: caps[c.Rand.Intn(len(caps))], Origin: "fanout"})
				continue
			}
			if i%3 == 0 {
				view = uni[c.Rand.Intn(len(uni))]
				dst = uni[c.Rand.Intn(len(uni))]
				origin = "universe"
			} else {
				view = RandomTree(c.Rand, o)
				switch c.Rand.Intn(3) {
				case 0:
				case 1:
					dst = RandomTree(c.Rand, o)
				default:
					dst, _ = MutateTree(c.Rand, view, o, 1+c.Rand.Intn(5))
				}
			}
			ss := SendScript{Chunk: []string{"one", "small", "k32", "big", "random"}[c.Rand.Intn(5)], Interleave: c.Rand.Intn(2) == 0,
				DataRaces: c.Rand.Intn(2) == 0, LateEnd: c.Rand.Intn(3) == 0, Seed: c.Rand.Int63(), DelayUS: []int{0, 0, 20, 200}[c.Rand.Intn(4)]}
			if ss.Chunk == "one" || ss.Chunk == "small" {
				// one-byte chunks of 100 kB files are slow; keep such views small
				for k := range view {
					if view[k].Type == "file" && view[k].Size > 40 {
						// deterministic in (seed, size) so that hard-link group members stay identical
						view[k].Size = 1 + (view[k].Size+view[k].DSeed%31+31)%40
						view[k].Data = fileData(view[k].DSeed, int(view[k].Size))
						view[k].Content = model.ContentID(view[k].Data)
					}
				}
			}
			if c.Rand.Intn(6) == 0 {
				ss.EOFAfter = 1 + c.Rand.Intn(2*len(view)+3)
			}
			mode, differ := "dirty", "metadata"
			if c.Rand.Intn(6) == 0 {
				mode = "merge"
			}
			if c.Rand.Intn(8) == 0 {
				differ = "none"
			}
			filter := ""
			if c.Rand.Intn(6) == 0 && mode == "dirty" && ss.EOFAfter == 0 {
				// entries the receiver's Filter rejects still occupy an id in the sender's sequence
				filter = "rejectRJ"
				view, dst = addRejected(c.Rand, view), addRejected(c.Rand, dst)
				origin += "+rejectFilter"
			}
			in := wireInput{What: "receiver", Src: view, Dst: dst, SS: ss, Mode: mode, Differ: differ, Filter: filter,
				CapS: caps[c.Rand.Intn(len(caps))], CapR: caps[c.Rand.Intn(len(caps))], Origin: origin}
			if c.Rand.Intn(3) == 0 && len(view) <= 12 {
				in.PostSendUS = []int{200, 1000, 3000}[c.Rand.Intn(3)]
				in.SS.DataRaces = true
				in.SS.DelayUS = 0
			}
			inputs = append(inputs, in)
		}
		c.Stats.Rule = "one case = real Receive into a materialised prior destination against the reference sender with one send script; non-trivial = at least two regular files in the view and a non-empty prior destination or an early end of stream; distinct by (view, destination, script, capacities)"
	}
	atomic.StoreInt32(&parallelCases, 1)
	defer atomic.StoreInt32(&parallelCases, 0)
	type result struct {
		evs []vt.Ev
		err error
		res *SyncResult
	}
	results := make([]result, len(inputs))
	var wg sync.WaitGroup
	sem := make(chan struct{}, runtime.NumCPU())
	base := c.caseNo
	c.caseNo += len(inputs)
	for i := range inputs {
		wg.Add(1)
		sem <- struct{}{}
		go func(i int) {
			defer wg.Done()
			defer func() { <-sem }()
			evs, res, err := runWireInput(c, base+i+1, inputs[i])
			results[i] = result{evs, err, res}
		}(i)
	}
	wg.Wait()
	for i, r := range results {
		if r.err != nil {
			return fmt.Errorf("case %d: %w", base+i+1, r.err)
		}
		for _, e := range r.evs {
			c.Out.Emit(e)
		}
		in := inputs[i]
		nfiles := 0
		for _, e := range in.Src {
			if e.Type == "file" {
				nfiles++
			}
		}
		var nt bool
		if in.What == "sender" {
			nt = (nfiles >= 2 && in.RS.Frac > 0) || in.RS.Bad != ""
			c.Stats.Count("script:"+in.RS.Kind, 1)
			if in.RS.Bad != "" {
				c.Stats.Count("bad:"+in.RS.Bad, 1)
			}
			if in.RS.NoFin {
				c.Stats.Count("noFin", 1)
			}
		} else {
			nt = (nfiles >= 2 && len(in.Dst) > 0) || in.SS.EOFAfter > 0
			c.Stats.Count("chunk:"+in.SS.Chunk, 1)
			if in.SS.EOFAfter > 0 {
				c.Stats.Count("earlyEOF", 1)
			}
		}
		c.Stats.Case(vt.Opaque(in), nt)
		c.Stats.Count("origin:"+in.Origin, 1)
		if r.res.SOK {
			c.Stats.Count("sendReturnedOK", 1)
		}
		if r.res.ROK {
			c.Stats.Count("recvReturnedOK", 1)
		}
		if nfiles >= 2 {
			c.Stats.Sample(vt.Ev{"what": in.What, "origin": in.Origin, "view": pathsOf(in.Src), "recvScript": in.RS, "sendScript": in.SS,
				"capS2R": in.CapS, "capR2S": in.CapR, "sendOK": r.res.SOK, "recvOK": r.res.ROK, "events": len(r.evs)})
		}
	}
	return nil
}
