package drivers

import (
	"bytes"
	"encoding/json"
	"fmt"
	"github.com/tonistiigi/fsutil"
	"io"
	"os"
	"os/exec"
	"path/filepath"
	"sort"
	"strings"
	"sync"
	"syscall"
	"time"

	"github.com/tonistiigi/fsutil/types"
	"verif/harness/disk"
	"verif/harness/hstream"
	"verif/harness/model"
	"verif/harness/vt"
)

func init() {
	Registry["hostile"] = Hostile
	childRoles["hostile-child"] = hostileChild
}

// hpkt is one scripted packet of the hostile sender.
type hpkt struct {
	T      string            `json:"t"` // STAT END DATA FIN ERR
	Path   string            `json:"path,omitempty"`
	Kind   string            `json:"kind,omitempty"` // file dir symlink fifo
	Link   string            `json:"link,omitempty"` // symlink target or hard-link name
	Xattrs map[string]string `json:"xattrs,omitempty"`
	Size   int               `json:"size,omitempty"`
	ID     uint32            `json:"id,omitempty"`
	// Mtime != 0: the stat mimics an entry the destination already holds (its modification time, and Size is sent as given
	// whatever the kind)
	Mtime int64 `json:"mtime,omitempty"`
}

type hostileCase struct {
	Case   int        `json:"case"`
	Script []hpkt     `json:"script"`
	Dst    model.Tree `json:"dst"` // prior destination content (may contain symlinks to /outside)
	Origin string     `json:"origin"`
	// receive options: merge mode, and (when not nil) a metadata-only selector that selects exactly these paths
	Merge    bool     `json:"merge,omitempty"`
	Selected []string `json:"selected,omitempty"`
	MetaOnly bool     `json:"metaOnly,omitempty"`
	// Rejected: paths the receiver's own Filter rejects
	Rejected []string `json:"rejected,omitempty"`
	// LinkModel: the case was enumerated by TLC (spec/ReceiveLinksMC.tla); what the model predicts for it
	LinkModel *linkModel `json:"linkModel,omitempty"`
}

// linkModel is one line of the case files TLC writes for ReceiveLinksMC (configuration _gen).
type linkModel struct {
	Name          string   `json:"name"`
	How           string   `json:"how"`  // plain | metaOnly | filter
	Keep          []string `json:"keep"` // selected (metaOnly) / accepted (filter) entries among d, d/x, z
	Merge         bool     `json:"merge"`
	Prior         string   `json:"prior"` // none | dir | linkOut
	ModelFails    bool     `json:"modelFails"`
	ModelTouched  bool     `json:"modelTouched"`
	ModelViaChild bool     `json:"modelViaChild"`
}

// linkModelCases turns the TLC-enumerated surroundings of the stream d, d/x, z -> d/x into hostile cases.
func linkModelCases(gen string) ([]hostileCase, error) {
	files, _ := filepath.Glob(filepath.Join(gen, "linkcase_*.ndjson"))
	sort.Strings(files)
	var out []hostileCase
	for _, f := range files {
		err := readLines(f, func(ln []byte) error {
			lm := &linkModel{}
			if err := json.Unmarshal(ln, lm); err != nil {
				return err
			}
			hc := hostileCase{Script: []hpkt{{T: "STAT", Path: "d", Kind: "dir"}, {T: "STAT", Path: "d/x", Kind: "file", Size: 2},
				{T: "STAT", Path: "z", Kind: "file", Link: "d/x"}}, Merge: lm.Merge, LinkModel: lm, Origin: "linkModel/" + lm.Name}
			switch lm.Prior {
			case "dir":
				hc.Dst = model.Tree{{Path: "d", Type: "dir", Perm: 0755, Mtime: 1300000000000000018},
					{Path: "d/x", Type: "file", Perm: 0644, Mtime: 1300000000000000019, Data: []byte("dx"), Size: 2}}
			case "linkOut":
				hc.Dst = model.Tree{{Path: "d", Type: "symlink", Link: "/outside/od", Perm: 0777, Mtime: 1300000000000000011}}
			}
			keep := map[string]bool{}
			for _, k := range lm.Keep {
				keep[k] = true
			}
			switch lm.How {
			case "metaOnly":
				hc.MetaOnly = true
				hc.Selected = append([]string{}, lm.Keep...)
				sort.Strings(hc.Selected)
			case "filter":
				for _, e := range []string{"d", "d/x", "z"} {
					if !keep[e] {
						hc.Rejected = append(hc.Rejected, e)
					}
				}
			}
			out = append(out, hc)
			return nil
		})
		if err != nil {
			return nil, err
		}
	}
	return out, nil
}

func (p hpkt) stat() *types.Stat {
	st := &types.Stat{Path: p.Path, ModTime: 1500000000123456789, Size: int64(p.Size), Uid: 0, Gid: 0}
	switch p.Kind {
	case "dir":
		st.Mode = uint32(os.ModeDir | 0755)
		st.Size = 0
	case "symlink":
		st.Mode = uint32(os.ModeSymlink | 0777)
		st.Linkname = p.Link
	case "fifo":
		st.Mode = uint32(os.ModeNamedPipe | 0644)
		st.Linkname = p.Link
	case "socket":
		st.Mode = uint32(os.ModeSocket | 0644)
		st.Linkname = p.Link
	case "irregular":
		st.Mode = uint32(os.ModeIrregular | 0644)
		st.Linkname = p.Link
	case "dirsymlink": // both type bits at once
		st.Mode = uint32(os.ModeDir | os.ModeSymlink | 0755)
		st.Linkname = p.Link
	case "chr":
		st.Mode = uint32(os.ModeDevice | os.ModeCharDevice | 0644)
		st.Linkname = p.Link
		st.Devmajor, st.Devminor = 1, 3
	default:
		st.Mode = 0644
		st.Linkname = p.Link
	}
	if p.Mtime != 0 {
		st.ModTime = p.Mtime
		st.Size = int64(p.Size)
		st.Linkname = p.Link
	}
	if len(p.Xattrs) > 0 {
		st.Xattrs = map[string][]byte{}
		for k, v := range p.Xattrs {
			st.Xattrs[k] = []byte(v)
		}
	}
	return st
}

func hostileData(size int) []byte { return bytes.Repeat([]byte("x"), size) }

// hostileSender plays the script, then serves requests like a normal sender.
func hostileSender(script []hpkt) func(conn *hstream.Conn) error {
	return func(conn *hstream.Conn) error {
		ep := conn.S
		var mu sync.Mutex
		cond := sync.NewCond(&mu)
		var pending []uint32
		finSeen, dead := false, false
		sizes := map[uint32]int{}
		go func() {
			for {
				var p types.Packet
				if err := ep.RecvMsg(&p); err != nil {
					mu.Lock()
					dead = true
					cond.Broadcast()
					mu.Unlock()
					return
				}
				mu.Lock()
				switch p.Type {
				case types.PACKET_REQ:
					pending = append(pending, p.ID)
				case types.PACKET_FIN:
					finSeen = true
				case types.PACKET_ERR:
					dead = true
				}
				cond.Broadcast()
				stop := finSeen || dead
				mu.Unlock()
				if stop {
					return
				}
			}
		}()
		idx := uint32(0)
		ended := false
		var late []hpkt
		for _, p := range script {
			var err error
			switch p.T {
			case "LATEDATA":
				late = append(late, p)
			case "STAT":
				sizes[idx] = p.Size
				idx++
				err = ep.SendMsg(&types.Packet{Type: types.PACKET_STAT, Stat: p.stat()})
			case "END":
				ended = true
				err = ep.SendMsg(&types.Packet{Type: types.PACKET_STAT})
			case "DATA":
				err = ep.SendMsg(&types.Packet{Type: types.PACKET_DATA, ID: p.ID, Data: hostileData(p.Size)})
			case "FIN":
				err = ep.SendMsg(&types.Packet{Type: types.PACKET_FIN})
			case "ERR":
				err = ep.SendMsg(&types.Packet{Type: types.PACKET_ERR, Data: []byte("scripted error")})
			}
			if err != nil {
				return nil
			}
		}
		if !ended {
			if err := ep.SendMsg(&types.Packet{Type: types.PACKET_STAT}); err != nil {
				return nil
			}
		}
		deadline := time.Now().Add(3 * time.Second)
		for {
			mu.Lock()
			for len(pending) == 0 && !finSeen && !dead {
				// bounded wait so that a stuck receiver is left to the watchdog
				go func() { time.Sleep(50 * time.Millisecond); cond.Broadcast() }()
				cond.Wait()
				if time.Now().After(deadline) {
					break
				}
			}
			if dead || (len(pending) == 0 && !finSeen) {
				mu.Unlock()
				return nil
			}
			if len(pending) == 0 && finSeen {
				mu.Unlock()
				break
			}
			id := pending[0]
			pending = pending[1:]
			mu.Unlock()
			if n := sizes[id]; n > 0 {
				if err := ep.SendMsg(&types.Packet{Type: types.PACKET_DATA, ID: id, Data: hostileData(n)}); err != nil {
					return nil
				}
			}
			if err := ep.SendMsg(&types.Packet{Type: types.PACKET_DATA, ID: id}); err != nil {
				return nil
			}
		}
		// content for an id whose transfer is already complete, sent after the receiver's FIN and before the echo
		for _, p := range late {
			if err := ep.SendMsg(&types.Packet{Type: types.PACKET_DATA, ID: p.ID, Data: hostileData(p.Size)}); err != nil {
				return nil
			}
		}
		ep.SendMsg(&types.Packet{Type: types.PACKET_FIN})
		return nil
	}
}

// outsideSnap describes everything in the jail that is not strictly inside
// /parent/dest.  For the destination directory's own entry the times are
// left out (children are created inside it).
func outsideSnap(root string) ([]vt.Ev, error) {
	var out []vt.Ev
	var rec func(rel string) error
	rec = func(rel string) error {
		dir := filepath.Join(root, rel)
		f, err := os.Open(dir)
		if err != nil {
			return err
		}
		names, err := f.Readdirnames(-1)
		f.Close()
		if err != nil {
			return err
		}
		sort.Strings(names)
		for _, n := range names {
			r := n
			if rel != "" {
				r = rel + "/" + n
			}
			if r == "events.ndjson" || r == "cases.json" {
				continue
			}
			e, err := disk.StatEntry(filepath.Join(dir, n), r, false)
			if err != nil {
				return err
			}
			ev := e.Ev()
			ev["ct"] = fmt.Sprint(e.Ctime)
			if r == "parent/dest" {
				ev["mt"], ev["ct"] = "-", "-"
			}
			out = append(out, ev)
			if e.Type == "dir" && r != "parent/dest" {
				if err := rec(r); err != nil {
					return err
				}
			}
		}
		return nil
	}
	if err := rec(""); err != nil {
		return nil, err
	}
	return out, nil
}

func resetOutside(root string) error {
	disk.RemoveAll(filepath.Join(root, "outside"))
	disk.RemoveAll(filepath.Join(root, "parent"))
	t := model.Tree{
		{Path: "outside", Type: "dir", Perm: 0755, Mtime: 1300000000000000001},
		{Path: "outside/o", Type: "file", Perm: 0600, Mtime: 1300000000000000002, Data: []byte("secret"), Size: 6},
		{Path: "outside/od", Type: "dir", Perm: 0700, Mtime: 1300000000000000003},
		{Path: "outside/od/x", Type: "file", Perm: 0644, Mtime: 1300000000000000004, Data: []byte("xx"), Size: 2},
		{Path: "parent", Type: "dir", Perm: 0755, Mtime: 1300000000000000005},
		{Path: "parent/sibling", Type: "file", Perm: 0644, Mtime: 1300000000000000006, Data: []byte("sib"), Size: 3},
	}
	return disk.Materialise(root, t)
}

// hostileChild: re-exec'd role.  args: <jail> ; reads <jail>/cases.json, chroots into the
// jail and runs every case there, writing events to <jail>/events.ndjson (opened before chroot).
func hostileChild(args []string) {
	jail := args[0]
	var cases []hostileCase
	if err := vt.ReadJSON(filepath.Join(jail, "cases.json"), &cases); err != nil {
		fmt.Fprintln(os.Stderr, err)
		os.Exit(2)
	}
	w, err := vt.NewWriter(filepath.Join(jail, "events.ndjson"))
	if err != nil {
		fmt.Fprintln(os.Stderr, err)
		os.Exit(2)
	}
	if err := syscall.Chroot(jail); err != nil {
		fmt.Fprintln(os.Stderr, "chroot:", err)
		os.Exit(2)
	}
	os.Chdir("/")
	if err := resetOutside("/"); err != nil {
		fmt.Fprintln(os.Stderr, "reset:", err)
		os.Exit(2)
	}
	for _, hc := range cases {
		dst := "/parent/dest"
		disk.RemoveAll(dst)
		if err := os.Mkdir(dst, 0755); err != nil {
			fmt.Fprintln(os.Stderr, err)
			os.Exit(2)
		}
		os.Chtimes(dst, time.Unix(1300000000, 7), time.Unix(1300000000, 7))
		os.Chtimes("/parent", time.Unix(1300000000, 5), time.Unix(1300000000, 5))
		if err := disk.Materialise(dst, hc.Dst); err != nil {
			fmt.Fprintln(os.Stderr, "materialise dest:", err)
			os.Exit(2)
		}
		ob, err := outsideSnap("/")
		if err != nil {
			fmt.Fprintln(os.Stderr, err)
			os.Exit(2)
		}
		sizes := map[string]int{}
		for _, p := range hc.Script {
			if p.T == "STAT" && (p.Kind == "file" || p.Kind == "") {
				sizes[p.Path] = p.Size
				if n, ok := sizes[p.Link]; ok && p.Link != "" {
					sizes[p.Path] = n // a hard link stands for the bytes of the entry it names
				}
			}
		}
		mode := "dirty"
		if hc.Merge {
			mode = "merge"
		}
		var metaSel fsutil.FilterFunc
		if hc.MetaOnly {
			sel := map[string]bool{}
			for _, p := range hc.Selected {
				sel[p] = true
			}
			metaSel = func(p string, st *types.Stat) bool { return sel[filepath.ToSlash(p)] }
		}
		var rejFilter fsutil.FilterFunc
		rejPaths := [][][]int{}
		for _, p := range hc.Rejected {
			rejPaths = append(rejPaths, vt.P(p))
		}
		if len(hc.Rejected) > 0 {
			rej := map[string]bool{}
			for _, p := range hc.Rejected {
				rej[p] = true
			}
			rejFilter = func(p string, st *types.Stat) bool { return !rej[filepath.ToSlash(p)] }
		}
		res, err := RunSync(hc.Case, "/nosrc", dst, SyncOpts{Mode: mode, Differ: "metadata", CapS2R: 4, CapR2S: 4, MetadataOnly: metaSel, Filter: rejFilter,
			PuppetS: hostileSender(hc.Script), Timeout: 2 * time.Second, NoProgress: true,
			Content: func(p string) ([]byte, bool) {
				if n, ok := sizes[p]; ok {
					return hostileData(n), true
				}
				return nil, false
			},
			Extra: func() vt.Ev {
				x := vt.Ev{"input": vt.Opaque(hc), "origin": hc.Origin, "hostile": true, "outsideBefore": ob, "rejectedPaths": rejPaths}
				if hc.LinkModel != nil {
					x["linkModel"] = vt.Ev{"fails": hc.LinkModel.ModelFails, "touched": hc.LinkModel.ModelTouched}
				}
				return x
			}()})
		if err != nil {
			fmt.Fprintln(os.Stderr, "runsync:", err)
			os.Exit(2)
		}
		oa, err := outsideSnap("/")
		if err != nil {
			fmt.Fprintln(os.Stderr, err)
			os.Exit(2)
		}
		changed := vt.Opaque(ob) != vt.Opaque(oa)
		for _, e := range res.Events {
			if e["ev"] == "End" {
				e["outsideAfter"] = oa
			}
			w.Emit(e)
		}
		if changed {
			if err := resetOutside("/"); err != nil {
				fmt.Fprintln(os.Stderr, "reset:", err)
				os.Exit(2)
			}
		}
	}
	w.Close()
}

var _ = io.EOF

func hostileAlphabet() []hpkt {
	ev := map[string]string{"user.evil": "1"}
	return []hpkt{
		{T: "STAT", Path: "..", Kind: "file", Size: 2},
		{T: "STAT", Path: "..", Kind: "dir"},
		{T: "STAT", Path: ".", Kind: "file", Size: 2},
		{T: "STAT", Path: ".", Kind: "dir"},
		{T: "STAT", Path: "", Kind: "file"},
		{T: "STAT", Path: "a/../..", Kind: "file", Size: 1},
		{T: "STAT", Path: "../sibling", Kind: "file", Size: 4},
		{T: "STAT", Path: "../../outside/o", Kind: "file", Size: 1},
		{T: "STAT", Path: "/outside/o", Kind: "file", Size: 1},
		{T: "STAT", Path: "a//b", Kind: "file"},
		{T: "STAT", Path: "a", Kind: "dir"},
		{T: "STAT", Path: "a", Kind: "file", Size: 3},
		{T: "STAT", Path: "a/b", Kind: "file", Size: 2},
		{T: "STAT", Path: "a/../b", Kind: "file", Size: 2},
		{T: "STAT", Path: "b", Kind: "file", Size: 1},
		{T: "STAT", Path: "b", Kind: "file", Link: "a"},               // hard link to a
		{T: "STAT", Path: "c", Kind: "file", Link: "../../outside/o"}, // hard link escaping
		{T: "STAT", Path: "c", Kind: "file", Link: "zzz"},             // hard link to unknown
		{T: "STAT", Path: "c", Kind: "file", Link: "l/x"},             // hard link through a pre-existing symlink
		{T: "STAT", Path: "l", Kind: "dir"},                           // replaces a symlink that points outside
		{T: "STAT", Path: "l/x", Kind: "file", Size: 5},               // child of a symlink
		{T: "STAT", Path: "l/new", Kind: "file", Size: 5},             // child of a symlink
		{T: "STAT", Path: "s", Kind: "symlink", Link: "/outside/o", Xattrs: ev},
		{T: "STAT", Path: "s", Kind: "symlink", Link: "/outside/od"},
		{T: "STAT", Path: "s/x", Kind: "file", Size: 4}, // child of a symlink sent earlier
		{T: "STAT", Path: "a\\b", Kind: "file", Size: 1},
		{T: "STAT", Path: "c", Kind: "socket", Link: "../../outside/o"}, // odd type bits carrying an escaping link name
		{T: "STAT", Path: "c", Kind: "irregular", Link: "../../outside/o"},
		{T: "STAT", Path: "c", Kind: "fifo", Link: "../../outside/o"},
		{T: "STAT", Path: "c", Kind: "chr", Link: "../sibling"},
		{T: "STAT", Path: "d", Kind: "symlink", Link: "/outside/od"}, // replaces a directory that has children named like the outside ones
		{T: "STAT", Path: "d", Kind: "symlink", Link: "../../outside/od"},
		{T: "STAT", Path: "a", Kind: "dirsymlink", Link: "/outside/od"}, // directory and symlink bits together
		{T: "STAT", Path: "d.z", Kind: "file", Size: 1},                 // siblings whose names continue with a byte below the separator
		{T: "STAT", Path: "d-z", Kind: "file", Size: 1},
		{T: "STAT", Path: "a/x", Kind: "file", Size: 3},
		{T: "DATA", ID: 0, Size: 3}, // content for an id that was not requested
		{T: "FIN"},
	}
}

func hostileDests() []model.Tree {
	return []model.Tree{
		nil,
		{{Path: "l", Type: "symlink", Link: "/outside/od", Perm: 0777, Mtime: 1300000000000000011},
			{Path: "f", Type: "file", Perm: 0644, Mtime: 1300000000000000012, Data: []byte("old"), Size: 3}},
		{{Path: "a", Type: "file", Perm: 0644, Mtime: 1300000000000000013, Data: []byte("afile"), Size: 5},
			{Path: "s", Type: "symlink", Link: "../sibling", Perm: 0777, Mtime: 1300000000000000014}},
		{{Path: "d", Type: "dir", Perm: 0755, Mtime: 1300000000000000018},
			{Path: "d/x", Type: "file", Perm: 0644, Mtime: 1300000000000000019, Data: []byte("dx"), Size: 2}},
		{{Path: "a", Type: "symlink", Link: "/outside/od", Perm: 0777, Mtime: 1300000000000000015},
			{Path: "b", Type: "symlink", Link: "/outside/o", Perm: 0777, Mtime: 1300000000000000016},
			{Path: "l", Type: "symlink", Link: "../../outside", Perm: 0777, Mtime: 1300000000000000017}},
	}
}

// Hostile drives the real Receive with hostile packet sequences inside a chroot jail (C03).
func Hostile(c *Ctx) error {
	var cases []hostileCase
	if c.Replay != "" {
		hc := &hostileCase{}
		if err := vt.ReplayInput(c.Replay, hc); err != nil {
			return err
		}
		hc.Case = 1
		for i := range hc.Dst {
			if hc.Dst[i].Type == "file" {
				hc.Dst[i].Data = bytes.Repeat([]byte("o"), int(hc.Dst[i].Size))
			}
		}
		cases = []hostileCase{*hc}
	} else {
		alpha := hostileAlphabet()
		dests := hostileDests()
		maxLen := 2
		if c.Thorough() {
			maxLen = 3
		}
		var rec func(prefix []hpkt)
		n := 0
		rec = func(prefix []hpkt) {
			for _, p := range alpha {
				seq := append(append([]hpkt{}, prefix...), p)
				for di, d := range dests {
					// thorough length-3 sequences: only two of the four destinations each (rotating)
					if len(seq) == 3 && (n+di)%3 != 0 {
						continue
					}
					cases = append(cases, hostileCase{Script: seq, Dst: d, Origin: fmt.Sprintf("enum/len%d/dest%d", len(seq), di)})
				}
				n++
				if len(seq) < maxLen {
					rec(seq)
				}
			}
		}
		rec(nil)
		// receive options: a metadata-only selector that does not select the source of a hard link it selects, in merge mode
		// (nothing is deleted), over destinations that hold symlinks to the outside
		for di, d := range dests {
			for _, merge := range []bool{false, true} {
				for _, linkTo := range []string{"d/x", "l/x", "a/x"} {
					dir := strings.Split(linkTo, "/")[0]
					cases = append(cases, hostileCase{Script: []hpkt{{T: "STAT", Path: dir, Kind: "dir"}, {T: "STAT", Path: linkTo, Kind: "file", Size: 2},
						{T: "STAT", Path: "zlink", Kind: "file", Link: linkTo}}, Dst: d, Merge: merge, MetaOnly: true, Selected: []string{"zlink"},
						Origin: fmt.Sprintf("metaOnlyLinkToUnselected/dest%d", di)})
				}
			}
		}
		// the receiver's own Filter rejects the entry a later hard link names (and its directory)
		for di, d := range dests {
			for _, merge := range []bool{false, true} {
				for _, linkTo := range []string{"d/x", "l/x", "a/x"} {
					dir := strings.Split(linkTo, "/")[0]
					for _, rej := range [][]string{{linkTo}, {dir, linkTo}, {dir}} {
						cases = append(cases, hostileCase{Script: []hpkt{{T: "STAT", Path: dir, Kind: "dir"}, {T: "STAT", Path: linkTo, Kind: "file", Size: 2},
							{T: "STAT", Path: "zlink", Kind: "file", Link: linkTo}}, Dst: d, Merge: merge, Rejected: rej,
							Origin: fmt.Sprintf("filterRejectsLinkSource/dest%d", di)})
					}
				}
			}
		}
		// the surroundings TLC enumerated for the stream d, d/x, z -> d/x (spec/ReceiveLinksMC.tla), with the model's prediction
		if gen := os.Getenv("VERIF_GEN_DIR"); gen != "" {
			lc, err := linkModelCases(gen)
			if err != nil {
				return err
			}
			cases = append(cases, lc...)
			c.Stats.Note(fmt.Sprintf("%d cases enumerated by TLC from ReceiveLinksMC (how x keep x merge x prior)", len(lc)))
		}
		// a stream that leaves a directory (through a later sibling) and then comes back to it: the late entry is out of order
		// and must be refused - with a sibling that is a symlink to the outside, over a destination that holds a real
		// directory at the sibling's place
		{
			back := model.Tree{{Path: "d", Type: "dir", Perm: 0755, Mtime: 1300000000000000021},
				{Path: "d/s", Type: "dir", Perm: 0755, Mtime: 1300000000000000022},
				{Path: "d/s/k", Type: "file", Perm: 0644, Mtime: 1300000000000000023, Data: []byte("k"), Size: 1}}
			for di, d := range append(append([]model.Tree{}, dests...), back) {
				for _, sib := range []hpkt{{T: "STAT", Path: "d/s", Kind: "symlink", Link: "/outside/od"}, {T: "STAT", Path: "d/s", Kind: "file", Size: 1}, {T: "STAT", Path: "d/s", Kind: "dir"}} {
					cases = append(cases, hostileCase{Script: []hpkt{{T: "STAT", Path: "d", Kind: "dir"}, {T: "STAT", Path: "d/a", Kind: "dir"}, {T: "STAT", Path: "d/a/x", Kind: "file", Size: 1},
						sib, {T: "STAT", Path: "d/a/zz", Kind: "file", Size: 2}}, Dst: d, Origin: fmt.Sprintf("backIntoLeftDirectory/dest%d", di)})
				}
			}
		}
		// mimicry: an entry of another type that carries the link name, size, owner and modification time of a symlink the
		// destination already holds (what the metadata differ compares), followed by a child below it
		for di, d := range dests {
			for _, l := range d {
				if l.Type != "symlink" {
					continue
				}
				for _, kind := range []string{"dir", "file", "fifo", "dirsymlink"} {
					cases = append(cases, hostileCase{Script: []hpkt{{T: "STAT", Path: l.Path, Kind: kind, Link: l.Link, Size: len(l.Link), Mtime: l.Mtime},
						{T: "STAT", Path: l.Path + "/x", Kind: "file", Size: 2}}, Dst: d, Origin: fmt.Sprintf("mimic/%s/dest%d", kind, di)})
				}
			}
		}
		// reactive scripts: DATA for a file that is already complete (empty / non-empty), after the receiver's FIN
		for di, d := range dests {
			for _, sz := range []int{0, 3} {
				cases = append(cases,
					hostileCase{Script: []hpkt{{T: "STAT", Path: "e", Kind: "file", Size: sz}, {T: "LATEDATA", ID: 0, Size: 4}}, Dst: d, Origin: fmt.Sprintf("lateData/dest%d", di)},
					hostileCase{Script: []hpkt{{T: "STAT", Path: "e", Kind: "file", Size: sz}, {T: "STAT", Path: "f", Kind: "file", Size: 2}, {T: "LATEDATA", ID: 0, Size: 4}, {T: "LATEDATA", ID: 1, Size: 1}}, Dst: d, Origin: fmt.Sprintf("lateData2/dest%d", di)})
			}
		}
		c.Stats.Exhaustive = true
		c.Stats.Note(fmt.Sprintf("all sequences up to length %d over a hostile alphabet of %d packets x %d prior destinations", maxLen, len(alpha), len(dests)))
		// random longer streams: a valid walk mutated
		nRand := 150
		if c.Thorough() {
			nRand = 3000
		}
		for i := 0; i < nRand; i++ {
			var seq []hpkt
			names := []string{"a", "a-b", "b", "c", "l", "s", "d"}
			used := map[string]bool{}
			for k := 0; k < 2+c.Rand.Intn(6); k++ {
				nm := names[c.Rand.Intn(len(names))]
				if used[nm] {
					continue
				}
				used[nm] = true
				if c.Rand.Intn(3) == 0 {
					seq = append(seq, hpkt{T: "STAT", Path: nm, Kind: "dir"})
					seq = append(seq, hpkt{T: "STAT", Path: nm + "/x", Kind: "file", Size: 1 + c.Rand.Intn(4)})
				} else {
					seq = append(seq, hpkt{T: "STAT", Path: nm, Kind: "file", Size: c.Rand.Intn(5)})
				}
			}
			sort.SliceStable(seq, func(i, j int) bool { return model.Less(seq[i].Path, seq[j].Path) })
			// inject 1-2 hostile packets at random positions
			for k := 0; k < 1+c.Rand.Intn(2); k++ {
				h := alpha[c.Rand.Intn(len(alpha))]
				pos := c.Rand.Intn(len(seq) + 1)
				seq = append(seq[:pos], append([]hpkt{h}, seq[pos:]...)...)
			}
			cases = append(cases, hostileCase{Script: seq, Dst: dests[c.Rand.Intn(len(dests))], Origin: "random/mutatedWalk"})
		}
	}
	for i := range cases {
		cases[i].Case = c.NextCase()
	}
	// batches, one chroot child each
	nb := 16
	if len(cases) < 64 {
		nb = 1
	}
	type out struct {
		lines [][]byte
		err   error
	}
	outs := make([]out, nb)
	var wg sync.WaitGroup
	self, err := os.Executable()
	if err != nil {
		return err
	}
	for b := 0; b < nb; b++ {
		wg.Add(1)
		go func(b int) {
			defer wg.Done()
			var mine []hostileCase
			for i := b; i < len(cases); i += nb {
				mine = append(mine, cases[i])
			}
			jail := filepath.Join(c.Work, fmt.Sprintf("jail%d", b))
			if err := os.MkdirAll(jail, 0755); err != nil {
				outs[b].err = err
				return
			}
			defer disk.RemoveAll(jail)
			js, _ := json.Marshal(mine)
			if err := os.WriteFile(filepath.Join(jail, "cases.json"), js, 0644); err != nil {
				outs[b].err = err
				return
			}
			cmd := exec.Command(self, "hostile-child", jail)
			var stderr bytes.Buffer
			cmd.Stderr = &stderr
			if err := cmd.Run(); err != nil {
				outs[b].err = fmt.Errorf("hostile child: %v: %s", err, stderr.String())
				return
			}
			data, err := os.ReadFile(filepath.Join(jail, "events.ndjson"))
			if err != nil {
				outs[b].err = err
				return
			}
			outs[b].lines = bytes.Split(bytes.TrimRight(data, "\n"), []byte("\n"))
		}(b)
	}
	wg.Wait()
	// emit in case order
	type caseLines struct {
		no    int
		lines [][]byte
	}
	var all []caseLines
	for b := range outs {
		if outs[b].err != nil {
			return outs[b].err
		}
		var cur *caseLines
		for _, ln := range outs[b].lines {
			if len(ln) == 0 {
				continue
			}
			var e struct {
				Case int    `json:"case"`
				Ev   string `json:"ev"`
			}
			if err := json.Unmarshal(ln, &e); err != nil {
				return err
			}
			if cur == nil || cur.no != e.Case {
				all = append(all, caseLines{no: e.Case})
				cur = &all[len(all)-1]
			}
			cur.lines = append(cur.lines, ln)
		}
	}
	sort.Slice(all, func(i, j int) bool { return all[i].no < all[j].no })
	for _, cl := range all {
		for _, ln := range cl.lines {
			var e vt.Ev
			d := json.NewDecoder(bytes.NewReader(ln))
			d.UseNumber()
			if err := d.Decode(&e); err != nil {
				return err
			}
			c.Out.Emit(e)
		}
	}
	for _, hc := range cases {
		var sb strings.Builder
		offending := false
		for _, p := range hc.Script {
			fmt.Fprintf(&sb, "%s|%s|%s|%s;", p.T, p.Path, p.Kind, p.Link)
			if p.T != "STAT" || strings.Contains(p.Path, "..") || p.Path == "" || p.Path == "." || strings.HasPrefix(p.Path, "/") || strings.Contains(p.Link, "..") || strings.HasPrefix(p.Path, "l/") || strings.HasPrefix(p.Path, "s/") {
				offending = true
			}
		}
		c.Stats.Case(sb.String()+hc.Dst.Key(), offending)
		c.Stats.Count("origin:"+strings.SplitN(hc.Origin, "/", 3)[0], 1)
		if len(hc.Script) >= 2 {
			c.Stats.Sample(vt.Ev{"script": hc.Script, "priorDest": pathsOf(hc.Dst), "origin": hc.Origin})
		}
	}
	c.Stats.Rule = "one case = one hostile packet sequence sent to the real Receive inside a chroot jail with one prior destination; non-trivial = the sequence contains at least one offending element (escaping / unclean path, child of a symlink, escaping link name, unrequested DATA, early FIN); distinct by (sequence, prior destination)"
	return nil
}
