package drivers

import (
	"bufio"
	"bytes"
	"context"
	"encoding/binary"
	"encoding/json"
	"fmt"
	"io"
	"math"
	"os"
	"os/exec"
	"path/filepath"
	"runtime"
	"strings"
	"sync"
	"syscall"
	"unicode/utf8"
	"verif/harness/disk"

	"github.com/tonistiigi/fsutil/types"
	"github.com/tonistiigi/fsutil/util"
	"google.golang.org/protobuf/proto"
	"verif/harness/hstream"
	"verif/harness/model"
	"verif/harness/vt"
)

func init() { Registry["codec"] = Codec }

func statFromClass(c map[string]string) *types.Stat {
	st := &types.Stat{}
	switch c["path"] {
	case "ascii":
		st.Path = "dir/file.txt"
	case "nonutf8":
		st.Path = "bad\xff\xfe\x80name"
	case "long":
		st.Path = strings.Repeat("p", 5000)
	}
	switch c["mode"] {
	case "reg":
		st.Mode = 0644
	case "dir":
		st.Mode = uint32(os.ModeDir | 0755)
	case "max":
		st.Mode = math.MaxUint32
	}
	if c["uid"] == "max" {
		st.Uid, st.Gid = math.MaxUint32, math.MaxUint32
	}
	switch c["size"] {
	case "one":
		st.Size = 1
	case "neg":
		st.Size = -1
	case "max":
		st.Size = math.MaxInt64
	case "min":
		st.Size = math.MinInt64
	}
	switch c["mtime"] {
	case "neg":
		st.ModTime = -1
	case "big":
		st.ModTime = math.MaxInt64
	}
	if c["link"] == "set" {
		st.Linkname = "some/\xfftarget"
	}
	switch c["dev"] {
	case "neg":
		st.Devmajor, st.Devminor = -1, -7
	case "big":
		st.Devmajor, st.Devminor = math.MaxInt64, math.MinInt64
	}
	switch c["xattrs"] {
	case "one":
		st.Xattrs = map[string][]byte{"user.a": []byte("v")}
	case "emptyval":
		st.Xattrs = map[string][]byte{"user.empty": {}, "": []byte("nokey")}
	case "many":
		st.Xattrs = map[string][]byte{}
		for i := 0; i < 40; i++ {
			st.Xattrs[fmt.Sprintf("user.k%02d\xff", i)] = bytes.Repeat([]byte{byte(i)}, i*7)
		}
	}
	return st
}

func packetFromClass(c map[string]string) *types.Packet {
	p := &types.Packet{}
	switch c["type"] {
	case "REQ":
		p.Type = types.PACKET_REQ
	case "DATA":
		p.Type = types.PACKET_DATA
	case "FIN":
		p.Type = types.PACKET_FIN
	case "ERR":
		p.Type = types.PACKET_ERR
	case "unknown7":
		p.Type = types.Packet_PacketType(7)
	}
	switch c["stat"] {
	case "zero":
		p.Stat = &types.Stat{}
	case "full":
		p.Stat = statFromClass(map[string]string{"path": "nonutf8", "mode": "dir", "uid": "max", "size": "min", "mtime": "big", "link": "set", "dev": "neg", "xattrs": "many"})
	}
	if c["id"] == "max" {
		p.ID = math.MaxUint32
	}
	switch c["data"] {
	case "empty":
		p.Data = []byte{}
	case "one":
		p.Data = []byte{0}
	case "big40000":
		p.Data = bytes.Repeat([]byte{0xab}, 40000)
	}
	return p
}

type vtMsg interface {
	proto.Message
	MarshalVT() ([]byte, error)
	UnmarshalVT([]byte) error
}

// roundTrip: encode with x, decode with y, for x,y in {vt, pb}; equality judged by proto.Equal
func roundTrip(v vtMsg, fresh func() vtMsg) (res [4]bool, note string) {
	encs := [2]func() ([]byte, error){
		func() ([]byte, error) { return v.MarshalVT() },
		func() ([]byte, error) { return proto.MarshalOptions{}.Marshal(v) },
	}
	for ei, enc := range encs {
		func() {
			defer func() {
				if r := recover(); r != nil {
					note = fmt.Sprint("panic: ", r)
				}
			}()
			b, err := enc()
			if err != nil {
				note = "encode error: " + err.Error()
				return
			}
			for di := 0; di < 2; di++ {
				o := fresh()
				var derr error
				if di == 0 {
					derr = o.UnmarshalVT(b)
				} else {
					derr = proto.UnmarshalOptions{}.Unmarshal(b, o)
				}
				if derr != nil {
					note = "decode error: " + derr.Error()
					continue
				}
				res[ei*2+di] = proto.Equal(v, o)
			}
		}()
	}
	return
}

func pbVarint(x uint64) []byte {
	var b []byte
	for x >= 0x80 {
		b = append(b, byte(x)|0x80)
		x >>= 7
	}
	return append(b, byte(x))
}

func pbLenField(field int, claimed uint64, body []byte) []byte {
	out := pbVarint(uint64(field<<3 | 2))
	out = append(out, pbVarint(claimed)...)
	return append(out, body...)
}

// nestedBytes instantiates one vector of WireGen!NestedAxes.
func nestedBytes(v map[string]string) (b []byte, target string, ok bool) {
	tail := bytes.Repeat([]byte{'x'}, map[string]int{"0": 0, "1": 1, "5": 5}[v["tail"]])
	n := uint64(len(tail))
	claim := map[string]uint64{"exact": n, "plus1": n + 1, "p16": 1 << 16, "p26": 1 << 26, "p31m1": 1<<31 - 1, "p40": 1 << 40, "p50": 1 << 50,
		"p62": 1 << 62, "p63m1": 1<<63 - 1, "p64m1": 1<<64 - 1}[v["claim"]]
	wrapStat := func(s []byte) ([]byte, string, bool) {
		if v["wrap"] == "inPacket" {
			return pbLenField(2, uint64(len(s)), s), "Packet", true
		}
		return s, "Stat", true
	}
	switch v["pos"] {
	case "packet.stat":
		if v["wrap"] != "bare" {
			return nil, "", false
		}
		return pbLenField(2, claim, tail), "Packet", true
	case "packet.data":
		if v["wrap"] != "bare" {
			return nil, "", false
		}
		return pbLenField(4, claim, tail), "Packet", true
	case "stat.path":
		return wrapStat(pbLenField(1, claim, tail))
	case "stat.linkname":
		return wrapStat(pbLenField(7, claim, tail))
	case "stat.xattrs":
		return wrapStat(pbLenField(10, claim, tail))
	case "xattr.key":
		e := pbLenField(1, claim, tail)
		return wrapStat(pbLenField(10, uint64(len(e)), e))
	case "xattr.value":
		e := append(pbLenField(1, 1, []byte{'k'}), pbLenField(2, claim, tail)...)
		return wrapStat(pbLenField(10, uint64(len(e)), e))
	}
	return nil, "", false
}

func tokenBytes(toks []string) []byte {
	var b []byte
	tag := func(f, wt int) { b = append(b, byte(f<<3|wt)) }
	for _, t := range toks {
		switch t {
		case "tag1v":
			tag(1, 0)
		case "tag1l":
			tag(1, 2)
		case "tag2l":
			tag(2, 2)
		case "tag2v":
			tag(2, 0)
		case "tag3v":
			tag(3, 0)
		case "tag3l":
			tag(3, 2)
		case "tag4l":
			tag(4, 2)
		case "tag9l":
			tag(9, 2)
		case "tag0v":
			tag(0, 0)
		case "tagG3":
			tag(1, 3)
		case "tagE4":
			tag(1, 4)
		case "tag1f32":
			tag(1, 5)
		case "tag2f64":
			tag(2, 1)
		case "v0":
			b = append(b, 0)
		case "v1":
			b = append(b, 1)
		case "v2byte":
			b = append(b, 0x81, 0x01)
		case "v10max":
			b = append(b, 0xff, 0xff, 0xff, 0xff, 0xff, 0xff, 0xff, 0xff, 0xff, 0x01)
		case "v10over":
			b = append(b, 0xff, 0xff, 0xff, 0xff, 0xff, 0xff, 0xff, 0xff, 0xff, 0x7f)
		case "v11long":
			b = append(b, 0x80, 0x80, 0x80, 0x80, 0x80, 0x80, 0x80, 0x80, 0x80, 0x80, 0x01)
		case "len0":
			b = append(b, 0)
		case "len1":
			b = append(b, 1)
		case "len5":
			b = append(b, 5)
		case "lenHuge31":
			b = append(b, 0xff, 0xff, 0xff, 0xff, 0x07)
		case "lenHuge63":
			b = append(b, 0xff, 0xff, 0xff, 0xff, 0xff, 0xff, 0xff, 0xff, 0x7f)
		case "b1":
			b = append(b, 'x')
		case "b5":
			b = append(b, 'h', 'e', 'l', 'l', 'o')
		case "bFF":
			b = append(b, 0xff)
		}
	}
	return b
}

func decodeOutcome(f func() error) (out string) {
	defer func() {
		if r := recover(); r != nil {
			out = "panic"
		}
	}()
	if err := f(); err != nil {
		return "error"
	}
	return "value"
}

// packetID is a canonical identity of a packet value (re-marshalling is not: map order varies)
func packetID(p *types.Packet) string {
	sh := "nil"
	if p.Stat != nil {
		sh = hstream.StatHash(p.Stat)
	}
	return fmt.Sprintf("%d/%d/%s/%s", p.Type, p.ID, model.ContentID(p.Data), sh)
}

// fragReader hands out the stream in the scripted fragment sizes (cycled).
type fragReader struct {
	b     []byte
	sizes []int
	i     int
}

func (r *fragReader) Read(p []byte) (int, error) {
	if len(r.b) == 0 {
		return 0, io.EOF
	}
	n := r.sizes[r.i%len(r.sizes)]
	r.i++
	if n > len(p) {
		n = len(p)
	}
	if n > len(r.b) {
		n = len(r.b)
	}
	copy(p, r.b[:n])
	r.b = r.b[n:]
	return n, nil
}

func readLines(path string, fn func([]byte) error) error {
	f, err := os.Open(path)
	if err != nil {
		return err
	}
	defer f.Close()
	sc := bufio.NewScanner(f)
	sc.Buffer(make([]byte, 1<<20), 1<<24)
	for sc.Scan() {
		if err := fn(sc.Bytes()); err != nil {
			return err
		}
	}
	return sc.Err()
}

// Codec drives the wire codecs and the length-prefixed stream (C20).
func Codec(c *Ctx) error {
	gen := os.Getenv("VERIF_GEN_DIR")
	if gen == "" {
		return fmt.Errorf("VERIF_GEN_DIR not set (TLC-generated class and token files)")
	}
	c.Stats.Rule = "Round: one case per TLC-enumerated value-class vector (4 codec directions); Decode: one case per TLC-enumerated token string and target message (both decoders, panic and allocation monitor); Frames: one case per (message sequence, fragmentation); non-trivial = every case (each is a distinct enumerated input)"
	// 1. value classes through all four codec directions
	for _, which := range []string{"stat", "packet"} {
		err := readLines(filepath.Join(gen, which+"classes.ndjson"), func(ln []byte) error {
			var cls map[string]string
			if err := json.Unmarshal(ln, &cls); err != nil {
				return err
			}
			var res [4]bool
			var note string
			if which == "stat" {
				res, note = roundTrip(statFromClass(cls), func() vtMsg { return &types.Stat{} })
			} else {
				res, note = roundTrip(packetFromClass(cls), func() vtMsg { return &types.Packet{} })
			}
			var st *types.Stat
			if which == "stat" {
				st = statFromClass(cls)
			} else {
				st = packetFromClass(cls).Stat
			}
			bad := false
			if st != nil {
				bad = !utf8.ValidString(st.Path) || !utf8.ValidString(st.Linkname)
				for k := range st.Xattrs {
					bad = bad || !utf8.ValidString(k)
				}
			}
			c.Out.Emit(vt.Ev{"ev": "Round", "case": c.NextCase(), "msg": which, "class": cls, "vtvt": res[0], "vtpb": res[1], "pbvt": res[2], "pbpb": res[3], "note": note,
				"nonUTF8": bad})
			c.Stats.Case("round:"+which+string(ln), true)
			c.Stats.Count("round:"+which, 1)
			return nil
		})
		if err != nil {
			return err
		}
	}
	// 2. token grammar and nested length cases, decoded in a child process (address-space limit, restart after a crash:
	// a decoder that allocates what a hostile length claims takes the process down, not just the call)
	if err := runDecodeCases(c, gen); err != nil {
		return err
	}
	// 2c. several streams receiving at the same time in one process (they share the package's buffer pool): every
	// stream must read back exactly its own messages
	{
		const streams, msgs = 6, 1500
		bad := make([]int, streams)
		var wg sync.WaitGroup
		for s := 0; s < streams; s++ {
			wg.Add(1)
			go func(s int) {
				defer wg.Done()
				var hbuf bytes.Buffer
				for k := 0; k < msgs; k++ {
					p := &types.Packet{Type: types.PACKET_DATA, ID: uint32(s*100000 + k), Data: bytes.Repeat([]byte{byte(s*37 + k)}, 20000+(k%7)*1000)}
					b, _ := p.MarshalVT()
					var h [4]byte
					binary.BigEndian.PutUint32(h[:], uint32(len(b)))
					hbuf.Write(h[:])
					hbuf.Write(b)
				}
				rs := util.NewProtoStream(context.Background(), &fragReader{b: hbuf.Bytes(), sizes: []int{1 << 20}}, nil)
				for k := 0; k < msgs; k++ {
					p := &types.Packet{}
					if err := rs.RecvMsg(p); err != nil {
						bad[s]++
						return
					}
					want := byte(s*37 + k)
					if p.ID != uint32(s*100000+k) || len(p.Data) != 20000+(k%7)*1000 || p.Data[0] != want || p.Data[len(p.Data)-1] != want || p.Data[len(p.Data)/2] != want {
						bad[s]++
					}
				}
			}(s)
		}
		wg.Wait()
		total := 0
		for _, n := range bad {
			total += n
		}
		c.Out.Emit(vt.Ev{"ev": "Concurrent", "case": c.NextCase(), "streams": streams, "messages": msgs, "mismatches": total})
		c.Stats.Case("concurrentStreams", true)
	}
	// 3. framing: message sequences through util.NewProtoStream under fragmentations
	mk := func(n int, seed byte) *types.Packet {
		return &types.Packet{Type: types.PACKET_DATA, ID: uint32(n), Data: bytes.Repeat([]byte{seed}, n)}
	}
	seqs := [][]*types.Packet{
		{mk(5, 1), mk(7, 2), mk(3, 3)},
		{{}, mk(10, 4), {}, {}},                                   // empty packets (zero-length frames)
		{mk(40000, 5), mk(9, 6), mk(33000, 7), mk(1, 8)},          // larger than the pooled 32 KiB buffer
		{mk(32764, 9), mk(32768-8, 10), mk(100, 11), mk(100, 12)}, // around the pool buffer size
		{{Type: types.PACKET_STAT, Stat: statFromClass(map[string]string{"path": "ascii", "xattrs": "many", "mode": "reg"})}, mk(2, 13), {Type: types.PACKET_FIN}},
	}
	{
		// every encoded size around the pooled 32 KiB buffer (body fits / header + body does not / neither)
		var sweep []*types.Packet
		for n := 32744; n <= 32776; n++ {
			sweep = append(sweep, mk(n, byte(n)))
		}
		// first: the shared buffer pool must still hold only buffers of its native size
		seqs = append([][]*types.Packet{sweep}, seqs...)
	}
	frags := [][]int{{1}, {2}, {3}, {5}, {7}, {4}, {1 << 20}, {3, 1, 4, 1, 5, 9, 2, 6}, {4096}, {32768}, {1, 1 << 20}}
	if c.Thorough() {
		for i := 0; i < 40; i++ {
			var f []int
			for k := 0; k < 1+c.Rand.Intn(6); k++ {
				f = append(f, 1+c.Rand.Intn([]int{3, 9, 70, 40000}[c.Rand.Intn(4)]))
			}
			frags = append(frags, f)
		}
	}
	for si, seq := range seqs {
		// (a) written by SendMsg
		var wbuf bytes.Buffer
		sendPanic := ""
		func() {
			defer func() {
				if r := recover(); r != nil {
					sendPanic = trunc(fmt.Sprint(r))
				}
			}()
			ws := util.NewProtoStream(context.Background(), nil, &wbuf)
			for _, p := range seq {
				if err := ws.SendMsg(p); err != nil {
					sendPanic = "error: " + err.Error()
					return
				}
			}
		}()
		// (b) hand-made frames (independent of SendMsg): 4-byte big-endian length + encoding
		var hbuf bytes.Buffer
		want := []vt.Ev{}
		for _, p := range seq {
			b, _ := p.MarshalVT()
			var h [4]byte
			binary.BigEndian.PutUint32(h[:], uint32(len(b)))
			hbuf.Write(h[:])
			hbuf.Write(b)
			want = append(want, vt.Ev{"len": len(b), "h": packetID(p)})
		}
		c.Out.Emit(vt.Ev{"ev": "Written", "case": c.NextCase(), "seq": si, "sendPanic": sendPanic != "", "note": sendPanic,
			"sameBytes": sendPanic == "" && framesEqual(wbuf.Bytes(), hbuf.Bytes())})
		c.Stats.Case(fmt.Sprint("written:", si), true)
		for fi, fr := range frags {
			rs := util.NewProtoStream(context.Background(), &fragReader{b: append([]byte{}, hbuf.Bytes()...), sizes: fr}, nil)
			var gotPk []*types.Packet
			got := []vt.Ev{}
			errText := ""
			panicked := false
			func() {
				defer func() {
					if r := recover(); r != nil {
						panicked = true
						errText = trunc(fmt.Sprint(r))
					}
				}()
				for range seq {
					p := &types.Packet{}
					if err := rs.RecvMsg(p); err != nil {
						errText = err.Error()
						return
					}
					gotPk = append(gotPk, p)
					got = append(got, vt.Ev{"len": p.SizeVT(), "h": packetID(p)})
				}
			}()
			// re-check every packet after all later reads (aliasing of the receive buffer)
			recheck := []bool{}
			for i, p := range gotPk {
				recheck = append(recheck, packetID(p) == got[i]["h"])
			}
			c.Out.Emit(vt.Ev{"ev": "Frames", "case": c.NextCase(), "seq": si, "frag": fr, "want": want, "got": got, "recheck": recheck,
				"err": errText != "", "errText": errText, "panic": panicked})
			c.Stats.Case(fmt.Sprint("frames:", si, fi), true)
			c.Stats.Count("frames", 1)
			if si == 1 && fi < 2 {
				c.Stats.Sample(vt.Ev{"messages": len(seq), "fragmentSizes": fr, "delivered": len(got), "err": errText})
			}
		}
	}
	return nil
}

// framesEqual: both byte streams are sequences of 4-byte big-endian length + packet encoding that decode to the same packets
func framesEqual(a, b []byte) bool {
	dec := func(x []byte) ([]string, bool) {
		var out []string
		for len(x) > 0 {
			if len(x) < 4 {
				return nil, false
			}
			n := int(binary.BigEndian.Uint32(x[:4]))
			if len(x) < 4+n {
				return nil, false
			}
			p := &types.Packet{}
			if n > 0 {
				if err := p.UnmarshalVT(x[4 : 4+n]); err != nil {
					return nil, false
				}
			}
			out = append(out, packetID(p))
			x = x[4+n:]
		}
		return out, true
	}
	pa, ok1 := dec(a)
	pb, ok2 := dec(b)
	if !ok1 || !ok2 || len(pa) != len(pb) {
		return false
	}
	for i := range pa {
		if pa[i] != pb[i] {
			return false
		}
	}
	return true
}

// ---------------------------------------------------------------------------
// decode cases in a crash-isolated child

type decodeCase struct {
	Tokens []string
	Cut    bool
	Target string
	B      []byte
	Nested bool
}

// decodeCases enumerates the decode inputs in a fixed order: token strings (TLC files tokens<L>.ndjson),
// each whole and cut inside the last token, then the nested length vectors (nested.ndjson); both targets.
func decodeCases(gen string, yield func(dc decodeCase) error) error {
	for L := 1; L <= 5; L++ {
		path := filepath.Join(gen, fmt.Sprintf("tokens%d.ndjson", L))
		if _, err := os.Stat(path); err != nil {
			break
		}
		err := readLines(path, func(ln []byte) error {
			var t struct {
				T []string `json:"t"`
			}
			if err := json.Unmarshal(ln, &t); err != nil {
				return err
			}
			full := tokenBytes(t.T)
			variants := [][]byte{full}
			if len(full) > 1 {
				variants = append(variants, full[:len(full)-1]) // cut inside the last token
			}
			for vi, b := range variants {
				for _, target := range []string{"Packet", "Stat"} {
					if err := yield(decodeCase{Tokens: t.T, Cut: vi == 1, Target: target, B: b}); err != nil {
						return err
					}
				}
			}
			return nil
		})
		if err != nil {
			return err
		}
	}
	if _, err := os.Stat(filepath.Join(gen, "nested.ndjson")); err == nil {
		return readLines(filepath.Join(gen, "nested.ndjson"), func(ln []byte) error {
			var v map[string]string
			if err := json.Unmarshal(ln, &v); err != nil {
				return err
			}
			b, target, ok := nestedBytes(v)
			if !ok {
				return nil
			}
			return yield(decodeCase{Tokens: []string{v["pos"], v["claim"], "tail" + v["tail"], v["wrap"]}, Target: target, B: b, Nested: true})
		})
	}
	return nil
}

func init() { childRoles["decode-child"] = decodeChild }

// decodeChild <gen> <out> <start>: decodes case start, start+1, ... and appends one line per case to <out>.
func decodeChild(args []string) {
	gen, out := args[0], args[1]
	start := 0
	fmt.Sscan(args[2], &start)
	// hostile lengths must fail as allocation errors, not bring the machine down
	lim := syscall.Rlimit{Cur: 6 << 30, Max: 6 << 30}
	syscall.Setrlimit(syscall.RLIMIT_AS, &lim)
	f, err := os.OpenFile(out, os.O_CREATE|os.O_APPEND|os.O_WRONLY, 0644)
	if err != nil {
		os.Exit(2)
	}
	idx := 0
	err = decodeCases(gen, func(dc decodeCase) error {
		idx++
		if idx-1 < start {
			return nil
		}
		var a, bb vtMsg
		if dc.Target == "Packet" {
			a, bb = &types.Packet{}, &types.Packet{}
		} else {
			a, bb = &types.Stat{}, &types.Stat{}
		}
		var m0, m1 runtime.MemStats
		runtime.ReadMemStats(&m0)
		o1 := decodeOutcome(func() error { return a.UnmarshalVT(dc.B) })
		o2 := decodeOutcome(func() error { return proto.Unmarshal(dc.B, bb) })
		runtime.ReadMemStats(&m1)
		alloc := m1.TotalAlloc - m0.TotalAlloc
		agree := !(o1 == "value" && o2 == "value") || proto.Equal(a, bb)
		ln, _ := json.Marshal(vt.Ev{"idx": idx - 1, "vt": o1, "pb": o2, "allocOK": alloc <= uint64(8*len(dc.B)+128*1024), "alloc": int(alloc), "agree": agree})
		if _, err := f.Write(append(ln, '\n')); err != nil {
			return err
		}
		return nil
	})
	f.Close()
	if err != nil {
		fmt.Fprintln(os.Stderr, "decode child:", err)
		os.Exit(2)
	}
	os.Exit(0)
}

func runDecodeCases(c *Ctx, gen string) error {
	self, err := os.Executable()
	if err != nil {
		return err
	}
	dir := filepath.Join(c.Work, "decode")
	os.MkdirAll(dir, 0755)
	defer disk.RemoveAll(dir)
	out := filepath.Join(dir, "results.ndjson")
	countLines := func() int {
		n := 0
		readLines(out, func([]byte) error { n++; return nil })
		return n
	}
	crashes := map[int]string{}
	for restarts := 0; ; restarts++ {
		done := countLines()
		cmd := exec.Command(self, "decode-child", gen, out, fmt.Sprint(done))
		var stderr bytes.Buffer
		cmd.Stderr = &stderr
		runErr := cmd.Run()
		if runErr == nil {
			break
		}
		if restarts > 40 {
			return fmt.Errorf("decode child crashed more than 40 times: %v", runErr)
		}
		// the case in flight took the process down: record it and carry on after it
		at := countLines()
		msg := stderr.String()
		if k := strings.Index(msg, "\n"); k > 0 {
			msg = msg[:k]
		}
		crashes[at] = trunc(msg)
		f, err := os.OpenFile(out, os.O_APPEND|os.O_WRONLY, 0644)
		if err != nil {
			return err
		}
		ln, _ := json.Marshal(vt.Ev{"idx": at, "vt": "panic", "pb": "panic", "allocOK": false, "alloc": -1, "agree": false, "crash": trunc(msg)})
		f.Write(append(ln, '\n'))
		f.Close()
	}
	// join results with the (re-enumerated) inputs
	var results []vt.Ev
	if err := readLines(out, func(ln []byte) error {
		var e vt.Ev
		if err := json.Unmarshal(ln, &e); err != nil {
			return err
		}
		results = append(results, e)
		return nil
	}); err != nil {
		return err
	}
	idx := 0
	err = decodeCases(gen, func(dc decodeCase) error {
		if idx >= len(results) {
			return fmt.Errorf("decode results end at %d", idx)
		}
		r := results[idx]
		idx++
		ev := vt.Ev{"ev": "Decode", "case": c.NextCase(), "tokens": dc.Tokens, "cut": dc.Cut, "target": dc.Target, "vt": r["vt"], "pb": r["pb"],
			"allocOK": r["allocOK"], "alloc": r["alloc"], "agree": r["agree"]}
		if cr, ok := r["crash"]; ok {
			ev["crash"] = cr
			c.Stats.Count("decode:childCrashed", 1)
		}
		c.Out.Emit(ev)
		o1, _ := r["vt"].(string)
		o2, _ := r["pb"].(string)
		if dc.Nested {
			c.Stats.Case(fmt.Sprint("nested:", dc.Tokens, dc.Target), true)
			c.Stats.Count("decode:nested:vt:"+o1, 1)
		} else {
			c.Stats.Case(fmt.Sprint("decode:", dc.Target, dc.Cut, dc.Tokens), true)
			c.Stats.Count("decode:vt:"+o1, 1)
		}
		if ag, _ := r["agree"].(bool); !ag || o1 != o2 {
			c.Stats.Count("decode:codecsDisagree", 1)
		}
		return nil
	})
	if err != nil {
		return err
	}
	if idx != len(results) {
		return fmt.Errorf("decode child produced %d results for %d cases", len(results), idx)
	}
	return nil
}
