package drivers

import (
	"bytes"
	"context"
	"fmt"
	"os"
	"os/exec"
	"os/signal"
	"path/filepath"
	"sync/atomic"
	"syscall"
	"time"
	"verif/harness/model"

	"github.com/tonistiigi/fsutil"
	"github.com/tonistiigi/fsutil/types"
	"github.com/tonistiigi/fsutil/util"
	"verif/harness/disk"
	"verif/harness/vt"
)

func init() {
	childRoles["recv-child"] = recvChild
	childRoles["recv-child-fsize"] = recvChildFsize
}

// recvChildFsize: a metadata-only receiver (nothing selected: the listing is the only file it writes) in a process whose
// file-size limit is args[1] bytes; SIGXFSZ is ignored so that the write fails with EFBIG.  Exit status 0 = Receive succeeded.
func recvChildFsize(args []string) {
	var lim uint64
	fmt.Sscan(args[1], &lim)
	signal.Ignore(syscall.SIGXFSZ)
	rl := syscall.Rlimit{Cur: lim, Max: lim}
	if err := syscall.Setrlimit(syscall.RLIMIT_FSIZE, &rl); err != nil {
		fmt.Fprintln(os.Stderr, "setrlimit:", err)
		os.Exit(3)
	}
	ctx := context.Background()
	s := util.NewProtoStream(ctx, os.Stdin, os.Stdout)
	err := fsutil.Receive(ctx, s, args[0], fsutil.ReceiveOpt{MetadataOnly: func(string, *types.Stat) bool { return false }})
	if err != nil {
		fmt.Fprintln(os.Stderr, "receive:", err)
		os.Exit(1)
	}
}

// runListingFault: real Send against recv-child-fsize; the listing of the view does not fit the limit.  One event.
func runListingFault(c *Ctx, caseNo int, src model.Tree, limit int) (vt.Ev, error) {
	base := filepath.Join(c.Work, fmt.Sprintf("lcase%d", caseNo))
	srcDir, dst := filepath.Join(base, "src"), filepath.Join(base, "dst")
	defer disk.RemoveAll(base)
	for _, d := range []string{srcDir, dst} {
		if err := os.MkdirAll(d, 0755); err != nil {
			return nil, err
		}
	}
	if err := disk.Materialise(srcDir, src); err != nil {
		return nil, err
	}
	self, err := os.Executable()
	if err != nil {
		return nil, err
	}
	cmd := exec.Command(self, "recv-child-fsize", dst, fmt.Sprint(limit))
	toChild, err := cmd.StdinPipe()
	if err != nil {
		return nil, err
	}
	fromChild, err := cmd.StdoutPipe()
	if err != nil {
		return nil, err
	}
	var stderr bytes.Buffer
	cmd.Stderr = &stderr
	if err := cmd.Start(); err != nil {
		return nil, err
	}
	ctx, cancel := context.WithCancel(context.Background())
	defer cancel()
	fs, err := fsutil.NewFS(srcDir)
	if err != nil {
		return nil, err
	}
	done := make(chan error, 1)
	go func() {
		err := fsutil.Send(ctx, util.NewProtoStream(ctx, fromChild, toChild), fs, nil)
		toChild.Close() // the sender's end of the stream goes away once Send has returned
		done <- err
	}()
	waitErr := make(chan error, 1)
	go func() { waitErr <- cmd.Wait() }()
	recvOK, childReturned := false, false
	select {
	case err := <-waitErr:
		childReturned = true
		recvOK = err == nil
	case <-time.After(20 * time.Second):
		cmd.Process.Kill()
	}
	toChild.Close()
	cancel()
	select {
	case <-done:
	case <-time.After(5 * time.Second):
	}
	present, framingOK, recs := decodeListing(filepath.Join(dst, listingName))
	return vt.Ev{"ev": "ListingFault", "case": caseNo, "limit": limit, "entries": len(src), "recvOK": recvOK, "childReturned": childReturned,
		"listingPresent": present, "listingComplete": present && framingOK && len(recs) == len(src), "childErr": trunc(stderr.String())}, nil
}

// recvChild: the receiving PROCESS.  args: <dest>.  Speaks the length-prefixed stream of
// util.NewProtoStream on stdin/stdout.
func recvChild(args []string) {
	ctx := context.Background()
	s := util.NewProtoStream(ctx, os.Stdin, os.Stdout)
	if err := fsutil.Receive(ctx, s, args[0], fsutil.ReceiveOpt{}); err != nil {
		fmt.Fprintln(os.Stderr, "receive:", err)
		os.Exit(1)
	}
}

// killStream counts the sender's SendMsg calls and kills the peer process at call k.
type killStream struct {
	fsutil.Stream
	n       int32
	killAt  int32
	cmd     *exec.Cmd
	killed  int32
	finSeen int32
	onKill  func()
}

func (k *killStream) SendMsg(m interface{}) error {
	n := atomic.AddInt32(&k.n, 1) - 1
	if n == k.killAt && atomic.CompareAndSwapInt32(&k.killed, 0, 1) {
		k.cmd.Process.Kill()
		k.onKill()
	}
	return k.Stream.SendMsg(m)
}

func (k *killStream) RecvMsg(m interface{}) error {
	err := k.Stream.RecvMsg(m)
	if err == nil {
		if p, ok := m.(*types.Packet); ok && p.Type == types.PACKET_FIN {
			atomic.StoreInt32(&k.finSeen, 1)
		}
	}
	return err
}

// runKill: real Send in this process against a real Receive in a child process that is
// SIGKILLed when the sender issues its k-th SendMsg.  Emits one Killed event (case caseNo)
// and the events of a fault-free follow-up transfer into the leftovers (case caseNo+1).
func runKill(c *Ctx, caseNo int, in faultInput, srcDir string) ([]vt.Ev, int, bool, error) {
	base := filepath.Join(c.Work, fmt.Sprintf("kcase%d", caseNo))
	dst := filepath.Join(base, "dst")
	defer disk.RemoveAll(base)
	if err := os.MkdirAll(dst, 0755); err != nil {
		return nil, 0, false, err
	}
	if err := disk.Materialise(dst, in.Dst); err != nil {
		return nil, 0, false, err
	}
	before, err := disk.Snapshot(dst, false)
	if err != nil {
		return nil, 0, false, err
	}
	self, err := os.Executable()
	if err != nil {
		return nil, 0, false, err
	}
	cmd := exec.Command(self, "recv-child", dst)
	toChild, err := cmd.StdinPipe()
	if err != nil {
		return nil, 0, false, err
	}
	fromChild, err := cmd.StdoutPipe()
	if err != nil {
		return nil, 0, false, err
	}
	if err := cmd.Start(); err != nil {
		return nil, 0, false, err
	}
	ctx, cancel := context.WithCancel(context.Background())
	defer cancel()
	ks := &killStream{Stream: util.NewProtoStream(ctx, fromChild, toChild), killAt: int32(in.K), cmd: cmd}
	killedAt := time.Time{}
	ks.onKill = func() { killedAt = time.Now() }
	src, err := fsutil.NewFS(srcDir)
	if err != nil {
		return nil, 0, false, err
	}
	done := make(chan error, 1)
	go func() { done <- fsutil.Send(ctx, ks, src, nil) }()
	var sendErr error
	returned, hang := false, false
	var frames []string
	select {
	case sendErr = <-done:
		returned = true
	case <-time.After(8 * time.Second):
		// the peer process is gone (its pipe ends are closed by the kernel): Send must have returned
		g1 := fsutilGoroutines()
		time.Sleep(1500 * time.Millisecond)
		g2 := fsutilGoroutines()
		for id, st := range g2 {
			if _, ok := g1[id]; ok {
				frames = append(frames, topFrames(st))
				leakSeen.Store(id, true)
			}
		}
		hang = true
		toChild.Close()
		fromChild.Close()
	}
	if frames == nil {
		frames = []string{}
	}
	toChild.Close()
	cmd.Wait()
	after, err := disk.Snapshot(dst, false)
	if err != nil {
		return nil, 0, false, err
	}
	killed := atomic.LoadInt32(&ks.killed) == 1
	ev := vt.Ev{"ev": "Killed", "case": caseNo, "k": in.K, "killed": killed, "sendReturned": returned, "sendOK": returned && sendErr == nil,
		"finSeenBySender": atomic.LoadInt32(&ks.finSeen) == 1, "hang": hang, "frames": frames, "before": before.Ev(), "after": after.Ev(),
		"origin": in.Scenario + "/kill", "input": vt.Opaque(in), "sends": int(atomic.LoadInt32(&ks.n))}
	if sendErr != nil {
		ev["err"] = trunc(sendErr.Error())
	}
	_ = killedAt
	evs := []vt.Ev{ev}
	if !hang {
		res2, err := RunSync(caseNo+1, srcDir, dst, SyncOpts{Mode: "dirty", Differ: "metadata", CapS2R: 8, CapR2S: 8,
			Timeout: 2500 * time.Millisecond,
			Extra:   vt.Ev{"input": vt.Opaque(in), "origin": in.Scenario + "/kill/followup", "followUp": true}})
		if err != nil {
			return nil, 0, false, err
		}
		evs = append(evs, res2.Events...)
	}
	return evs, int(atomic.LoadInt32(&ks.n)), hang, nil
}
