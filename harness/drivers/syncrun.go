package drivers

import (
	"bytes"
	"context"
	"crypto/sha256"
	"encoding/binary"
	"encoding/hex"
	"errors"
	"fmt"
	"hash"
	"os"
	"path/filepath"
	"regexp"
	"runtime"
	"strings"
	"sync"
	"time"

	"github.com/opencontainers/go-digest"
	"github.com/tonistiigi/fsutil"
	"github.com/tonistiigi/fsutil/types"
	"verif/harness/disk"
	"verif/harness/hstream"
	"verif/harness/model"
	"verif/harness/vt"
)

// recHash is the transparent ContentHasher: its Sum encodes which header it
// was created for and exactly which bytes were fed to it.
type recHash struct {
	hdr      [8]byte
	n        uint64
	h        hash.Hash
	sumDelay time.Duration
}

func statHash(st *types.Stat) [8]byte {
	var out [8]byte
	b, _ := hex.DecodeString(hstream.StatHash(st))
	copy(out[:], b)
	return out
}

func newRecHash(st *types.Stat) *recHash {
	return &recHash{hdr: statHash(st), h: sha256.New()}
}
func (r *recHash) Write(p []byte) (int, error) { r.n += uint64(len(p)); return r.h.Write(p) }
func (r *recHash) Sum(b []byte) []byte {
	if r.sumDelay > 0 {
		time.Sleep(r.sumDelay) // a content hash whose finalisation takes time (large tree hashes, remote digests)
	}
	out := append(b, r.hdr[:]...)
	var n [8]byte
	binary.BigEndian.PutUint64(n[:], r.n)
	out = append(out, n[:]...)
	return append(out, r.h.Sum(nil)[:8]...)
}
func (r *recHash) Reset()         { r.n = 0; r.h.Reset() }
func (r *recHash) Size() int      { return 24 }
func (r *recHash) BlockSize() int { return 64 }

// decodeDigest splits a recorder digest into (header id, content id).
func decodeDigest(d digest.Digest) (string, string, bool) {
	// an empty or malformed digest (e.g. taken before the writer was closed) is an observation, not a crash
	str := string(d)
	i := strings.IndexByte(str, ':')
	if i < 0 {
		return "", "", false
	}
	raw, err := hex.DecodeString(str[i+1:])
	if err != nil || len(raw) != 24 {
		return "", "", false
	}
	n := binary.BigEndian.Uint64(raw[8:16])
	return hex.EncodeToString(raw[:8]), hex.EncodeToString(raw[16:24]) + ":" + fmt.Sprint(n), true
}

type SyncOpts struct {
	Mode                                  string // fresh | dirty | merge
	Differ                                string // metadata | none
	CapS2R                                int
	CapR2S                                int
	Filter                                fsutil.FilterFunc
	SrcFS                                 fsutil.FS                        // nil: fsutil.NewFS(srcDir)
	Content                               func(path string) ([]byte, bool) // bytes the view's Open yields for path
	SFaults                               []hstream.Fault
	RFaults                               []hstream.Fault
	Setup                                 func(conn *hstream.Conn, cancelS, cancelR context.CancelFunc) // extra fault wiring
	SetupCallOnly                         func(conn *hstream.Conn, cancelS, cancelR context.CancelFunc)
	Unpriv                                bool          // run both calls without CAP_DAC_OVERRIDE
	Unreadable                            []string      // source directories that cannot be listed while the calls run
	SumDelay                              time.Duration // the content hasher finalises this slowly
	HasherErrAt, NotifyErrAt, FilterErrAt int           // 1-based call index, 0 = never
	Gate                                  func(ep, op string, k int)
	Quiet                                 bool
	Timeout                               time.Duration
	MetadataOnly                          fsutil.FilterFunc
	RealS, RealR                          bool
	Extra                                 vt.Ev // extra fields for the Begin event
	NoProgress                            bool
	// PuppetS / PuppetR replace the real call on that side by a reference peer
	PuppetS func(conn *hstream.Conn) error
	PuppetR func(conn *hstream.Conn) error
	// CbDelay: a faulting callback blocks this long before returning its error
	CbDelay time.Duration
}

type SyncResult struct {
	Events                   []vt.Ev
	SOK, ROK                 bool
	SErr, RErr               string
	Hung                     []string
	Quiesced                 bool
	HasherCalls, NotifyCalls int
	After                    model.Tree
	Conn                     *hstream.Conn
}

var errUnprivUnsupported = errors.New("capability drop unsupported in this build")

var leakSeen sync.Map

var goidRe = regexp.MustCompile(`^goroutine (\d+) `)

// fsutilGoroutines returns the stacks of goroutines that have fsutil frames
// (harness frames alone do not count), keyed by goroutine id.
func fsutilGoroutines() map[string]string {
	buf := make([]byte, 1<<22)
	n := runtime.Stack(buf, true)
	out := map[string]string{}
	for _, g := range strings.Split(string(buf[:n]), "\n\n") {
		if !strings.Contains(g, "github.com/tonistiigi/fsutil.") && !strings.Contains(g, "github.com/tonistiigi/fsutil/") {
			continue
		}
		// only count goroutines that are inside fsutil code (not merely created by it)
		lines := strings.Split(g, "\n")
		inside := false
		for _, l := range lines[1:] {
			if strings.HasPrefix(l, "created by") {
				break
			}
			if strings.HasPrefix(l, "github.com/tonistiigi/fsutil") {
				inside = true
			}
		}
		if !inside {
			continue
		}
		m := goidRe.FindStringSubmatch(lines[0])
		if m == nil {
			continue
		}
		out[m[1]] = g
	}
	return out
}

func topFrames(stack string) string {
	var fr []string
	for _, l := range strings.Split(stack, "\n")[1:] {
		if strings.HasPrefix(l, "\t") || strings.HasPrefix(l, "created by") {
			continue
		}
		if i := strings.LastIndex(l, "("); i > 0 {
			l = l[:i]
		}
		fr = append(fr, l)
		if len(fr) == 6 {
			break
		}
	}
	return strings.Join(fr, " < ")
}

// RunSync runs the real Send and the real Receive against each other.
func RunSync(caseNo int, srcDir, dstDir string, o SyncOpts) (*SyncResult, error) {
	if o.Timeout == 0 {
		o.Timeout = 6 * time.Second
	}
	if o.Differ == "" {
		o.Differ = "metadata"
	}
	before, err := disk.Snapshot(dstDir, false)
	if err != nil {
		return nil, err
	}
	ctx := context.Background()
	conn := hstream.New(ctx, o.CapS2R, o.CapR2S)
	conn.Quiet = o.Quiet
	conn.S.Faults, conn.R.Faults = o.SFaults, o.RFaults
	if o.Gate != nil {
		conn.S.Gate = func(op string, k int) { o.Gate("S", op, k) }
		conn.R.Gate = func(op string, k int) { o.Gate("R", op, k) }
	}
	src := o.SrcFS
	if src == nil && o.PuppetS == nil {
		src, err = fsutil.NewFS(srcDir)
		if err != nil {
			return nil, err
		}
	}
	content := o.Content
	if content == nil {
		content = func(p string) ([]byte, bool) {
			fp := filepath.Join(srcDir, filepath.FromSlash(p))
			if fi, err := os.Lstat(fp); err != nil || !fi.Mode().IsRegular() {
				return nil, false
			}
			b, err := os.ReadFile(fp)
			return b, err == nil
		}
	}
	conn.Content = func(id uint32, path string) ([]byte, bool) { return content(path) }

	begin := vt.Ev{"ev": "Begin", "case": caseNo, "mode": o.Mode, "differ": o.Differ,
		"realS": o.PuppetS == nil, "realR": o.PuppetR == nil, "before": before.Ev(), "metaOnly": o.MetadataOnly != nil}
	for k, v := range o.Extra {
		begin[k] = v
	}

	sctx, scancel := context.WithCancel(ctx)
	rctx, rcancel := context.WithCancel(ctx)
	defer scancel()
	defer rcancel()
	if o.Setup != nil {
		o.Setup(conn, func() { scancel(); conn.S.Cancel() }, func() { rcancel(); conn.R.Cancel() })
	}
	if o.SetupCallOnly != nil {
		// cancellation of the context handed to the call only; the stream does not observe it
		o.SetupCallOnly(conn, scancel, rcancel)
	}

	var hasherN, notifyN, filterN int
	var cbMu sync.Mutex
	ropt := fsutil.ReceiveOpt{
		Merge:        o.Mode == "merge",
		MetadataOnly: o.MetadataOnly,
		ContentHasher: func(st *types.Stat) (hash.Hash, error) {
			cbMu.Lock()
			hasherN++
			n := hasherN
			cbMu.Unlock()
			if o.HasherErrAt != 0 && n == o.HasherErrAt {
				conn.Log(vt.Ev{"ev": "Fault", "ep": "R", "op": "hasher", "k": n})
				time.Sleep(o.CbDelay)
				return nil, fmt.Errorf("injected hasher error")
			}
			h := newRecHash(st)
			h.sumDelay = o.SumDelay
			return h, nil
		},
		NotifyHashed: func(kind fsutil.ChangeKind, p string, fi os.FileInfo, err error) error {
			cbMu.Lock()
			notifyN++
			n := notifyN
			cbMu.Unlock()
			ev := vt.Ev{"ev": "Notify", "kind": kind.String(), "p": vt.P(filepath.ToSlash(p))}
			if fi != nil {
				if dg, ok := fi.(interface{ Digest() digest.Digest }); ok {
					h, b, ok2 := decodeDigest(dg.Digest())
					ev["hdr"], ev["bytes"], ev["dgOK"] = h, b, ok2
				} else {
					ev["hdr"], ev["bytes"], ev["dgOK"] = "", "", false
				}
				if st, ok := fi.Sys().(*types.Stat); ok {
					ev["sh"] = hex.EncodeToString(func() []byte { x := statHash(st); return x[:] }())
				} else {
					ev["sh"] = ""
				}
			} else {
				ev["hdr"], ev["bytes"], ev["dgOK"], ev["sh"] = "", "", true, ""
			}
			conn.Log(ev)
			if o.NotifyErrAt != 0 && n == o.NotifyErrAt {
				conn.Log(vt.Ev{"ev": "Fault", "ep": "R", "op": "notify", "k": n})
				time.Sleep(o.CbDelay)
				return fmt.Errorf("injected notify error")
			}
			return nil
		},
	}
	if o.Differ == "none" {
		ropt.Differ = fsutil.DiffNone
	}
	if o.Filter != nil || o.FilterErrAt != 0 {
		ropt.Filter = func(p string, st *types.Stat) bool {
			cbMu.Lock()
			filterN++
			cbMu.Unlock()
			if o.Filter != nil {
				return o.Filter(p, st)
			}
			return true
		}
	}
	if !o.NoProgress {
		ropt.ProgressCb = func(v int, last bool) {
			if last {
				conn.Log(vt.Ev{"ev": "Progress", "side": "R", "v": v, "last": last})
			}
		}
	}
	var sprog func(int, bool)
	if !o.NoProgress {
		sprog = func(v int, last bool) {
			if !o.Quiet || last {
				conn.Log(vt.Ev{"ev": "Progress", "side": "S", "v": v, "last": last})
			}
		}
	}

	res := &SyncResult{Conn: conn}
	if o.Unpriv {
		// the calls run without CAP_DAC_OVERRIDE (an unprivileged owner of both trees)
		if err := setDacOverride(false); err != nil {
			return nil, errUnprivUnsupported
		}
		defer setDacOverride(true)
	}
	if len(o.Unreadable) > 0 {
		// directories the sender may not list: mode 0000 and neither CAP_DAC_OVERRIDE nor CAP_DAC_READ_SEARCH while the calls run
		for _, u := range o.Unreadable {
			os.Chmod(filepath.Join(srcDir, u), 0)
		}
		if err := setReadCaps(false); err != nil {
			return nil, errUnprivUnsupported
		}
		defer func() {
			setReadCaps(true)
			for _, u := range o.Unreadable {
				os.Chmod(filepath.Join(srcDir, u), 0755)
			}
		}()
	}
	sDone, rDone := make(chan struct{}), make(chan struct{})
	go func() {
		defer close(sDone)
		var err error
		if o.PuppetS != nil {
			err = o.PuppetS(conn)
		} else {
			err = fsutil.Send(sctx, conn.S, src, sprog)
		}
		res.SOK = err == nil
		if err != nil {
			res.SErr = err.Error()
		}
		conn.Log(vt.Ev{"ev": "Return", "side": "S", "ok": err == nil, "err": trunc(res.SErr)})
		conn.S.TearDown()
	}()
	go func() {
		defer close(rDone)
		var err error
		if o.PuppetR != nil {
			err = o.PuppetR(conn)
		} else {
			err = fsutil.Receive(rctx, conn.R, dstDir, ropt)
		}
		res.ROK = err == nil
		if err != nil {
			res.RErr = err.Error()
		}
		conn.Log(vt.Ev{"ev": "Return", "side": "R", "ok": err == nil, "err": trunc(res.RErr)})
		conn.R.TearDown()
	}()
	// hang = some call has not returned and nothing happened on the stream for
	// o.Timeout; confirmed by two goroutine dumps.  A slow peer keeps producing
	// activity and is never a hang; an overall cap turns endless activity into
	// a Stall (inconclusive).
	timer := time.NewTicker(200 * time.Millisecond)
	defer timer.Stop()
	started := time.Now()
	quiesced := false
	sRet, rRet := false, false
	for !(sRet && rRet) {
		select {
		case <-sDone:
			sRet, sDone = true, nil
		case <-rDone:
			rRet, rDone = true, nil
		case <-timer.C:
			if time.Since(conn.LastActivity()) < o.Timeout && time.Since(started) < 40*o.Timeout {
				continue
			}
			if time.Since(conn.LastActivity()) < o.Timeout {
				conn.Log(vt.Ev{"ev": "Stall"})
			}
			if !quiesced {
				// nothing moves and a call has not returned: the environment now tears the
				// stream down (network loss + cancellation), which is the precondition under
				// which C04 demands termination; the calls get another full period to return
				quiesced = true
				res.Quiesced = true
				conn.Log(vt.Ev{"ev": "Quiesce", "sReturned": sRet, "rReturned": rRet})
				// the STREAM is torn down (both directions fail, its contexts are cancelled); the contexts handed to the
				// calls stay as they are: "once the stream is torn down" is all the calls may rely on
				conn.Break()
				conn.S.Cancel()
				conn.R.Cancel()
				conn.Log(vt.Ev{"ev": "EnvTearDown"})
				continue
			}
			// hang: confirm with two goroutine dumps
			g1 := fsutilGoroutines()
			time.Sleep(1500 * time.Millisecond)
			g2 := fsutilGoroutines()
			for id, st := range g2 {
				if _, ok := g1[id]; ok {
					res.Hung = append(res.Hung, topFrames(st))
				}
			}
			if res.Hung == nil {
				res.Hung = []string{}
			}
			if !sRet {
				conn.Log(vt.Ev{"ev": "Hang", "side": "S", "frames": res.Hung})
			}
			if !rRet {
				conn.Log(vt.Ev{"ev": "Hang", "side": "R", "frames": res.Hung})
			}
			// mark the stuck goroutines as seen so that later cases do not report them as leaks
			for id := range g2 {
				leakSeen.Store(id, true)
			}
			// give up on this case so that the process can go on
			scancel()
			rcancel()
			conn.S.TearDown()
			conn.R.TearDown()
			sRet, rRet = true, true
		}
	}
	// goroutine leak check: anything with fsutil frames still alive shortly after both returned
	if len(res.Hung) == 0 {
		var leaked []string
		for try := 0; try < 16; try++ { // ~2.7 s in all before anything is called a leak (a loaded machine ends goroutines late)
			leaked = leaked[:0]
			for id, st := range fsutilGoroutines() {
				if _, ok := leakSeen.Load(id); ok {
					continue
				}
				if strings.Contains(st, "drivers.RunSync") && !strings.Contains(st, "fsutil.Send") && !strings.Contains(st, "fsutil.Receive") {
					continue
				}
				leaked = append(leaked, id+": "+topFrames(st))
			}
			if len(leaked) == 0 || concurrentCases() {
				break
			}
			time.Sleep(time.Duration(20*(try+1)) * time.Millisecond)
		}
		if len(leaked) > 0 && !concurrentCases() {
			for _, l := range leaked {
				leakSeen.Store(strings.SplitN(l, ":", 2)[0], true)
			}
			conn.Log(vt.Ev{"ev": "Leak", "frames": leaked})
		}
	}
	if o.Unpriv {
		setDacOverride(true)
	}
	if len(o.Unreadable) > 0 {
		setReadCaps(true)
	}
	// a destination directory that is no longer a directory (a hostile or broken transfer replaced the root itself):
	// an observation for the monitor, not a driver failure
	rootGone := false
	var after model.Tree
	if fi, lerr := os.Lstat(dstDir); lerr != nil || !fi.IsDir() {
		rootGone = true
	} else {
		after, err = disk.Snapshot(dstDir, false)
		if err != nil {
			return nil, err
		}
	}
	res.After = after
	cbMu.Lock()
	res.HasherCalls, res.NotifyCalls = hasherN, notifyN
	cbMu.Unlock()
	// content ids of the view, by STAT index
	stats := conn.StatLog()
	vc := make([]string, len(stats))
	for i, p := range stats {
		if b, ok := content(filepath.ToSlash(p)); ok {
			vc[i] = model.ContentID(b)
		} else {
			vc[i] = "none"
		}
	}
	evs := []vt.Ev{begin}
	evs = append(evs, conn.Events()...)
	evs = append(evs, vt.Ev{"ev": "End", "after": after.Ev(), "vc": vc, "dstRootGone": rootGone})
	for _, e := range evs {
		e["case"] = caseNo
	}
	res.Events = evs
	return res, nil
}

func trunc(s string) string {
	if len(s) > 160 {
		return s[:160]
	}
	return s
}

// parallel case execution makes goroutine attribution impossible; drivers
// that run cases concurrently disable the leak check through this switch.
var parallelCases int32

func concurrentCases() bool { return parallelCases > 0 }

var _ = bytes.Equal
