package drivers

import (
	"bytes"
	"encoding/binary"
	"encoding/json"
	"fmt"
	"github.com/moby/patternmatcher"
	"io"
	"math/rand"
	"os"
	"path/filepath"
	"runtime"
	"sort"
	"strings"
	"sync"
	"sync/atomic"
	"time"
	"verif/harness/hstream"

	"github.com/tonistiigi/fsutil"
	"github.com/tonistiigi/fsutil/types"
	"verif/harness/disk"
	"verif/harness/model"
	"verif/harness/vt"
)

func init() { Registry["sync"] = Sync }

// syncInput is everything needed to re-run one sync case (kept in the Begin
// event so that a failing case is its own replay file).
type syncInput struct {
	Src    model.Tree `json:"src"`
	Dst    model.Tree `json:"dst"`
	Mode   string     `json:"mode"`
	Differ string     `json:"differ"`
	CapS   int        `json:"capS"`
	CapR   int        `json:"capR"`
	Origin string     `json:"origin"`
	Ops    []string   `json:"ops,omitempty"`
	// history mode: Hist[0..Step] are the successive source trees, Differs/Ops per step
	Hist    []model.Tree `json:"hist,omitempty"`
	Differs []string     `json:"differs,omitempty"`
	HistOps [][]string   `json:"histOps,omitempty"`
	Step    int          `json:"step,omitempty"`
	// schedule mode
	SchedSeed int64 `json:"schedSeed,omitempty"`
	DelayUS   int   `json:"delayUs,omitempty"`
	Procs     int   `json:"procs,omitempty"`
	// receiver-side Filter: "" | zeroOwner (uid,gid := 0) | stripWrite (mode &^ 0222 on files)
	Filter     string `json:"filter,omitempty"`
	ReqLateUS  int    `json:"reqLateUs,omitempty"`
	SlowDataUS int    `json:"slowDataUs,omitempty"`
	ShortRead  int    `json:"shortRead,omitempty"` // the source hands out at most this many bytes per Read
	Unpriv     bool   `json:"unpriv,omitempty"`
	SumDelayUS int    `json:"sumDelayUs,omitempty"`
	// DiffModel: the case was enumerated by TLC from spec/DiffMergeMC.tla; the (kind, path) changes the ALGORITHM model emits
	DiffModel   [][2]string `json:"diffModel,omitempty"`
	IsDiffModel bool        `json:"isDiffModel,omitempty"`
}

func runSyncInput(c *Ctx, caseNo int, in syncInput) ([]vt.Ev, *SyncResult, error) {
	base := filepath.Join(c.Work, fmt.Sprintf("case%d", caseNo))
	src, dst := filepath.Join(base, "src"), filepath.Join(base, "dst")
	defer disk.RemoveAll(base)
	if err := os.MkdirAll(src, 0755); err != nil {
		return nil, nil, err
	}
	if err := os.MkdirAll(dst, 0755); err != nil {
		return nil, nil, err
	}
	if err := disk.Materialise(src, in.Src); err != nil {
		return nil, nil, fmt.Errorf("materialise src: %w", err)
	}
	if err := disk.Materialise(dst, in.Dst); err != nil {
		return nil, nil, fmt.Errorf("materialise dst: %w", err)
	}
	srcSnap, err := disk.Snapshot(src, false)
	if err != nil {
		return nil, nil, err
	}
	o := SyncOpts{Mode: in.Mode, Differ: in.Differ, CapS2R: in.CapS, CapR2S: in.CapR,
		Extra: vt.Ev{"input": vt.Opaque(in), "src": srcSnap.Ev(), "origin": in.Origin}}
	if in.Unpriv {
		o.Extra["unpriv"] = true
	}
	if in.IsDiffModel {
		dm := []vt.Ev{}
		for _, x := range in.DiffModel {
			dm = append(dm, vt.Ev{"k": x[0], "p": vt.P(x[1])})
		}
		o.Extra["diffModel"] = dm
	}
	if in.DelayUS > 0 {
		// seeded per-operation delays on the stream (both endpoints, before and after each operation)
		var mu sync.Mutex
		r := rand.New(rand.NewSource(in.SchedSeed))
		o.Gate = func(ep, op string, k int) {
			mu.Lock()
			d := 0
			if r.Intn(3) == 0 {
				d = r.Intn(in.DelayUS)
			}
			mu.Unlock()
			if d > 0 {
				time.Sleep(time.Duration(d) * time.Microsecond)
			}
		}
	}
	if in.SlowDataUS > 0 {
		// slow source reads: every Open takes this long, so listing runs far ahead of content
		o.SrcFS = &faultFS{FS: mustFS(src), SlowOpen: time.Duration(in.SlowDataUS) * time.Microsecond}
	}
	if in.ShortRead > 0 {
		if ff, ok := o.SrcFS.(*faultFS); ok {
			ff.ShortRead = in.ShortRead
		} else {
			o.SrcFS = &faultFS{FS: mustFS(src), ShortRead: in.ShortRead}
		}
	}
	if in.ReqLateUS > 0 {
		// only the receiver's REQ sends return late (after the request is visible to the sender)
		d := time.Duration(in.ReqLateUS) * time.Microsecond
		o.Gate = func(ep, op string, k int) {
			if ep == "R" && op == "sent:REQ" {
				time.Sleep(d)
			}
		}
	}
	o.Unpriv = in.Unpriv
	o.SumDelay = time.Duration(in.SumDelayUS) * time.Microsecond
	o.Filter = filterByName(in.Filter)
	o.Extra["filter"] = in.Filter
	if in.Procs > 0 {
		defer runtime.GOMAXPROCS(runtime.GOMAXPROCS(in.Procs))
	}
	res, err := RunSync(caseNo, src, dst, o)
	if err != nil {
		return nil, nil, err
	}
	return res.Events, res, nil
}

func mustFS(dir string) fsutil.FS {
	f, err := fsutil.NewFS(dir)
	if err != nil {
		panic(err)
	}
	return f
}

// Sync drives real Send against real Receive over trees (C01 and friends).
// diffModelEntry: the entry a path of the DiffMergeMC universe stands for; everything is a function of (path, kind), so that
// equal kinds at a path mean identical stats and bytes on both sides
func diffModelEntry(p, kind string) model.Entry {
	idx := map[string]int64{"a": 1, "a/a": 2, "a/a-b": 3, "a-b": 4, "a-b/a": 5, "a-b/a-b": 6}[p]
	mt := int64(1400000000)*1000000000 + idx*1000
	switch kind {
	case "d":
		return model.Entry{Path: p, Type: "dir", Perm: 0755, Mtime: mt + 1}
	case "l":
		to := "a-b"
		if p == "a-b" {
			to = "a"
		}
		return model.Entry{Path: p, Type: "symlink", Perm: 0777, Link: to, Mtime: mt + 2}
	case "g":
		e := model.Entry{Path: p, Type: "file", Perm: 0640, Mtime: mt + 3, Size: 5, DSeed: 7000 + idx}
		e.Data = fileData(e.DSeed, 5)
		e.Content = model.ContentID(e.Data)
		return e
	}
	e := model.Entry{Path: p, Type: "file", Perm: 0644, Mtime: mt + 4, Size: 3, DSeed: 9000 + idx}
	e.Data = fileData(e.DSeed, 3)
	e.Content = model.ContentID(e.Data)
	return e
}

// syncDiffModel: the (old destination, source) pairs TLC wrote for DiffMergeMC, each a real transfer
func syncDiffModel(c *Ctx) error {
	gen := os.Getenv("VERIF_GEN_DIR")
	if gen == "" {
		return fmt.Errorf("VERIF_GEN_DIR not set (TLC-generated case files of DiffMergeMC)")
	}
	files, _ := filepath.Glob(filepath.Join(gen, "diffcase_*.ndjson"))
	sort.Strings(files)
	stride := 7
	if c.Thorough() {
		stride = 1
	}
	var inputs []syncInput
	for k, f := range files {
		if k%stride != 0 {
			continue
		}
		b, err := os.ReadFile(f)
		if err != nil {
			return err
		}
		var dc struct {
			Name string                     `json:"name"`
			Dst  []struct{ P, T string }    `json:"dst"`
			Src  []struct{ P, T string }    `json:"src"`
			Evs  []struct{ K, P, N string } `json:"evs"`
		}
		if err := json.Unmarshal(bytes.TrimSpace(b), &dc); err != nil {
			return err
		}
		in := syncInput{Mode: "dirty", Differ: "metadata", CapS: 4, CapR: 4, Origin: "diffModel/" + dc.Name, IsDiffModel: true, DiffModel: [][2]string{}}
		for _, e := range dc.Dst {
			in.Dst = append(in.Dst, diffModelEntry(e.P, e.T))
		}
		for _, e := range dc.Src {
			in.Src = append(in.Src, diffModelEntry(e.P, e.T))
		}
		in.Src.Sort()
		in.Dst.Sort()
		for _, e := range dc.Evs {
			kind := map[string]string{"add": "add", "mod": "modify", "del": "delete"}[e.N] // the kind that is notified
			in.DiffModel = append(in.DiffModel, [2]string{kind, e.P})
		}
		inputs = append(inputs, in)
	}
	c.Stats.Rule = "one case = one real transfer for an (old destination, source) pair enumerated by TLC from DiffMergeMC; non-trivial = the model emits at least one change"
	c.Stats.Note(fmt.Sprintf("%d of %d pairs (every %d-th)", len(inputs), len(files), stride))
	return runSyncInputs(c, inputs)
}

func Sync(c *Ctx) error {
	if c.What == "diffmodel" && c.Replay == "" {
		return syncDiffModel(c)
	}
	if c.What == "filtered" {
		return syncFiltered(c)
	}
	if c.What == "meta" || c.What == "metasmall" {
		return syncMeta(c)
	}
	if c.Replay != "" {
		in := &syncInput{}
		if err := vt.ReplayInput(c.Replay, in); err != nil {
			return err
		}
		if len(in.Hist) > 0 {
			for i := range in.Hist {
				Regen(in.Hist[i])
			}
			evs, err := runHistory(c, c.caseNo, *in)
			c.caseNo += len(in.Hist)
			if err != nil {
				return err
			}
			for _, e := range evs {
				c.Out.Emit(e)
			}
			return nil
		}
		Regen(in.Src)
		Regen(in.Dst)
		evs, _, err := runSyncInput(c, c.NextCase(), *in)
		if err != nil {
			return err
		}
		for _, e := range evs {
			c.Out.Emit(e)
		}
		return nil
	}
	if c.What == "hist" {
		return syncHistories(c)
	}
	if c.What == "sched" {
		return syncSchedules(c)
	}
	if c.What == "filtered" {
		return syncFiltered(c)
	}
	var inputs []syncInput
	uni := SmallUniverse()
	// bounded universe: every (src, dst) pair x {dirty, merge}; quick takes a seeded sample
	type pair struct{ s, d int }
	var pairs []pair
	for s := range uni {
		for d := range uni {
			pairs = append(pairs, pair{s, d})
		}
	}
	nPairs := len(pairs)
	if !c.Thorough() {
		c.Rand.Shuffle(len(pairs), func(i, j int) { pairs[i], pairs[j] = pairs[j], pairs[i] })
		nPairs = 700
	}
	for _, p := range pairs[:nPairs] {
		for _, m := range []string{"dirty", "merge"} {
			if m == "merge" && !c.Thorough() && c.Rand.Intn(3) != 0 {
				continue
			}
			inputs = append(inputs, syncInput{Src: uni[p.s], Dst: uni[p.d], Mode: m, Differ: "metadata", CapS: 8, CapR: 8, Origin: "universe"})
		}
	}
	c.Stats.Exhaustive = c.Thorough()
	c.Stats.Note(fmt.Sprintf("bounded universe: %d of %d (src,dst) pairs over 49 trees (names a, a-b; absent/file v1/file v2/symlink/dir/dir+child)", nPairs, len(pairs)))
	// random trees beyond the small scope
	nRand := 260
	if c.Thorough() {
		nRand = 1500
	}
	o := genOpts{MaxEntries: 40, Special: true, Xattrs: true, Links: true, BigFiles: true, LongNames: true}
	for i := 0; i < nRand; i++ {
		src := RandomTree(c.Rand, o)
		var dst model.Tree
		origin := "random/empty"
		switch c.Rand.Intn(4) {
		case 0:
		case 1:
			dst = RandomTree(c.Rand, o)
			origin = "random/independent"
		default:
			dst, _ = MutateTree(c.Rand, src, o, 1+c.Rand.Intn(6))
			origin = "random/mutated"
		}
		mode := "dirty"
		if c.Rand.Intn(4) == 0 {
			mode = "merge"
		}
		differ := "metadata"
		if c.Rand.Intn(6) == 0 {
			differ = "none"
		}
		caps := []int{0, 1, 4, 32, 64}
		short := 0
		if c.Rand.Intn(5) == 0 {
			short = []int{1, 10, 1000, 10000, 32767, 40000}[c.Rand.Intn(6)]
			if short < 100 {
				// keep one-byte reads affordable
				for k := range src {
					if src[k].Type == "file" && src[k].Size > 40000 && src[k].Group == 0 {
						src[k].Size = 33000
						src[k].Data = fileData(src[k].DSeed, 33000)
						src[k].Content = model.ContentID(src[k].Data)
					}
				}
			}
		}
		filter := ""
		if c.Rand.Intn(6) == 0 && mode == "dirty" {
			// a receiver Filter that rejects every non-directory named "rj": in the source (must not arrive), in the
			// prior destination (must stay exactly as it is, stale or not), in both
			filter = "rejectRJ"
			src, dst = addRejected(c.Rand, src), addRejected(c.Rand, dst)
			origin += "+rejectFilter"
		}
		inputs = append(inputs, syncInput{Src: src, Dst: dst, Mode: mode, Differ: differ, ShortRead: short, Filter: filter,
			CapS: caps[c.Rand.Intn(len(caps))], CapR: caps[c.Rand.Intn(len(caps))], Origin: origin})
	}
	if err := runSyncInputs(c, inputs); err != nil {
		return err
	}
	return syncUnpriv(c)
}

// syncUnpriv: transfers in which both calls run as an unprivileged owner (no CAP_DAC_OVERRIDE):
// read-only files, with and without setuid/setgid/sticky, must still arrive with content and mode.
// The capability drop is process-wide, so these cases run one at a time.
func syncUnpriv(c *Ctx) error {
	n := 40
	if c.Thorough() {
		n = 300
	}
	perms := []uint32{0444, 0400, 04555, 02555, 01444, 04444, 06555, 0644, 04755, 0555, 0600}
	// many read-only files, each followed at once by a hard link to it: the link is created (and the shared inode's mode
	// restored) while the content of the file it names is still on its way
	{
		reps := 3
		if c.Thorough() {
			reps = 12
		}
		for r := 0; r < reps; r++ {
			var src model.Tree
			for k := 0; k < 120; k++ {
				e := newFile(c.Rand, genOpts{})
				e.Path, e.Perm, e.Uid, e.Gid, e.Group = fmt.Sprintf("f%03d", k), []uint32{0444, 0400, 02555}[k%3], 0, 0, 1000+k
				e.Size = int64(1 + k%50)
				e.Data = fileData(e.DSeed, int(e.Size))
				e.Content = model.ContentID(e.Data)
				l := e
				l.Path = fmt.Sprintf("f%03dl", k)
				src = append(src, e, l)
			}
			src.Sort()
			in := syncInput{Src: src, Mode: "dirty", Differ: "metadata", CapS: []int{0, 8, 64}[r%3], CapR: []int{8, 0, 64}[r%3], Origin: "unpriv/readOnlyFileThenItsLink", Unpriv: true}
			evs, res, err := runSyncInput(c, c.NextCase(), in)
			if err == errUnprivUnsupported {
				c.Stats.Count("unprivUnsupportedInThisBuild", 1)
				return nil
			}
			if err != nil {
				return fmt.Errorf("unpriv case: %w", err)
			}
			for _, e := range evs {
				c.Out.Emit(e)
			}
			c.Stats.Count("origin:unpriv", 1)
			if res.SOK && res.ROK {
				c.Stats.Count("unprivBothOK", 1)
			}
		}
	}
	for i := 0; i < n; i++ {
		src := RandomTree(c.Rand, genOpts{MaxEntries: 14, Links: true, BigFiles: i%4 == 0})
		for k := range src {
			src[k].Uid, src[k].Gid = 0, 0
			switch src[k].Type {
			case "dir":
				src[k].Perm = []uint32{0755, 0700, 01777, 02755}[c.Rand.Intn(4)]
			case "file":
				src[k].Perm = perms[c.Rand.Intn(len(perms))]
			}
		}
		// hard-link groups share one inode: one mode per group
		byGroup := map[int]uint32{}
		for k := range src {
			if g := src[k].Group; g != 0 {
				if p, ok := byGroup[g]; ok {
					src[k].Perm = p
				} else {
					byGroup[g] = src[k].Perm
				}
			}
		}
		var dst model.Tree
		if i%3 == 1 {
			dst, _ = MutateTree(c.Rand, src, genOpts{MaxEntries: 14}, 1+c.Rand.Intn(3))
			for k := range dst {
				dst[k].Uid, dst[k].Gid = 0, 0
				if dst[k].Type == "dir" {
					dst[k].Perm |= 0700
				}
			}
		}
		in := syncInput{Src: src, Dst: dst, Mode: "dirty", Differ: "metadata", CapS: 8, CapR: 8, Origin: "unpriv", Unpriv: true}
		evs, res, err := runSyncInput(c, c.NextCase(), in)
		if err == errUnprivUnsupported {
			c.Stats.Count("unprivUnsupportedInThisBuild", 1)
			return nil
		}
		if err != nil {
			return fmt.Errorf("unpriv case: %w", err)
		}
		for _, e := range evs {
			c.Out.Emit(e)
		}
		c.Stats.Count("origin:unpriv", 1)
		if res.SOK && res.ROK {
			c.Stats.Count("unprivBothOK", 1)
		}
	}
	return nil
}

// dropRejectedDirs removes directories named "rj" (a mutation may have turned one of the rejected entries into a
// directory) together with what is below them.
func dropRejectedDirs(t model.Tree) model.Tree {
	var out model.Tree
	var pruned []string
	for _, e := range t {
		skip := false
		for _, p := range pruned {
			if strings.HasPrefix(e.Path, p+"/") {
				skip = true
			}
		}
		if skip {
			continue
		}
		if e.Type == "dir" && (e.Path == "rj" || strings.HasSuffix(e.Path, "/rj")) {
			pruned = append(pruned, e.Path)
			continue
		}
		out = append(out, e)
	}
	return out
}

// addRejected returns a copy of t with up to three non-directories named "rj" added (root and random directories).
func addRejected(r *rand.Rand, t model.Tree) model.Tree {
	out := t.Clone()
	dirs := []string{""}
	for _, e := range t {
		if e.Type == "dir" {
			dirs = append(dirs, e.Path)
		}
	}
	for k := 0; k < 1+r.Intn(3); k++ {
		d := dirs[r.Intn(len(dirs))]
		p := "rj"
		if d != "" {
			p = d + "/rj"
		}
		if out.Find(p) != nil {
			continue
		}
		var e model.Entry
		switch r.Intn(4) {
		case 0:
			e = model.Entry{Type: "symlink", Perm: 0777, Link: "a", Mtime: uniqueMtime()}
		case 1:
			e = model.Entry{Type: "fifo", Perm: 0644, Mtime: uniqueMtime()}
		default:
			e = newFile(r, genOpts{})
		}
		e.Path = p
		out = append(out, e)
	}
	out.Sort()
	return out
}

func runSyncInputs(c *Ctx, inputs []syncInput) error {
	atomic.StoreInt32(&parallelCases, 1)
	defer atomic.StoreInt32(&parallelCases, 0)
	type result struct {
		evs []vt.Ev
		err error
		res *SyncResult
	}
	results := make([]result, len(inputs))
	var wg sync.WaitGroup
	sem := make(chan struct{}, runtime.NumCPU())
	base := c.caseNo
	c.caseNo += len(inputs)
	for i := range inputs {
		wg.Add(1)
		sem <- struct{}{}
		go func(i int) {
			defer wg.Done()
			defer func() { <-sem }()
			evs, res, err := runSyncInput(c, base+i+1, inputs[i])
			results[i] = result{evs, err, res}
		}(i)
	}
	wg.Wait()
	for i, r := range results {
		if r.err != nil {
			return fmt.Errorf("case %d (%s): %w", base+i+1, inputs[i].Origin, r.err)
		}
		for _, e := range r.evs {
			c.Out.Emit(e)
		}
		in := inputs[i]
		key, _ := json.Marshal(struct {
			S, D    string
			M, Diff string
		}{in.Src.Key(), in.Dst.Key(), in.Mode, in.Differ})
		// non-trivial: the prior destination is non-empty and differs from the source
		c.Stats.Case(string(key), len(in.Dst) > 0 && in.Src.Key() != in.Dst.Key())
		c.Stats.Count("cases", 1)
		c.Stats.Count("origin:"+in.Origin, 1)
		c.Stats.Count("mode:"+in.Mode, 1)
		if r.res.SOK && r.res.ROK {
			c.Stats.Count("bothOK", 1)
		} else {
			c.Stats.Count("notBothOK", 1)
		}
		c.Stats.Rule = "one case = one real Send/Receive run over (source tree, prior destination, mode, differ); non-trivial = the prior destination is non-empty and differs from the source; distinct by canonical tree encoding"
		if len(in.Src) >= 3 && len(in.Dst) >= 2 {
			c.Stats.Sample(vt.Ev{"origin": in.Origin, "mode": in.Mode, "differ": in.Differ, "src": pathsOf(in.Src), "dst": pathsOf(in.Dst),
				"sendOK": r.res.SOK, "recvOK": r.res.ROK, "events": len(r.evs)})
		}
	}
	return nil
}

func pathsOf(t model.Tree) []string {
	out := make([]string, len(t))
	for i := range t {
		out[i] = t[i].Type + ":" + t[i].Path
	}
	return out
}

// runHistory syncs Hist[0], Hist[1], ... one after the other into the same
// destination directory; every sync is one case (base+1, base+2, ...).
func runHistory(c *Ctx, base int, in syncInput) ([]vt.Ev, error) {
	dir := filepath.Join(c.Work, fmt.Sprintf("hist%d", base))
	dst := filepath.Join(dir, "dst")
	defer disk.RemoveAll(dir)
	if err := os.MkdirAll(dst, 0755); err != nil {
		return nil, err
	}
	var all []vt.Ev
	for k, tree := range in.Hist {
		src := filepath.Join(dir, fmt.Sprintf("src%d", k))
		if err := os.MkdirAll(src, 0755); err != nil {
			return nil, err
		}
		if err := disk.Materialise(src, tree); err != nil {
			return nil, fmt.Errorf("materialise step %d: %w", k, err)
		}
		step := in
		step.Step = k
		step.Hist = in.Hist[:k+1]
		step.Differs = in.Differs[:k+1]
		step.HistOps = in.HistOps[:k+1]
		srcSnap, err := disk.Snapshot(src, false)
		if err != nil {
			return nil, err
		}
		res, err := RunSync(base+k+1, src, dst, SyncOpts{Mode: "dirty", Differ: in.Differs[k], CapS2R: in.CapS, CapR2S: in.CapR, Filter: filterByName(in.Filter),
			Extra: vt.Ev{"input": vt.Opaque(step), "src": srcSnap.Ev(), "origin": in.Origin, "step": k, "ops": opsOrEmpty(in.HistOps[k]), "filter": in.Filter}})
		if err != nil {
			return nil, err
		}
		all = append(all, res.Events...)
		disk.RemoveAll(src)
	}
	return all, nil
}

func opsOrEmpty(o []string) []string {
	if o == nil {
		return []string{}
	}
	return o
}

// syncHistories: edit histories of a source with a sync after every step
// (C02 minimality, C05 notifications).
func syncHistories(c *Ctx) error {
	nHist, maxLen := 160, 5
	if c.Thorough() {
		nHist, maxLen = 900, 8
	}
	o := genOpts{MaxEntries: 25, Special: true, Xattrs: true, Links: true, BigFiles: false, LongNames: false}
	var hists []syncInput
	// deterministic part: every mutation kind applied to every entry of a fixed tree that has
	// one entry of each type and a three-member hard-link group
	{
		mk := func(p string, size int, seed int64) model.Entry {
			d := fileData(seed, size)
			return model.Entry{Path: p, Type: "file", Perm: 0644, Size: int64(size), Data: d, DSeed: seed, Content: model.ContentID(d), Mtime: uniqueMtime()}
		}
		a := mk("a", 9, 11)
		a.Group = 77
		c1 := a
		c1.Path = "c"
		c2 := a
		c2.Path = "d/z"
		fixed := model.Tree{a, c1, {Path: "d", Type: "dir", Perm: 0755, Mtime: uniqueMtime()}, mk("d/x", 40000, 12), c2,
			{Path: "dev", Type: "chr", Perm: 0660, Devmajor: 1, Devminor: 7, Mtime: uniqueMtime()},
			mk("e", 3, 13), {Path: "f", Type: "fifo", Perm: 0644, Mtime: uniqueMtime()},
			{Path: "o", Type: "dir", Perm: 0755, Uid: 1000, Gid: 1000, Mtime: uniqueMtime()}, mk("o/x", 5, 14), mk("o/z", 6, 15),
			{Path: "l", Type: "symlink", Perm: 0777, Link: "e", Mtime: uniqueMtime()}}
		fixed[6].Xattrs = map[string]string{"user.k": "v"}
		fixed.Sort()
		// a directory with children is replaced by a symlink to a sibling directory that has children of the
		// same names: the old children must not be deleted through the new link
		{
			swapped := fixed.Clone()
			var nt model.Tree
			for _, e := range swapped {
				if e.Path == "d" {
					nt = append(nt, model.Entry{Path: "d", Type: "symlink", Link: "o", Perm: 0777, Mtime: uniqueMtime()})
				} else if !strings.HasPrefix(e.Path, "d/") {
					nt = append(nt, e)
				}
			}
			nt.Sort()
			hists = append(hists, syncInput{Origin: "history/dirToSymlinkToSibling", CapS: 8, CapR: 8, Hist: []model.Tree{fixed, nt, nt},
				Differs: []string{"metadata", "metadata", "metadata"}, HistOps: [][]string{{"initial"}, {"swap:dir>symlink-to-sibling"}, {"none"}}})
			// chown of a directory to the receiver's own identity
			own := fixed.Clone()
			for k := range own {
				if own[k].Path == "o" {
					own[k].Uid, own[k].Gid = 0, 0
				}
			}
			hists = append(hists, syncInput{Origin: "history/chownDirToReceiver", CapS: 8, CapR: 8, Hist: []model.Tree{fixed, own, own},
				Differs: []string{"metadata", "metadata", "metadata"}, HistOps: [][]string{{"initial"}, {"chown:dir-to-root"}, {"none"}}})
		}
		// a directory next to siblings whose names continue with a byte below the separator: its children, then the
		// directory itself, disappear from the source; the siblings are not touched
		for _, sib := range []string{"q.z", "q-z", "q z", "q!"} {
			mkq := func(p string, seed int64) model.Entry {
				e := model.Entry{Path: p, Type: "file", Perm: 0644, Size: 5, DSeed: seed, Data: fileData(seed, 5), Mtime: 1500000000000000000 + seed}
				e.Content = model.ContentID(e.Data)
				return e
			}
			qd := model.Entry{Path: "q", Type: "dir", Perm: 0755, Mtime: 1500000000000000333}
			t0 := model.Tree{qd, mkq("q/x", 41), mkq("q/y", 42), mkq(sib, 43)}
			t1 := model.Tree{qd, mkq(sib, 43)}
			t2 := model.Tree{mkq(sib, 43)}
			for _, t := range []model.Tree{t0, t1, t2} {
				t.Sort()
			}
			hists = append(hists, syncInput{Origin: "history/siblingBelowSeparator", CapS: 8, CapR: 8, Hist: []model.Tree{t0, t1, t2, t2},
				Differs: []string{"metadata", "metadata", "metadata", "metadata"}, HistOps: [][]string{{"initial"}, {"unlink:children"}, {"unlink:dir"}, {"none"}}})
		}
		// a device node renumbered only in the high bits of its minor / major number
		for _, nm := range [][2]int64{{5, 65541}, {5, 261}, {1<<19 + 1, 1}} {
			devA := append(fixed.Clone(), model.Entry{Path: "zdev", Type: "blk", Perm: 0660, Devmajor: 8, Devminor: nm[0], Mtime: 1500000000000000777})
			devB := append(fixed.Clone(), model.Entry{Path: "zdev", Type: "blk", Perm: 0660, Devmajor: 8, Devminor: nm[1], Mtime: 1500000000000000777})
			devA.Sort()
			devB.Sort()
			hists = append(hists, syncInput{Origin: "history/deviceRenumbered", CapS: 8, CapR: 8, Hist: []model.Tree{devA, devB, devB},
				Differs: []string{"metadata", "metadata", "metadata"}, HistOps: [][]string{{"initial"}, {"renumber"}, {"none"}}})
		}
		for i := range fixed {
			for op := 0; op < numMutations; op++ {
				next, ops := MutateAt(c.Rand, fixed, o, i, op)
				if len(ops) == 0 {
					continue
				}
				// the edit, then a re-sync of the unchanged result (which must be silent)
				hists = append(hists, syncInput{Origin: "history/single", CapS: 8, CapR: 8, Hist: []model.Tree{fixed, next, next},
					Differs: []string{"metadata", "metadata", "metadata"}, HistOps: [][]string{{"initial"}, ops, {"none"}}})
			}
		}
	}
	for i := 0; i < nHist; i++ {
		t0 := RandomTree(c.Rand, o)
		h := syncInput{Origin: "history", CapS: []int{0, 2, 16, 64}[c.Rand.Intn(4)], CapR: []int{0, 2, 16, 64}[c.Rand.Intn(4)]}
		if c.Rand.Intn(4) == 0 {
			h.Filter = []string{"zeroOwner", "stripWrite", "rejectRJ"}[c.Rand.Intn(3)]
			if h.Filter == "rejectRJ" {
				t0 = addRejected(c.Rand, t0)
			}
		}
		h.Hist = append(h.Hist, t0)
		h.Differs = append(h.Differs, "metadata")
		h.HistOps = append(h.HistOps, []string{"initial"})
		cur := t0
		n := 2 + c.Rand.Intn(maxLen-1)
		for k := 1; k < n; k++ {
			var ops []string
			next := cur
			switch c.Rand.Intn(6) {
			case 0: // unchanged re-sync
				ops = []string{"none"}
			default:
				next, ops = MutateTree(c.Rand, cur, o, 1+c.Rand.Intn(3))
			}
			d := "metadata"
			if c.Rand.Intn(7) == 0 {
				d = "none"
			}
			if h.Filter == "rejectRJ" {
				// the rejecting filter lets directories through: keep the name for non-directories only
				next = dropRejectedDirs(next)
			}
			h.Hist = append(h.Hist, next)
			h.Differs = append(h.Differs, d)
			h.HistOps = append(h.HistOps, ops)
			cur = next
		}
		hists = append(hists, h)
	}
	atomic.StoreInt32(&parallelCases, 1)
	defer atomic.StoreInt32(&parallelCases, 0)
	results := make([][]vt.Ev, len(hists))
	errs := make([]error, len(hists))
	bases := make([]int, len(hists))
	for i, h := range hists {
		bases[i] = c.caseNo
		c.caseNo += len(h.Hist)
	}
	var wg sync.WaitGroup
	sem := make(chan struct{}, runtime.NumCPU())
	for i := range hists {
		wg.Add(1)
		sem <- struct{}{}
		go func(i int) {
			defer wg.Done()
			defer func() { <-sem }()
			results[i], errs[i] = runHistory(c, bases[i], hists[i])
		}(i)
	}
	wg.Wait()
	for i, h := range hists {
		if errs[i] != nil {
			return fmt.Errorf("history %d: %w", i, errs[i])
		}
		for _, e := range results[i] {
			c.Out.Emit(e)
		}
		for k := range h.Hist {
			key := ""
			if k > 0 {
				key = h.Hist[k-1].Key()
			}
			key += "=>" + h.Hist[k].Key() + h.Differs[k]
			// non-trivial: a real edit step that leaves at least one regular file untouched
			nt := false
			if k > 0 && h.Hist[k].Key() != h.Hist[k-1].Key() {
				for _, e := range h.Hist[k] {
					if e.Type == "file" {
						if o := h.Hist[k-1].Find(e.Path); o != nil && o.Content == e.Content && o.Mtime == e.Mtime {
							nt = true
							break
						}
					}
				}
			}
			c.Stats.Case(key, nt)
			c.Stats.Count("syncs", 1)
			for _, op := range h.HistOps[k] {
				name := op
				if j := strings.Index(op, ":"); j > 0 {
					name = op[:j]
				}
				c.Stats.Count("op:"+name, 1)
			}
			c.Stats.Count("differ:"+h.Differs[k], 1)
		}
		if len(h.Hist) >= 3 {
			c.Stats.Sample(vt.Ev{"history_ops": h.HistOps, "differs": h.Differs, "initial": pathsOf(h.Hist[0])})
		}
	}
	c.Stats.Rule = "one case = one sync of an edit history step; non-trivial = a real edit step that leaves at least one regular file untouched; distinct by (previous tree, new tree, differ)"
	return nil
}

// syncSchedules: a few (source, prior destination) cases, each executed under
// many schedules: stream capacities 0..64, seeded per-operation delays,
// GOMAXPROCS 1..16 (C08).  Runs are sequential so that GOMAXPROCS is per run.
func syncSchedules(c *Ctx) error {
	nCases, nSched := 5, 24
	if c.Thorough() {
		nCases, nSched = 30, 120
	}
	if os.Getenv("VERIF_RACE") != "" { // race-detector build: 5-10x slower
		nCases, nSched = 2, 10
		if c.Thorough() {
			nCases, nSched = 8, 40
		}
	}
	o := genOpts{MaxEntries: 45, Special: false, Xattrs: true, Links: true, BigFiles: true}
	c.Stats.Rule = "one case = one real transfer of a fixed (source, prior destination) pair under one schedule (capacities, delay seed, GOMAXPROCS); non-trivial = at least 5 multi-chunk files in flight; distinct by (pair, schedule)"
	// fan-out under a slow data path: more than 64 / 132 files outstanding with hundreds of STATs behind them
	{
		var fan model.Tree
		for k := 0; k < 420; k++ {
			e := newFile(c.Rand, genOpts{})
			e.Path = fmt.Sprintf("f%04d", k)
			fan = append(fan, e)
		}
		for si := 0; si < 3; si++ {
			in := syncInput{Src: fan, Mode: "dirty", Differ: "metadata", Origin: "sched/fanout", CapS: []int{0, 8, 64}[si], CapR: []int{64, 1, 0}[si],
				SlowDataUS: []int{1500, 400, 3000}[si]}
			evs, _, err := runSyncInput(c, c.NextCase(), in)
			if err != nil {
				return err
			}
			for _, e := range evs {
				c.Out.Emit(e)
			}
			c.Stats.Case(vt.Opaque(struct{ F, S int }{420, si}), true)
			c.Stats.Count("runs", 1)
		}
	}
	// a destination directory with many entries that the transfer replaces while the destination walker is still inside
	// it: by a symlink that closes a cycle with a symlink the destination still holds (every lookup below it is then
	// ELOOP), by a symlink to another directory (the walker sees that directory's entries under the old name), by a
	// file (ENOTDIR).  The outcome must not depend on how far the walker got
	{
		many := func(dir string, n int) model.Tree {
			t := model.Tree{{Path: dir, Type: "dir", Perm: 0755, Mtime: uniqueMtime()}}
			for k := 0; k < n; k++ {
				e := newFile(c.Rand, genOpts{})
				e.Size, e.Data = 1, fileData(e.DSeed, 1)
				e.Content = model.ContentID(e.Data)
				e.Path = fmt.Sprintf("%s/f%04d", dir, k)
				t = append(t, e)
			}
			return t
		}
		ln := func(p, to string) model.Entry {
			return model.Entry{Path: p, Type: "symlink", Perm: 0777, Link: to, Mtime: uniqueMtime()}
		}
		dr := func(p string) model.Entry { return model.Entry{Path: p, Type: "dir", Perm: 0755, Mtime: uniqueMtime()} }
		fl := func(p string) model.Entry { e := newFile(c.Rand, genOpts{}); e.Path = p; return e }
		shapes := []struct {
			name     string
			dst, src model.Tree
		}{
			{"cycle", append(many("a", 300), ln("a-b", "a")), model.Tree{ln("a", "a-b"), dr("a-b")}},
			{"otherDir", append(append(many("a", 300), many("t", 20)...), fl("z")), append(model.Tree{ln("a", "t")}, append(many("t", 20), fl("z"))...)},
			{"file", many("a", 300), model.Tree{fl("a")}},
		}
		reps := 6
		if c.Thorough() {
			reps = 24
		}
		for _, sh := range shapes {
			sh.dst.Sort()
			sh.src.Sort()
			for si := 0; si < reps; si++ {
				in := syncInput{Src: sh.src, Dst: sh.dst, Mode: "dirty", Differ: "metadata", Origin: "sched/dirReplacedWhileWalked/" + sh.name,
					CapS: []int{0, 2, 32}[si%3], CapR: []int{0, 2, 32}[(si/3)%3], SchedSeed: c.Rand.Int63(), DelayUS: []int{0, 50}[si%2], Procs: []int{1, 2, 4, 16}[si%4]}
				evs, _, err := runSyncInput(c, c.NextCase(), in)
				if err != nil {
					return err
				}
				for _, e := range evs {
					c.Out.Emit(e)
				}
				c.Stats.Case(vt.Opaque(struct {
					N string
					S int
				}{sh.name, si}), true)
				c.Stats.Count("runs", 1)
			}
		}
	}
	for ci := 0; ci < nCases; ci++ {
		src := RandomTree(c.Rand, o)
		// make sure many multi-chunk files are in flight at once
		for k := 0; k < 12; k++ {
			e := newFile(c.Rand, o)
			e.Size = int64(40000 + c.Rand.Intn(90000))
			e.Data = fileData(e.DSeed, int(e.Size))
			e.Content = model.ContentID(e.Data)
			e.Path = fmt.Sprintf("big%02d", k)
			if src.Find(e.Path) == nil {
				src = append(src, e)
			}
		}
		src.Sort()
		var dst model.Tree
		if ci%2 == 1 {
			dst, _ = MutateTree(c.Rand, src, o, 6)
		}
		if ci%2 == 0 {
			// a large stale directory in the prior destination: the destination walker is still inside it when the diff
			// removes it (more entries than the walker's channel holds)
			dst = append(dst, model.Entry{Path: "0stale", Type: "dir", Perm: 0755, Mtime: uniqueMtime()})
			for k := 0; k < 400; k++ {
				e := newFile(c.Rand, genOpts{})
				e.Size, e.Data = 1, fileData(e.DSeed, 1)
				e.Content = model.ContentID(e.Data)
				e.Path = fmt.Sprintf("0stale/f%04d", k)
				dst = append(dst, e)
			}
			dst.Sort()
		}
		for si := 0; si < nSched; si++ {
			in := syncInput{Src: src, Dst: dst, Mode: "dirty", Differ: "metadata", Origin: fmt.Sprintf("sched/case%d", ci),
				CapS: []int{0, 1, 2, 7, 32, 64}[c.Rand.Intn(6)], CapR: []int{0, 1, 2, 7, 32, 64}[c.Rand.Intn(6)],
				SchedSeed: c.Rand.Int63(), DelayUS: []int{0, 50, 300, 1500}[c.Rand.Intn(4)], Procs: []int{1, 2, 4, 16}[si%4]}
			if si%6 == 5 {
				in.DelayUS, in.ReqLateUS = 0, []int{1000, 3000, 6000}[c.Rand.Intn(3)]
			}
			if si%6 == 2 {
				in.SumDelayUS = []int{500, 3000}[c.Rand.Intn(2)]
			}
			evs, res, err := runSyncInput(c, c.NextCase(), in)
			if err != nil {
				return err
			}
			for _, e := range evs {
				c.Out.Emit(e)
			}
			c.Stats.Case(vt.Opaque(struct {
				C, S int
			}{ci, si}), true)
			c.Stats.Count("runs", 1)
			c.Stats.Count(fmt.Sprintf("procs:%d", in.Procs), 1)
			if res.SOK && res.ROK {
				c.Stats.Count("bothOK", 1)
			}
			if si == 0 {
				c.Stats.Sample(vt.Ev{"case": ci, "entries": len(src), "priorEntries": len(dst), "schedule": vt.Ev{"capS2R": in.CapS, "capR2S": in.CapR, "delayUs": in.DelayUS, "procs": in.Procs}})
			}
		}
	}
	return nil
}

// filterByName returns the receiver-side Filter (a pure, total function of the stat that the
// specification mirrors in SyncTrace!FilterView).
func filterByName(name string) fsutil.FilterFunc {
	switch name {
	case "zeroOwner":
		return func(p string, st *types.Stat) bool {
			st.Uid, st.Gid = 0, 0
			return true
		}
	case "stripWrite":
		return func(p string, st *types.Stat) bool {
			if os.FileMode(st.Mode)&os.ModeType == 0 {
				st.Mode &^= 0222
			}
			return true
		}
	case "rejectRJ":
		// rejects every non-directory named "rj" (for deletions the stat is empty)
		return func(p string, st *types.Stat) bool {
			return !(filepath.Base(p) == "rj" && !os.FileMode(st.Mode).IsDir())
		}
	}
	return nil
}

// ---------------------------------------------------------------------------
// filtered views (C11)

type filteredInput struct {
	Src    model.Tree    `json:"src"`
	Stack  [][3][]string `json:"stack"` // per layer: include, exclude, followPaths
	CapS   int           `json:"capS"`
	CapR   int           `json:"capR"`
	SubDir bool          `json:"subDir,omitempty"`
	Origin string        `json:"origin"`
	// Unreadable: (empty) source directories the sender may not list (mode 0000, no CAP_DAC_*) while the transfer runs
	Unreadable []string `json:"unreadable,omitempty"`
}

func runFiltered(c *Ctx, caseNo int, in filteredInput) ([]vt.Ev, *SyncResult, error) {
	base := filepath.Join(c.Work, fmt.Sprintf("fcase%d", caseNo))
	src, dst := filepath.Join(base, "src"), filepath.Join(base, "dst")
	defer disk.RemoveAll(base)
	if err := os.MkdirAll(src, 0755); err != nil {
		return nil, nil, err
	}
	if err := os.MkdirAll(dst, 0755); err != nil {
		return nil, nil, err
	}
	if err := disk.Materialise(src, in.Src); err != nil {
		return nil, nil, err
	}
	snap, err := disk.Snapshot(src, true)
	if err != nil {
		return nil, nil, err
	}
	var f fsutil.FS
	f, err = fsutil.NewFS(src)
	if err != nil {
		return nil, nil, err
	}
	// naive and incremental selection of every entry of the full tree by the whole stack
	naive := make([]bool, len(snap))
	incr := make([]bool, len(snap))
	for i := range snap {
		naive[i], incr[i] = true, true
	}
	patternOnly := true
	for _, layer := range in.Stack {
		opt := &fsutil.FilterOpt{IncludePatterns: layer[0], ExcludePatterns: layer[1], FollowPaths: layer[2]}
		// follow-paths: their resolution (against the FS this layer wraps) is appended to the layer's include list
		incEff := layer[0]
		refOK := true
		if len(layer[2]) > 0 {
			fr, ferr := fsutil.FollowLinks(f, layer[2])
			if ferr != nil || fr == nil {
				patternOnly, refOK = false, false
			} else {
				incEff = append(append([]string{}, layer[0]...), fr...)
			}
		}
		nf, err := fsutil.NewFilterFS(f, opt)
		if err != nil {
			return nil, nil, nil // invalid pattern: not a case
		}
		f = nf
		paths := make([]string, len(snap))
		for i := range snap {
			paths[i] = snap[i].Path
		}
		if refOK {
			for _, pl := range [][]string{incEff} {
				if len(pl) > 0 {
					pm, err := patternmatcher.New(pl)
					if err != nil {
						return nil, nil, nil
					}
					iv, err := incrVerdicts(pl, snap)
					if err != nil {
						return nil, nil, nil
					}
					for i, p := range paths {
						m, _ := pm.MatchesOrParentMatches(p)
						naive[i] = naive[i] && m
						incr[i] = incr[i] && iv[i]
					}
				}
			}
			if len(layer[1]) > 0 {
				pm, err := patternmatcher.New(layer[1])
				if err != nil {
					return nil, nil, nil
				}
				iv, err := incrVerdicts(layer[1], snap)
				if err != nil {
					return nil, nil, nil
				}
				for i, p := range paths {
					m, _ := pm.MatchesOrParentMatches(p)
					naive[i] = naive[i] && !m
					incr[i] = incr[i] && !iv[i]
				}
			}
		}
	}
	var selDiff [][][]int
	var selIdx []int
	for i := range snap {
		if naive[i] != incr[i] {
			selDiff = append(selDiff, vt.P(snap[i].Path))
			selIdx = append(selIdx, i)
		}
	}
	if selDiff == nil {
		selDiff = [][][]int{}
	}
	// single layer with a reference: the view the naive evaluation yields (matched entries plus their ancestors), and the
	// one the library's incremental matcher yields
	var naiveView, incrView [][][]int
	if len(in.Stack) == 1 && patternOnly {
		viewOf := func(sel []bool) [][][]int {
			keep := map[string]bool{}
			for i := range snap {
				if sel[i] {
					keep[snap[i].Path] = true
					for _, a := range ancestorsOf(snap[i].Path) {
						keep[a] = true
					}
				}
			}
			out := [][][]int{}
			for i := range snap {
				if keep[snap[i].Path] {
					out = append(out, vt.P(snap[i].Path))
				}
			}
			return out
		}
		naiveView, incrView = viewOf(naive), viewOf(incr)
	}
	pfx := ""
	snapEv := snap
	if in.SubDir {
		// the filtered view mounted under a name by SubDirFS: the outermost layer is not the filter
		pfx = "sub/"
		sd, err := fsutil.SubDirFS([]fsutil.Dir{{Stat: &types.Stat{Path: "sub", Mode: uint32(os.ModeDir | 0755)}, FS: f}})
		if err != nil {
			return nil, nil, err
		}
		f = sd
		snapEv = model.Tree{{Path: "sub", Type: "dir", Perm: 0755}}
		for _, e := range snap {
			e.Path = pfx + e.Path
			snapEv = append(snapEv, e)
		}
		snapEv.Canon(func(e *model.Entry) string {
			if e.Nlink > 1 {
				return fmt.Sprint(e.Ino)
			}
			return ""
		})
		for k := range selDiff {
			selDiff[k] = vt.P(pfx + snap[selIdx[k]].Path)
		}
		naiveView, incrView = nil, nil // (paths are prefixed in this variant: no reference view)
	}
	content := func(p string) ([]byte, bool) {
		rc, err := f.Open(pfx + p)
		if err != nil {
			return nil, false
		}
		defer rc.Close()
		b, err := io.ReadAll(rc)
		return b, err == nil
	}
	res, err := RunSync(caseNo, src, dst, SyncOpts{Mode: "dirty", Differ: "metadata", CapS2R: in.CapS, CapR2S: in.CapR, SrcFS: f, Unreadable: in.Unreadable,
		Content: func(p string) ([]byte, bool) {
			p = strings.TrimPrefix(p, pfx)
			if e := snap.Find(p); e == nil || e.Type != "file" {
				return nil, false
			}
			return content(p)
		},
		Extra: func() vt.Ev {
			x := vt.Ev{"input": vt.Opaque(in), "src": snapEv.Ev(), "origin": in.Origin, "filtered": true, "patternOnly": patternOnly, "selDiff": selDiff}
			if naiveView != nil {
				x["naiveView"], x["incrView"] = naiveView, incrView
			}
			return x
		}()})
	if err != nil {
		return nil, nil, err
	}
	// Open through the same filtered view, for every regular file of the unfiltered tree
	var opens []vt.Ev
	for _, e := range snap {
		if e.Type != "file" {
			continue
		}
		b, ok := content(e.Path)
		cid := ""
		if ok {
			cid = model.ContentID(b)
		}
		opens = append(opens, vt.Ev{"ev": "Open", "case": caseNo, "p": vt.P(pfx + e.Path), "ok": ok, "c": cid, "want": e.Content})
	}
	evs := res.Events
	end := evs[len(evs)-1]
	evs = append(append(evs[:len(evs)-1:len(evs)-1], opens...), end)
	return evs, res, nil
}

func syncFiltered(c *Ctx) error {
	if c.Replay != "" {
		in := &filteredInput{}
		if err := vt.ReplayInput(c.Replay, in); err != nil {
			return err
		}
		Regen(in.Src)
		evs, _, err := runFiltered(c, c.NextCase(), *in)
		if err != nil {
			return err
		}
		for _, e := range evs {
			c.Out.Emit(e)
		}
		return nil
	}
	n := 900
	if c.Thorough() {
		n = 5000
	}
	c.Stats.Rule = "one case = real Send over a stack of 1-2 NewFilterFS layers into real Receive, plus Open probes for every regular file of the unfiltered tree; non-trivial = a hard-link group straddles the filter (some member reported, some hidden); distinct by (tree, filter stack)"
	// the recorded finding, every run: include [a/b, !a] - the walk (incremental matcher) reports a/b, Open (plain matcher) refuses it
	{
		mk := func(p string) model.Entry { e := newFile(c.Rand, genOpts{}); e.Path = p; return e }
		t := model.Tree{{Path: "a", Type: "dir", Perm: 0755, Mtime: uniqueMtime()}, mk("a/b"), mk("c")}
		// exceptions after what they carve from, together with follow-paths: the order of the include list is the caller's
		{
			ft := model.Tree{{Path: "dir", Type: "dir", Perm: 0755, Mtime: uniqueMtime()}, mk("dir/akey"), mk("dir/keep"),
				{Path: "l", Type: "symlink", Link: "t", Perm: 0777, Mtime: uniqueMtime()}, mk("t")}
			ft.Sort()
			for _, inc := range [][]string{{"dir", "!dir/akey"}, {"!dir/akey", "dir"}} {
				in := filteredInput{Src: ft, CapS: 4, CapR: 4, Origin: "filtered/orderedIncludesWithFollow", Stack: [][3][]string{{inc, nil, {"l"}}}}
				evs, _, err := runFiltered(c, c.NextCase(), in)
				if err != nil {
					return err
				}
				for _, e := range evs {
					c.Out.Emit(e)
				}
				c.Stats.Case(vt.Opaque(in), true)
			}
		}
		// a directory the sender may not list that the filter excludes (with an exception or a wildcard in the list, so that it
		// cannot be pruned up front): the filtered view still transfers
		{
			dr := func(p string) model.Entry { return model.Entry{Path: p, Type: "dir", Perm: 0755, Mtime: uniqueMtime()} }
			ut := model.Tree{dr("bar"), dr("foo"), dr("foo/bar"), mk("foo/x"), mk("z")}
			ut.Sort()
			for k := range ut {
				ut[k].Uid, ut[k].Gid = 0, 0
			}
			for _, exc := range [][]string{{"**/bar", "!foo/bar/baz"}, {"foo/bar", "bar", "!foo/bar/baz"}, {"**/bar"}} {
				in := filteredInput{Src: ut, CapS: 4, CapR: 4, Origin: "filtered/excludedUnreadableDirectory", Stack: [][3][]string{{nil, exc, nil}}, Unreadable: []string{"bar", "foo/bar"}}
				evs, _, err := runFiltered(c, c.NextCase(), in)
				if err == errUnprivUnsupported {
					continue
				}
				if err != nil {
					return err
				}
				for _, e := range evs {
					c.Out.Emit(e)
				}
				c.Stats.Case(vt.Opaque(in), true)
			}
		}
		// include patterns of variable depth: a directory matched at a depth other than the number of components of the
		// pattern, with files below it (whoever decides with a fixed-depth test disagrees with the walk)
		{
			dr := func(p string) model.Entry { return model.Entry{Path: p, Type: "dir", Perm: 0755, Mtime: uniqueMtime()} }
			vt3 := model.Tree{dr("a"), dr("a/b"), dr("a/b/bar"), mk("a/b/bar/foo"), dr("a/b/bar/sub"), mk("a/b/bar/sub/deep"), dr("bar"), mk("bar/x"), dr("c"), mk("c/bar"), mk("z")}
			vt3.Sort()
			for _, st := range [][3][]string{{{"**/bar"}, nil, nil}, {{"a/**/bar"}, nil, nil}, {{"**/b"}, nil, nil}, {{"*/b/bar"}, nil, nil}, {{"**/bar/foo", "z"}, nil, nil},
				{{"**/sub"}, nil, nil}, {nil, {"**/bar"}, nil}, {{"a"}, {"**/sub"}, nil}} {
				in := filteredInput{Src: vt3, CapS: 4, CapR: 4, Origin: "filtered/variableDepthPatterns", Stack: [][3][]string{st}}
				evs, _, err := runFiltered(c, c.NextCase(), in)
				if err != nil {
					return err
				}
				for _, e := range evs {
					c.Out.Emit(e)
				}
				c.Stats.Case(vt.Opaque(in), true)
			}
		}
		// entry names that contain pattern metacharacters, named by patterns that escape them: no real wildcard in the list,
		// so the walk's prefix shortcuts apply, and they must compare what the pattern MEANS, not its text
		{
			dr := func(p string) model.Entry { return model.Entry{Path: p, Type: "dir", Perm: 0755, Mtime: uniqueMtime()} }
			mt := model.Tree{dr("a*b"), mk("a*b/c"), mk("a*b/d"), dr("axb"), mk("axb/c"), dr("q?"), mk("q?/c"), dr("q?/s[1]"), mk("q?/s[1]/f"), mk("z")}
			mt.Sort()
			for _, st := range [][3][]string{{{`a\*b/c`}, nil, nil}, {{`a\*b`}, nil, nil}, {{`q\?/c`, "z"}, nil, nil}, {{`q\?/s\[1]/f`}, nil, nil},
				{nil, {`a\*b/c`}, nil}, {{`a\*b/c`, "axb"}, nil, nil}, {{`a\*b`, `!a\*b/d`}, nil, nil}} {
				in := filteredInput{Src: mt, CapS: 4, CapR: 4, Origin: "filtered/escapedMetacharacters", Stack: [][3][]string{st}}
				evs, _, err := runFiltered(c, c.NextCase(), in)
				if err != nil {
					return err
				}
				for _, e := range evs {
					c.Out.Emit(e)
				}
				c.Stats.Case(vt.Opaque(in), true)
			}
		}
		for _, st := range [][3][]string{{{"a/b", "!a"}, nil, nil}, {nil, {"a/a", "!a"}, nil}} {
			in := filteredInput{Src: t, CapS: 4, CapR: 4, Origin: "filtered/knownMatcherShape", Stack: [][3][]string{st}}
			evs, _, err := runFiltered(c, c.NextCase(), in)
			if err != nil {
				return err
			}
			for _, e := range evs {
				c.Out.Emit(e)
			}
			c.Stats.Case(vt.Opaque(in), true)
		}
	}
	for i := 0; i < n; i++ {
		t := filterTree(c)
		// hard-link groups spread over directories
		var files []int
		for k := range t {
			if t[k].Type == "file" {
				files = append(files, k)
			}
		}
		for g := 0; g < 2 && len(files) >= 3; g++ {
			a := files[c.Rand.Intn(len(files))]
			if t[a].Group != 0 {
				continue
			}
			t[a].Group = 500 + g
			m := 1 + c.Rand.Intn(3)
			for k := 0; k < m; k++ {
				b := files[c.Rand.Intn(len(files))]
				if b != a && t[b].Group == 0 {
					p := t[b].Path
					t[b] = t[a]
					t[b].Path = p
				}
			}
		}
		// a hard-linked pair of named pipes, the first member early in the walk
		hidePipe := false
		if c.Rand.Intn(5) == 0 {
			var dirs []string
			for _, e := range t {
				if e.Type == "dir" {
					dirs = append(dirs, e.Path)
				}
			}
			if len(dirs) > 0 && t.Find("0pipe") == nil {
				d := dirs[c.Rand.Intn(len(dirs))]
				if t.Find(d+"/pipe") == nil {
					m := uniqueMtime()
					t = append(t, model.Entry{Path: "0pipe", Type: "fifo", Perm: 0644, Mtime: m, Group: 700},
						model.Entry{Path: d + "/pipe", Type: "fifo", Perm: 0644, Mtime: m, Group: 700})
					t.Sort()
					hidePipe = c.Rand.Intn(2) == 0
				}
			}
		}
		// a symlink or two for follow-paths
		if c.Rand.Intn(3) == 0 && len(t) > 0 {
			tg := t[c.Rand.Intn(len(t))].Path
			if t.Find("lnk") == nil {
				t = append(t, model.Entry{Path: "lnk", Type: "symlink", Perm: 0777, Link: tg, Mtime: uniqueMtime()})
				t.Sort()
			}
		}
		in := filteredInput{Src: t, CapS: []int{0, 4, 64}[c.Rand.Intn(3)], CapR: []int{0, 4, 64}[c.Rand.Intn(3)], Origin: "filtered"}
		layers := 1 + c.Rand.Intn(2)
		for l := 0; l < layers; l++ {
			var inc, exc, fol []string
			for k := 0; k < c.Rand.Intn(3); k++ {
				p := randomPattern(c, t)
				// the [X, !ancestor] shapes are the known incremental-matcher finding; keep most cases clear of negations
				if strings.HasPrefix(p, "!") && c.Rand.Intn(3) != 0 {
					p = p[1:]
				}
				inc = append(inc, p)
			}
			for k := 0; k < c.Rand.Intn(3); k++ {
				p := randomPattern(c, t)
				if strings.HasPrefix(p, "!") && c.Rand.Intn(3) != 0 {
					p = p[1:]
				}
				exc = append(exc, p)
			}
			if c.Rand.Intn(5) == 0 && t.Find("lnk") != nil {
				fol = []string{"lnk"}
			}
			in.Stack = append(in.Stack, [3][]string{inc, exc, fol})
		}
		if hidePipe {
			// the first member is walked (its inode is recorded) and then hidden by the filter
			in.Stack = append(in.Stack, [3][]string{nil, {"0pipe"}, nil})
		}
		if i%6 == 5 {
			// exclude a directory, re-include something two levels below it through a wildcard in the middle:
			// only the exception carries a wildcard, so the directory must not be pruned
			var deep []string
			for _, e := range t {
				if strings.Count(e.Path, "/") >= 2 {
					deep = append(deep, e.Path)
				}
			}
			if len(deep) > 0 {
				parts := strings.Split(deep[c.Rand.Intn(len(deep))], "/")
				exc := []string{parts[0], "!" + parts[0] + "/*/" + strings.Join(parts[2:], "/")}
				if c.Rand.Intn(2) == 0 {
					exc = []string{parts[0], "!" + parts[0] + "/" + parts[1][:1] + "*/" + strings.Join(parts[2:], "/")}
				}
				in.Stack = [][3][]string{{nil, exc, nil}}
				in.Origin = "filtered/excludeWithWildcardException"
			}
		}
		in.SubDir = c.Rand.Intn(4) == 0
		evs, res, err := runFiltered(c, c.NextCase(), in)
		if err != nil {
			return err
		}
		if evs == nil {
			c.Stats.Count("invalidPatternSkipped", 1)
			continue
		}
		for _, e := range evs {
			c.Out.Emit(e)
		}
		// straddling group?
		reported := map[string]bool{}
		for _, p := range res.Conn.StatLog() {
			reported[p] = true
		}
		straddle := false
		byGroup := map[int][2]int{}
		for _, e := range t {
			if e.Group != 0 {
				v := byGroup[e.Group]
				if reported[e.Path] || reported["sub/"+e.Path] {
					v[0]++
				} else {
					v[1]++
				}
				byGroup[e.Group] = v
			}
		}
		for _, v := range byGroup {
			if v[0] > 0 && v[1] > 0 {
				straddle = true
			}
		}
		c.Stats.Case(vt.Opaque(in), straddle)
		c.Stats.Count("cases", 1)
		if res.SOK && res.ROK {
			c.Stats.Count("bothOK", 1)
		}
		if straddle {
			c.Stats.Count("groupStraddlesFilter", 1)
			c.Stats.Sample(vt.Ev{"tree": pathsOf(t), "stack": in.Stack, "reported": len(reported)})
		}
	}
	return nil
}

// ---------------------------------------------------------------------------
// metadata-only transfers (C19)

type metaInput struct {
	Src               model.Tree `json:"src"`
	Dst               model.Tree `json:"dst"`
	Selected          []string   `json:"selected"`
	CapS              int        `json:"capS"`
	CapR              int        `json:"capR"`
	Origin            string     `json:"origin"`
	Puppet            bool       `json:"puppet"`
	Merge             bool       `json:"merge,omitempty"`
	OutsideListing    string     `json:"outsideListing,omitempty"`    // "" | live | dangling: what the destination symlink named like the listing points at
	ListingFaultLimit int        `json:"listingFaultLimit,omitempty"` // > 0: the listing write-fault scenario with this file-size limit
	// Model: the case was enumerated by TLC from spec/MetaStackMC.tla; what the model's run forwards and which ids it records
	Model *metaModel `json:"model,omitempty"`
}

type metaModel struct {
	Name string   `json:"name"`
	Fwd  []string `json:"fwd"`
	Ids  []int    `json:"ids"`
}

// metaModelCases reads the (stream, selector) cases TLC wrote for MetaStackMC and turns them into transfers: "L" is the
// listing file's own name, files carry 1-3 bytes (so that every selected one is requested).
func metaModelCases(gen string) ([]metaInput, error) {
	files, _ := filepath.Glob(filepath.Join(gen, "metacase_*.ndjson"))
	sort.Strings(files)
	name := func(comps []string) string {
		out := make([]string, len(comps))
		for i, c := range comps {
			if c == "L" {
				c = listingName
			}
			out[i] = c
		}
		return strings.Join(out, "/")
	}
	var res []metaInput
	for _, f := range files {
		err := readLines(f, func(ln []byte) error {
			var mc struct {
				Name   string `json:"name"`
				Stream []struct {
					P   []string `json:"p"`
					Dir bool     `json:"dir"`
				} `json:"stream"`
				Sel [][]string `json:"sel"`
				Fwd [][]string `json:"fwd"`
				Ids []int      `json:"ids"`
			}
			if err := json.Unmarshal(ln, &mc); err != nil {
				return err
			}
			in := metaInput{CapS: 4, CapR: 4, Origin: "metaModel/" + mc.Name, Model: &metaModel{Name: mc.Name, Ids: mc.Ids}}
			for k, e := range mc.Stream {
				p := name(e.P)
				if e.Dir {
					in.Src = append(in.Src, model.Entry{Path: p, Type: "dir", Perm: 0755, Mtime: uniqueMtime()})
				} else {
					data := bytes.Repeat([]byte{byte('a' + k)}, 1+k%3)
					in.Src = append(in.Src, model.Entry{Path: p, Type: "file", Perm: 0644, Mtime: uniqueMtime(), Data: data, Size: int64(len(data)), Content: model.ContentID(data)})
				}
			}
			in.Src.Sort()
			for _, q := range mc.Sel {
				in.Selected = append(in.Selected, name(q))
			}
			for _, q := range mc.Fwd {
				in.Model.Fwd = append(in.Model.Fwd, name(q))
			}
			res = append(res, in)
			return nil
		})
		if err != nil {
			return nil, err
		}
	}
	return res, nil
}

const listingName = ".fsutil-metadata"

// decodeListing reads the listing file: 4-byte little-endian length + encoded stat, repeated.
func decodeListing(path string) (present bool, framingOK bool, recs []string) {
	recs = []string{}
	fi, err := os.Lstat(path)
	if err != nil {
		return false, false, recs
	}
	if !fi.Mode().IsRegular() {
		return true, false, recs
	}
	b, err := os.ReadFile(path)
	if err != nil {
		return true, false, recs
	}
	for len(b) > 0 {
		if len(b) < 4 {
			return true, false, recs
		}
		n := int(binary.LittleEndian.Uint32(b[:4]))
		b = b[4:]
		if n > len(b) {
			return true, false, recs
		}
		var st types.Stat
		if err := st.UnmarshalVT(b[:n]); err != nil {
			return true, false, recs
		}
		recs = append(recs, hstream.StatHash(&st))
		b = b[n:]
	}
	return true, true, recs
}

func runMeta(c *Ctx, caseNo int, in metaInput) ([]vt.Ev, *SyncResult, error) {
	base := filepath.Join(c.Work, fmt.Sprintf("mcase%d", caseNo))
	src, dst := filepath.Join(base, "src"), filepath.Join(base, "dst")
	defer disk.RemoveAll(base)
	if err := os.MkdirAll(src, 0755); err != nil {
		return nil, nil, err
	}
	if err := os.MkdirAll(dst, 0755); err != nil {
		return nil, nil, err
	}
	if !in.Puppet {
		if err := disk.Materialise(src, in.Src); err != nil {
			return nil, nil, fmt.Errorf("materialise src: %w", err)
		}
	}
	if err := disk.Materialise(dst, in.Dst); err != nil {
		return nil, nil, fmt.Errorf("materialise dst: %w", err)
	}
	sel := map[string]bool{}
	selP := [][][]int{}
	for _, p := range in.Selected {
		sel[p] = true
		selP = append(selP, vt.P(p))
	}
	mode := "dirty"
	if in.Merge {
		mode = "merge"
	}
	// a file next to the destination that a symlink named like the listing may point at
	outside := filepath.Join(base, "outside-listing")
	if in.OutsideListing == "live" {
		if err := os.WriteFile(outside, []byte("precious"), 0600); err != nil {
			return nil, nil, err
		}
	}
	o := SyncOpts{Mode: mode, Differ: "metadata", CapS2R: in.CapS, CapR2S: in.CapR,
		MetadataOnly: func(p string, st *types.Stat) bool { return sel[filepath.ToSlash(p)] },
		Extra:        vt.Ev{"input": vt.Opaque(in), "origin": in.Origin, "selected": selP}}
	if in.Model != nil {
		fwd := [][][]int{}
		for _, p := range in.Model.Fwd {
			fwd = append(fwd, vt.P(p))
		}
		ids := in.Model.Ids
		if ids == nil {
			ids = []int{}
		}
		o.Extra["metaModel"] = vt.Ev{"fwd": fwd, "ids": ids}
	}
	if in.Puppet {
		view := in.Src.Clone()
		view.Sort()
		byPath := map[string][]byte{}
		for i := range view {
			if view[i].Type == "file" {
				byPath[view[i].Path] = view[i].Data
			}
		}
		o.Content = func(p string) ([]byte, bool) { b, ok := byPath[p]; return b, ok }
		o.PuppetS = PuppetSender(view, SendScript{Chunk: "k32", Seed: int64(caseNo)})
	}
	res, err := RunSync(caseNo, src, dst, o)
	if err != nil {
		return nil, nil, err
	}
	present, ok, recs := decodeListing(filepath.Join(dst, listingName))
	end := res.Events[len(res.Events)-1]
	end["listing"] = vt.Ev{"present": present, "framingOK": ok, "recs": recs}
	touched := false
	if b, err := os.ReadFile(outside); in.OutsideListing == "live" {
		touched = err != nil || string(b) != "precious"
	} else {
		touched = err == nil
	}
	end["listingOutsideTouched"] = touched
	return res.Events, res, nil
}

// listingFaultTree: 400 directories with long names (a listing of about 75 KiB, no file content at all)
func listingFaultTree() model.Tree {
	var big model.Tree
	for k := 0; k < 400; k++ {
		big = append(big, model.Entry{Path: fmt.Sprintf("e%04d-%s", k, strings.Repeat("y", 150)), Type: "dir", Perm: 0755, Mtime: 1500000000000000000 + int64(k)})
	}
	return big
}

func syncMeta(c *Ctx) error {
	if c.Replay != "" {
		in := &metaInput{}
		if err := vt.ReplayInput(c.Replay, in); err != nil {
			return err
		}
		if in.ListingFaultLimit > 0 {
			ev, err := runListingFault(c, c.NextCase(), listingFaultTree(), in.ListingFaultLimit)
			if err != nil {
				return err
			}
			c.Out.Emit(ev)
			return nil
		}
		Regen(in.Src)
		Regen(in.Dst)
		evs, _, err := runMeta(c, c.NextCase(), *in)
		if err != nil {
			return err
		}
		for _, e := range evs {
			c.Out.Emit(e)
		}
		return nil
	}
	n := 220
	if c.Thorough() {
		n = 3000
	}
	if c.What == "metasmall" { // the boundary shapes and a short random part, for the checks of other properties
		n = 40
	}
	c.Stats.Rule = "one case = one metadata-only transfer (source tree, selector table, prior destination); non-trivial = some regular file is selected and some is not; distinct by (tree, selector, destination)"
	// boundary shapes: nothing announced at all, only the listing's own name announced, stale / symlinked listing in the
	// destination (pointing at a file next to the destination, live or dangling), with and without merge mode
	{
		mkf := func(p string) model.Entry { e := newFile(c.Rand, genOpts{}); e.Path = p; return e }
		small := model.Tree{{Path: "d", Type: "dir", Perm: 0755, Mtime: uniqueMtime()}, mkf("d/x"), mkf("f")}
		staleFile := model.Tree{{Path: listingName, Type: "file", Perm: 0644, Mtime: uniqueMtime(), Data: []byte("stale listing"), Size: 13}}
		linkOut := model.Tree{{Path: listingName, Type: "symlink", Perm: 0777, Link: "../outside-listing", Mtime: uniqueMtime()}}
		var shapes []metaInput
		for _, merge := range []bool{false, true} {
			for _, src := range []model.Tree{nil, {mkf(listingName)}, small} {
				var sel []string
				if len(src) == 3 {
					sel = []string{"f"}
				}
				if len(src) == 3 {
					// a selected directory together with an entry below it, and a whole subtree
					shapes = append(shapes,
						metaInput{Src: src, Selected: []string{"d", "d/x"}, Merge: merge, Origin: "boundary/selectedDirAndChild"},
						metaInput{Src: src, Selected: []string{"d", "d/x", "f"}, Merge: merge, Origin: "boundary/everythingSelected"})
				}
				shapes = append(shapes,
					metaInput{Src: src, Selected: sel, Merge: merge, Origin: "boundary/emptyDst"},
					metaInput{Src: src, Selected: sel, Dst: staleFile, Merge: merge, Origin: "boundary/staleListing"},
					metaInput{Src: src, Selected: sel, Dst: linkOut, Merge: merge, OutsideListing: "live", Origin: "boundary/listingIsLinkToOutsideFile"},
					metaInput{Src: src, Selected: sel, Dst: linkOut, Merge: merge, OutsideListing: "dangling", Origin: "boundary/listingIsDanglingLinkToOutside"})
				// a directory with the listing's name left by an earlier plain transfer: empty, and (without merge mode, where
				// stale entries are removed as in a normal transfer) with children
				emptyDir := model.Tree{{Path: listingName, Type: "dir", Perm: 0755, Mtime: uniqueMtime()}}
				shapes = append(shapes, metaInput{Src: src, Selected: sel, Dst: emptyDir, Merge: merge, Origin: "boundary/listingNameIsEmptyDir"})
				if !merge {
					fullDir := model.Tree{{Path: listingName, Type: "dir", Perm: 0755, Mtime: uniqueMtime()}, mkf(listingName + "/child"),
						{Path: listingName + "/sub", Type: "dir", Perm: 0700, Mtime: uniqueMtime()}, mkf(listingName + "/sub/deep")}
					shapes = append(shapes, metaInput{Src: src, Selected: sel, Dst: fullDir, Merge: merge, Origin: "boundary/listingNameIsNonEmptyDir"})
				}
			}
		}
		for _, in := range shapes {
			in.CapS, in.CapR = 4, 4
			evs, _, err := runMeta(c, c.NextCase(), in)
			if err != nil {
				return err
			}
			for _, e := range evs {
				c.Out.Emit(e)
			}
			c.Stats.Case(vt.Opaque(in), true)
			c.Stats.Count("origin:"+in.Origin, 1)
		}
	}
	// the (stream, selector) cases TLC enumerated from spec/MetaStackMC.tla, with what the model's run forwards and records
	if gen := os.Getenv("VERIF_GEN_DIR"); gen != "" && c.What != "metasmall" {
		mcs, err := metaModelCases(gen)
		if err != nil {
			return err
		}
		for _, in := range mcs {
			evs, _, err := runMeta(c, c.NextCase(), in)
			if err != nil {
				return err
			}
			for _, e := range evs {
				c.Out.Emit(e)
			}
			c.Stats.Case(vt.Opaque(in), true)
			c.Stats.Count("origin:metaModel", 1)
		}
		c.Stats.Note(fmt.Sprintf("%d (stream, selector) cases enumerated by TLC from MetaStackMC", len(mcs)))
	}
	// a write fault on the listing itself: the receiving process may not write files larger than the limit
	{
		for _, limit := range []int{4096, 40000} {
			ev, err := runListingFault(c, c.NextCase(), listingFaultTree(), limit)
			if err != nil {
				return err
			}
			ev["input"] = vt.Opaque(metaInput{ListingFaultLimit: limit, Origin: "listingWriteFault"})
			c.Out.Emit(ev)
			c.Stats.Case(fmt.Sprint("listingFault:", limit), true)
			c.Stats.Count("origin:listingWriteFault", 1)
		}
	}
	o := genOpts{MaxEntries: 25, Special: true, Xattrs: true, Links: true, BigFiles: false}
	for i := 0; i < n; i++ {
		t := RandomTree(c.Rand, o)
		origin := "random"
		switch {
		case i%40 == 3:
			// listings larger than several 32 KiB buffer chunks: many entries with long names
			for k := 0; k < 500+c.Rand.Intn(300); k++ {
				e := newFile(c.Rand, genOpts{})
				e.Size, e.Data = 1, fileData(e.DSeed, 1)
				e.Content = model.ContentID(e.Data)
				e.Path = fmt.Sprintf("big%04d-%s", k, strings.Repeat("x", 200+c.Rand.Intn(40)))
				t = append(t, e)
			}
			origin = "bigListing"
		case i%7 == 5:
			// a single stat larger than a chunk (large xattr)
			e := newFile(c.Rand, genOpts{})
			e.Path = "hugexattr"
			e.Xattrs = map[string]string{"user.big": strings.Repeat("v", 40000+c.Rand.Intn(20000))}
			if t.Find(e.Path) == nil {
				t = append(t, e)
			}
			origin = "hugeStat"
		}
		// a source entry with the listing file's own name: before, between and after other entries
		switch c.Rand.Intn(4) {
		case 0:
			e := newFile(c.Rand, genOpts{})
			e.Path = listingName
			if t.Find(e.Path) == nil {
				t = append(t, e)
			}
		case 1:
			// nested entry of that name must be listed and transferred like any other
			for _, d := range t {
				if d.Type == "dir" {
					e := newFile(c.Rand, genOpts{})
					e.Path = d.Path + "/" + listingName
					if t.Find(e.Path) == nil {
						t = append(t, e)
					}
					break
				}
			}
		}
		t.Sort()
		// selector: none / all / files / directories / nested random; closed under hard-link sources
		sel := map[string]bool{}
		mode := c.Rand.Intn(6)
		for _, e := range t {
			switch mode {
			case 0:
			case 1:
				sel[e.Path] = true
			case 2:
				sel[e.Path] = e.Type == "file"
			case 3:
				sel[e.Path] = e.Type == "dir"
			default:
				sel[e.Path] = c.Rand.Intn(3) == 0
			}
		}
		// hard-link closure: a selected link member selects the first member of its group
		first := map[int]string{}
		for _, e := range t {
			if e.Group != 0 {
				if _, ok := first[e.Group]; !ok {
					first[e.Group] = e.Path
				}
			}
		}
		for _, e := range t {
			if e.Group != 0 && sel[e.Path] {
				sel[first[e.Group]] = true
			}
		}
		var selected []string
		for _, e := range t {
			if sel[e.Path] {
				selected = append(selected, e.Path)
			}
		}
		var dst model.Tree
		switch c.Rand.Intn(5) {
		case 0:
			dst = model.Tree{{Path: listingName, Type: "file", Perm: 0644, Mtime: uniqueMtime(), Data: []byte("stale listing"), Size: 13}}
		case 1:
			dst = model.Tree{{Path: listingName, Type: "symlink", Perm: 0777, Link: "elsewhere", Mtime: uniqueMtime()}}
		case 2:
			dst, _ = MutateTree(c.Rand, t, o, 3)
			if len(dst) > 200 || origin == "hugeStat" {
				dst = nil
			}
		case 3:
			dst = RandomTree(c.Rand, o)
		}
		if origin == "hugeStat" {
			// such a stat cannot be materialised on ext4: synthetic sender, entry listed but not selected
			var s2 []string
			for _, p := range selected {
				if p != "hugexattr" {
					s2 = append(s2, p)
				}
			}
			selected = s2
			sel["hugexattr"] = false
		}
		in := metaInput{Src: t, Dst: dst, Selected: selected, CapS: []int{0, 4, 64}[c.Rand.Intn(3)], CapR: []int{0, 4, 64}[c.Rand.Intn(3)],
			Origin: origin, Puppet: (i%5 == 4 && origin == "random") || origin == "hugeStat"}
		evs, res, err := runMeta(c, c.NextCase(), in)
		if err != nil {
			return err
		}
		for _, e := range evs {
			c.Out.Emit(e)
		}
		selF, unselF := 0, 0
		for _, e := range t {
			if e.Type == "file" {
				if sel[e.Path] {
					selF++
				} else {
					unselF++
				}
			}
		}
		key := struct {
			S, D string
			Sel  []string
		}{t.Key(), dst.Key(), selected}
		c.Stats.Case(vt.Opaque(key), selF > 0 && unselF > 0)
		c.Stats.Count("origin:"+origin, 1)
		c.Stats.Count(fmt.Sprintf("selectorMode:%d", mode), 1)
		if t.Find(listingName) != nil {
			c.Stats.Count("sourceHasListingName", 1)
		}
		if res.SOK && res.ROK {
			c.Stats.Count("bothOK", 1)
		}
		if selF > 0 && unselF > 0 && len(t) < 15 {
			c.Stats.Sample(vt.Ev{"tree": pathsOf(t), "selected": selected, "priorDest": pathsOf(dst)})
		}
	}
	return nil
}
