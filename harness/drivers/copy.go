package drivers

import (
	"bytes"
	"context"
	"encoding/json"
	"fmt"
	"os"
	"os/exec"
	"path"
	"path/filepath"
	"sort"
	"strings"
	"sync"
	"syscall"
	"time"

	"github.com/tonistiigi/fsutil"
	fscopy "github.com/tonistiigi/fsutil/copy"
	"verif/harness/disk"
	"verif/harness/model"
	"verif/harness/vt"
)

func init() {
	Registry["copy"] = Copy
	childRoles["copy-child"] = copyChild
}

type copyCase struct {
	Case     int        `json:"case"`
	Kind     string     `json:"kind"` // fidelity overlay contain filter
	Src      model.Tree `json:"src"`
	Dst      model.Tree `json:"dst"`
	SrcArg   string     `json:"srcArg"`
	DstArg   string     `json:"dstArg"`
	Contents bool       `json:"contents"`
	Replace  bool       `json:"replace"`
	Wild     bool       `json:"wild"`
	Follow   bool       `json:"follow"`
	Uid      int        `json:"uid"` // -1 keep
	Gid      int        `json:"gid"`
	Mode     int        `json:"mode"` // -1 keep
	Sym      string     `json:"sym"`
	Utime    int64      `json:"utime"` // 0 keep
	Inc      []string   `json:"inc"`
	Exc      []string   `json:"exc"`
	Origin   string     `json:"origin"`
	// Model: the case was enumerated by TLC from spec/CopyFilterMC.tla; the written set of the ALGORITHM model
	Model *copyModel `json:"model,omitempty"`
}

type copyModel struct {
	Name    string   `json:"name"`
	Written []string `json:"written"`
}

const secretA, secretB = "TOP-SECRET-OUTSIDE-A", "TOP-SECRET-OUTSIDE-B"

func resetCopyJail(root string) error {
	// everything a previous case may have left in the jail root goes too (an escape must not mask the next one)
	names, _ := os.ReadDir(root)
	for _, n := range names {
		if n.Name() == "cases.json" || n.Name() == "events.ndjson" {
			continue
		}
		disk.RemoveAll(filepath.Join(root, n.Name()))
	}
	t := model.Tree{
		{Path: "dstroot", Type: "dir", Perm: 0755, Mtime: 1300000000000000009},
		{Path: "outside", Type: "dir", Perm: 0755, Mtime: 1300000000000000001},
		{Path: "outside/o", Type: "file", Perm: 0600, Mtime: 1300000000000000002, Data: []byte(secretA), Size: int64(len(secretA)),
			Xattrs: map[string]string{"trusted.outside": "TOP-SECRET-XATTR"}},
		{Path: "outside/od", Type: "dir", Perm: 0700, Mtime: 1300000000000000003},
		{Path: "outside/od/x", Type: "file", Perm: 0644, Mtime: 1300000000000000004, Data: []byte(secretB), Size: int64(len(secretB))},
		{Path: "srcroot", Type: "dir", Perm: 0751, Uid: 7, Gid: 8, Mtime: 1300000000000000005, Xattrs: map[string]string{"user.root": "r"}},
	}
	return disk.Materialise(root, t)
}

// jailOutside snapshots /outside plus the root directories' own entries (times of the
// destination root excluded: entries are created inside it).
func jailOutside(root string) ([]vt.Ev, error) {
	// everything in the jail that is not strictly inside /dstroot: the sentinels, the source tree, the roots' own
	// entries (times of the destination root excluded: entries are created inside it) and whatever else appears
	var out []vt.Ev
	var rec func(rel string) error
	rec = func(rel string) error {
		dir := filepath.Join(root, rel)
		names, err := os.ReadDir(dir)
		if err != nil {
			return err
		}
		for _, de := range names {
			n := de.Name()
			r := n
			if rel != "" {
				r = rel + "/" + n
			}
			if r == "events.ndjson" || r == "cases.json" {
				continue
			}
			e, err := disk.StatEntry(filepath.Join(dir, n), r, false)
			if err != nil {
				return err
			}
			ev := e.Ev()
			ev["ct"] = fmt.Sprint(e.Ctime)
			if r == "dstroot" {
				ev["mt"], ev["ct"] = "-", "-"
			}
			out = append(out, ev)
			if e.Type == "dir" && r != "dstroot" {
				if err := rec(r); err != nil {
					return err
				}
			}
		}
		return nil
	}
	if err := rec(""); err != nil {
		return nil, err
	}
	return out, nil
}

func ancestorsOf(p string) []string {
	var out []string
	for i := 0; i < len(p); i++ {
		if p[i] == '/' {
			out = append(out, p[:i])
		}
	}
	return out
}

func splitArg(p string) [][]int {
	p = strings.Trim(path.Clean("/"+p), "/")
	if p == "" {
		return [][]int{}
	}
	return vt.P(p)
}

func copyChild(args []string) {
	jail := args[0]
	var cases []copyCase
	if err := vt.ReadJSON(filepath.Join(jail, "cases.json"), &cases); err != nil {
		fmt.Fprintln(os.Stderr, err)
		os.Exit(2)
	}
	w, err := vt.NewWriter(filepath.Join(jail, "events.ndjson"))
	if err != nil {
		fmt.Fprintln(os.Stderr, err)
		os.Exit(2)
	}
	if err := syscall.Chroot(jail); err != nil {
		fmt.Fprintln(os.Stderr, "chroot:", err)
		os.Exit(2)
	}
	os.Chdir("/")
	syscall.Umask(0)
	die := func(err error) {
		fmt.Fprintln(os.Stderr, "copy child:", err)
		os.Exit(2)
	}
	for _, cc := range cases {
		if err := resetCopyJail("/"); err != nil {
			die(err)
		}
		if err := disk.Materialise("/srcroot", cc.Src); err != nil {
			die(fmt.Errorf("materialise src: %w", err))
		}
		if err := disk.Materialise("/dstroot", cc.Dst); err != nil {
			die(fmt.Errorf("materialise dst: %w", err))
		}
		// materialising children touched the roots' times
		os.Chtimes("/srcroot", time.Unix(1300000000, 5), time.Unix(1300000000, 5))
		srcSnap, err := disk.Snapshot("/srcroot", false)
		if err != nil {
			die(err)
		}
		before, err := disk.Snapshot("/dstroot", false)
		if err != nil {
			die(err)
		}
		ob, err := jailOutside("/")
		if err != nil {
			die(err)
		}
		var notes [][][]int
		var nmu sync.Mutex
		ci := fscopy.CopyInfo{CopyDirContents: cc.Contents, AlwaysReplaceExistingDestPaths: cc.Replace, AllowWildcards: cc.Wild,
			FollowLinks: cc.Follow, ModeStr: cc.Sym, IncludePatterns: cc.Inc, ExcludePatterns: cc.Exc,
			ChangeFunc: func(kind fsutil.ChangeKind, p string, fi os.FileInfo, err error) error {
				nmu.Lock()
				if len(notes) < 500 && strings.Count(p, "/") < 12 { // a runaway copy must not make the trace unreadable
					notes = append(notes, splitArg(p))
				}
				nmu.Unlock()
				return nil
			}}
		if cc.Uid >= 0 {
			uid, gid := cc.Uid, cc.Gid
			ci.Chown = func(*fscopy.User) (*fscopy.User, error) { return &fscopy.User{UID: uid, GID: gid}, nil }
		}
		if cc.Mode >= 0 {
			m := cc.Mode
			ci.Mode = &m
		}
		utimeStr := ""
		if cc.Utime != 0 {
			tm := time.Unix(0, cc.Utime)
			ci.Utime = &tm
			utimeStr = fmt.Sprint(cc.Utime)
		}
		run := func() (ok bool, msg string) {
			defer func() {
				if r := recover(); r != nil {
					ok, msg = false, fmt.Sprint("PANIC: ", r)
				}
			}()
			err := fscopy.Copy(context.Background(), "/srcroot", cc.SrcArg, "/dstroot", cc.DstArg, fscopy.WithCopyInfo(ci))
			if err != nil {
				return false, trunc(err.Error())
			}
			return true, ""
		}
		rootGone := false
		ensureRoot := func() {
			if fi, err := os.Lstat("/dstroot"); err != nil || !fi.IsDir() {
				// the call removed (or replaced) the destination root itself: recorded, not fatal
				rootGone = true
				os.RemoveAll("/dstroot")
				os.Mkdir("/dstroot", 0755)
			}
		}
		ok, msg := run()
		ensureRoot()
		after, afterTrunc, err := disk.SnapshotCapped("/dstroot", false, 400, 10)
		if err != nil {
			die(err)
		}
		oa, err := jailOutside("/")
		if err != nil {
			die(err)
		}
		notes1 := notes
		ok2, _ := false, ""
		after2 := after
		if ok && cc.Kind != "contain" {
			ok2, _ = run()
			ensureRoot()
			after2, _, err = disk.SnapshotCapped("/dstroot", false, 400, 10)
			if err != nil {
				die(err)
			}
		}
		if notes1 == nil {
			notes1 = [][][]int{}
		}
		// the source node's own entry
		sp := splitArg(cc.SrcArg)
		var srcTop vt.Ev
		if len(sp) == 0 {
			e, err := disk.StatEntry("/srcroot", "", false)
			if err != nil {
				die(err)
			}
			srcTop = e.Ev()
		} else if e := srcSnap.Find(strings.Trim(path.Clean("/"+cc.SrcArg), "/")); e != nil {
			srcTop = e.Ev()
		} else {
			srcTop = vt.Ev{"t": "none"}
		}
		wild := [][][]int{}
		if cc.Wild {
			pat := strings.TrimPrefix(cc.SrcArg, "/")
			for _, e := range srcSnap {
				// (the pattern's separators match literally: a match has as many components as the pattern)
				if strings.Count(e.Path, "/") == strings.Count(pat, "/") {
					if m, _ := path.Match(pat, e.Path); m {
						wild = append(wild, vt.P(e.Path))
					}
				}
			}
		}
		ev := vt.Ev{"ev": "Copy", "case": cc.Case, "kind": cc.Kind, "origin": cc.Origin, "src": srcSnap.Ev(), "srcTop": srcTop,
			"before": before.Ev(), "after": after.Ev(), "ok": ok, "err": msg, "notes": notes1,
			"second":      vt.Ev{"ok": ok2, "after": after2.Ev()},
			"dstRootGone": rootGone, "afterTruncated": afterTrunc, "secretXattrSeen": func() bool {
				for _, e := range after {
					for _, v := range e.Xattrs {
						if v == "TOP-SECRET-XATTR" {
							return true
						}
					}
				}
				return false
			}(), "outsideBefore": ob, "outsideAfter": oa, "secrets": []string{model.ContentID([]byte(secretA)), model.ContentID([]byte(secretB))},
			"req": vt.Ev{"sp": sp, "dp": splitArg(cc.DstArg), "slash": strings.HasSuffix(cc.DstArg, "/") && strings.Trim(cc.DstArg, "/") != "",
				"contents": cc.Contents, "replace": cc.Replace, "uid": cc.Uid, "gid": cc.Gid, "mode": cc.Mode, "sym": cc.Sym, "utime": utimeStr, "wild": wild},
			"filter": vt.Ev{"on": false}, "input": vt.Opaque(cc)}
		if cc.Model != nil {
			wr := [][][]int{}
			for _, q := range cc.Model.Written {
				wr = append(wr, vt.P(q))
			}
			ev["model"] = vt.Ev{"written": wr}
		}
		if cc.Kind == "filter" {
			paths := make([]string, len(srcSnap))
			for i, e := range srcSnap {
				paths[i] = e.Path
			}
			inc, err1 := hitMatrix(cc.Inc, paths)
			exc, err2 := hitMatrix(cc.Exc, paths)
			iv, err3 := incrVerdicts(cc.Inc, srcSnap)
			xv, err4 := incrVerdicts(cc.Exc, srcSnap)
			if err1 != nil || err2 != nil || err3 != nil || err4 != nil {
				continue // invalid pattern: not a case
			}
			incr := make([]bool, len(srcSnap))
			for i := range srcSnap {
				incr[i] = (len(cc.Inc) == 0 || iv[i]) && !(len(cc.Exc) > 0 && xv[i])
			}
			walk := [][][]int{}
			opt := &fsutil.FilterOpt{IncludePatterns: cc.Inc, ExcludePatterns: cc.Exc}
			if len(cc.Inc) == 0 {
				opt.IncludePatterns = nil
			}
			if len(cc.Exc) == 0 {
				opt.ExcludePatterns = nil
			}
			werr := fsutil.Walk(context.Background(), "/srcroot", opt, func(p string, fi os.FileInfo, err error) error {
				if err != nil {
					return err
				}
				walk = append(walk, vt.P(filepath.ToSlash(p)))
				return nil
			})
			ev["filter"] = vt.Ev{"on": true, "inc": inc, "exc": exc, "incr": incr, "walk": walk, "walkErr": werr != nil}
			ev["incPats"], ev["excPats"] = nonNil(cc.Inc), nonNil(cc.Exc)
		}
		w.Emit(ev)
	}
	w.Close()
}

func nonNil(s []string) []string {
	if s == nil {
		return []string{}
	}
	return s
}

// small shared name universe so that every type pair collides
func copyVariants(n string) []model.Tree { return copyVariantsX(n, false) }

func copyVariantsX(n string, dstSide bool) []model.Tree {
	f := func(p string, v int) model.Entry {
		d := fileData(int64(2000+v), 5+v)
		return model.Entry{Path: p, Type: "file", Perm: 0640, Uid: 3, Gid: 4, Size: int64(len(d)), Data: d, DSeed: int64(2000 + v), Content: model.ContentID(d),
			Mtime: 1400000000000000000 + int64(v)*1000000007}
	}
	dir := func(p string, perm uint32) model.Entry {
		return model.Entry{Path: p, Type: "dir", Perm: perm, Uid: 5, Gid: 6, Mtime: 1400000000123456789}
	}
	sym := func(p string) model.Entry {
		return model.Entry{Path: p, Type: "symlink", Perm: 0777, Link: "nowhere", Mtime: 1400000000987654321}
	}
	out := []model.Tree{
		nil,
		{f(n, 1)},
		{sym(n)},
		{dir(n, 0750)},
		{dir(n, 0750), f(n+"/y", 2)},
		{dir(n, 0750), dir(n+"/y", 0700)},
	}
	if dstSide {
		// a symlink that points at the other name (a directory in some destination trees)
		other := map[string]string{"x": "y", "y": "x"}[n]
		l := sym(n)
		l.Link = other
		out = append(out, model.Tree{l})
	}
	return out
}

func copyUniverse(srcSide bool) []model.Tree {
	var out []model.Tree
	for _, a := range copyVariantsX("x", !srcSide) {
		for _, b := range copyVariantsX("y", !srcSide) {
			t := append(append(model.Tree{}, a...), b...)
			if !srcSide {
				// destination versions differ in content / metadata from the source versions
				for i := range t {
					if t[i].Type == "file" {
						t[i].DSeed += 50
						t[i].Data = fileData(t[i].DSeed, int(t[i].Size)+1)
						t[i].Size++
						t[i].Content = model.ContentID(t[i].Data)
						t[i].Mtime += 12345
					}
					t[i].Uid, t[i].Gid = 9, 9
					if t[i].Type == "dir" {
						t[i].Perm = 0711
					}
					if t[i].Type == "symlink" && t[i].Link == "nowhere" {
						t[i].Link = "elsewhere"
					}
				}
			}
			t.Sort()
			out = append(out, t)
		}
	}
	return out
}

// Copy drives copy.Copy inside a chroot jail (C13 C14 C15 C16).
func Copy(c *Ctx) error {
	var cases []copyCase
	def := copyCase{Uid: -1, Gid: -1, Mode: -1}
	if c.Replay != "" {
		cc := &copyCase{}
		if err := vt.ReplayInput(c.Replay, cc); err != nil {
			return err
		}
		Regen(cc.Src)
		Regen(cc.Dst)
		cases = []copyCase{*cc}
	} else {
		switch c.What {
		case "overlay":
			srcs, dsts := copyUniverse(true), copyUniverse(false)
			type shape struct {
				src, dst       string
				contents, wild bool
			}
			shapes := []shape{{"x", "x", false, false}, {"x", "x", true, false}, {"x", "/", false, false}, {"/", "/", true, false},
				{"*", "/", false, true}, {"x", "new/", false, false}, {"x", "deep/er/x", false, false}, {"y", "x", false, false},
				{"x", "y/", false, false}, {"x/y", "y", false, false},
				{"*", "fresh", false, true}, {"*", "deep/fresh", false, true}, {"*", "fresh", true, true},
				{"x/*", "/", false, true}, {"x/y*", "x", false, true},
				{"..", "/", false, false}, {"x/..", "/", false, false}, {"x/..", "y", false, false}, {"x/../..", "/", true, false}, {"../x", "../x", false, false}}
			n := 0
			for si, s := range srcs {
				for di, d := range dsts {
					for hi, sh := range shapes {
						for _, rep := range []bool{false, true} {
							n++
							if !c.Thorough() && (si*7+di*3+hi+n)%9 != 0 {
								continue
							}
							cc := def
							cc.Kind, cc.Src, cc.Dst, cc.SrcArg, cc.DstArg, cc.Contents, cc.Wild, cc.Replace = "overlay", s, d, sh.src, sh.dst, sh.contents, sh.wild, rep
							cc.Origin = fmt.Sprintf("universe/shape%d", hi)
							cases = append(cases, cc)
						}
					}
				}
			}
			// wildcard sources written with a character class or '?' instead of '*' (sampled apart from the
			// block above, so that its sample stays what it was)
			{
				more := []shape{{"[xy]", "/", false, true}, {"[x]", "x", false, true}, {"?", "fresh", false, true}, {"x/[xy]", "/", false, true}, {"x/[y]*", "x", false, true}, {"[^y]", "/", true, true}}
				m := 0
				for si, s := range srcs {
					for di, d := range dsts {
						for hi, sh := range more {
							for _, rep := range []bool{false, true} {
								m++
								n++
								if !c.Thorough() && (si*5+di*3+hi+m)%7 != 0 {
									continue
								}
								cc := def
								cc.Kind, cc.Src, cc.Dst, cc.SrcArg, cc.DstArg, cc.Contents, cc.Wild, cc.Replace = "overlay", s, d, sh.src, sh.dst, sh.contents, sh.wild, rep
								cc.Origin = fmt.Sprintf("universe/classShape%d", hi)
								cases = append(cases, cc)
							}
						}
					}
				}
			}
			// hard links on either side of a file-over-file collision
			{
				f := func(p string, seed int64, group int) model.Entry {
					e := model.Entry{Path: p, Type: "file", Perm: 0644, Size: 9, DSeed: seed, Data: fileData(seed, 9), Mtime: uniqueMtime(), Group: group}
					e.Content = model.ContentID(e.Data)
					return e
				}
				twinSrc := model.Tree{f("x", 1, 7), f("y", 1, 7)}                  // x and y share an inode in the source
				twinDst := model.Tree{f("keep", 2, 8), f("x", 2, 8)}               // x shares an inode with an unrelated destination entry
				bothDst := model.Tree{f("keep", 2, 8), f("x", 2, 8), f("y", 3, 0)} // and y exists on its own
				for _, sd := range [][2]model.Tree{{twinSrc, nil}, {twinSrc, twinDst}, {twinSrc, bothDst}, {{f("x", 4, 0)}, twinDst}, {{f("x", 4, 0), f("y", 5, 0)}, bothDst}} {
					for _, sh := range []shape{{"/", "/", true, false}, {"x", "x", false, false}, {"*", "/", false, true}} {
						for _, rep := range []bool{false, true} {
							cc := def
							cc.Kind, cc.Src, cc.Dst, cc.SrcArg, cc.DstArg, cc.Contents, cc.Wild, cc.Replace = "overlay", sd[0], sd[1], sh.src, sh.dst, sh.contents, sh.wild, rep
							cc.Origin = "hardlinks"
							cases = append(cases, cc)
						}
					}
				}
			}
			c.Stats.Exhaustive = c.Thorough()
			c.Stats.Note(fmt.Sprintf("overlay universe: %d source trees x %d destination trees (names x, y; absent/file/symlink/dir/dir+file/dir+dir) x %d request shapes x always-replace on/off = %d cases, %d run", len(srcs), len(dsts), len(shapes), n, len(cases)))
			c.Stats.Rule = "one case = one copy.Copy call (and its repetition) over (source tree, destination tree, request shape, always-replace); non-trivial = source and destination collide on at least one path; distinct by the full input"
		case "contain":
			// symlinks to the outside sentinels in every position
			links := []model.Entry{
				{Type: "symlink", Link: "/outside/o", Perm: 0777, Mtime: uniqueMtime()},
				{Type: "symlink", Link: "/outside/od", Perm: 0777, Mtime: uniqueMtime()},
				{Type: "symlink", Link: "../outside/o", Perm: 0777, Mtime: uniqueMtime()},
				{Type: "symlink", Link: "../../outside/od", Perm: 0777, Mtime: uniqueMtime()},
				{Type: "symlink", Link: "../outside/missing", Perm: 0777, Mtime: uniqueMtime()},
				{Type: "symlink", Link: "/outside/od/new", Perm: 0777, Mtime: uniqueMtime()},
				{Type: "symlink", Link: "loop", Perm: 0777, Mtime: uniqueMtime()},
			}
			mk := func(p string) model.Entry {
				e := newFile(c.Rand, genOpts{})
				e.Path = p
				return e
			}
			dirE := func(p string) model.Entry {
				return model.Entry{Path: p, Type: "dir", Perm: 0755, Mtime: uniqueMtime()}
			}
			at := func(l model.Entry, p string) model.Entry { l.Path = p; return l }
			for li, l := range links {
				for _, follow := range []bool{false, true} {
					for _, rep := range []bool{false, true} {
						add := func(src, dst model.Tree, sa, da string, contents, wild bool, origin string) {
							cc := def
							cc.Kind, cc.Src, cc.Dst, cc.SrcArg, cc.DstArg, cc.Contents, cc.Wild, cc.Follow, cc.Replace = "contain", src, dst, sa, da, contents, wild, follow, rep
							cc.Origin = fmt.Sprintf("%s/link%d", origin, li)
							cases = append(cases, cc)
						}
						// symlink inside the source tree
						add(model.Tree{dirE("d"), mk("d/f"), at(l, "d/l"), at(l, "loop")}, nil, "/", "/", true, false, "srcTree")
						add(model.Tree{at(l, "l"), mk("f")}, nil, "l", "copied", false, false, "srcArgIsLink")
						add(model.Tree{at(l, "l"), mk("f")}, nil, "l/x", "copied", false, false, "srcArgThroughLink")
						add(model.Tree{at(l, "l"), mk("f")}, nil, "l/x", "copied", false, true, "srcArgThroughLink/wildcardsAllowed")
						add(model.Tree{at(l, "l"), mk("f")}, nil, "l/o*", "copied", false, true, "srcArgThroughLink/wildcardBelowLink")
						add(model.Tree{at(l, "l"), mk("f")}, nil, "*", "/", false, true, "srcWildcard")
						// several matches into a destination that does not exist yet: the first match (the link) becomes the
						// destination entry, the next match must not be written through it
						add(model.Tree{at(l, "l"), mk("m"), dirE("n"), mk("n/x")}, nil, "*", "sub", false, true, "srcWildcardIntoFreshDst")
						add(model.Tree{at(l, "l"), mk("m"), dirE("n"), mk("n/x")}, nil, "*", "sub", true, true, "srcWildcardIntoFreshDst/contents")
						// ... and with a directory as the very next match
						add(model.Tree{at(l, "l"), dirE("n"), mk("n/x")}, nil, "*", "sub", false, true, "srcWildcardIntoFreshDst/dirNext")
						add(model.Tree{at(l, "l"), dirE("n"), mk("n/x")}, nil, "*", "deep/sub", false, true, "srcWildcardIntoFreshDst/dirNext/deep")
						// symlink in the destination tree at the position of a source entry
						add(model.Tree{mk("f"), dirE("d"), mk("d/x")}, model.Tree{at(l, "f"), at(l, "d")}, "/", "/", true, false, "dstTreeCollides")
						add(model.Tree{dirE("d"), mk("d/x"), mk("d/new")}, model.Tree{at(l, "d")}, "d", "/", false, false, "dstDirIsLink")
						add(model.Tree{mk("f")}, model.Tree{at(l, "f")}, "/", "/", true, false, "dstFileIsLink")
						add(model.Tree{mk("f")}, model.Tree{at(l, "f")}, "f", "f", false, false, "dstFileIsLinkArg")
						add(model.Tree{dirE("d"), mk("d/f")}, model.Tree{dirE("d"), at(l, "d/f")}, "d", "/", false, false, "dstNestedFileIsLink")
						// symlink as a component of the destination path argument
						add(model.Tree{mk("f")}, model.Tree{at(l, "data")}, "f", "data/cache/v1/f", false, false, "dstArgThroughLink")
						add(model.Tree{mk("f")}, model.Tree{at(l, "data")}, "f", "data/", false, false, "dstArgIsLinkSlash")
						add(model.Tree{mk("f")}, model.Tree{at(l, "data")}, "f", "data", false, false, "dstArgIsLink")
						add(model.Tree{dirE("d"), mk("d/x")}, model.Tree{at(l, "data")}, "d", "data/sub", true, false, "dstArgDirThroughLink")
						// a parent directory created on demand for an include match, where the destination holds a symlink
						{
							cc := def
							cc.Kind, cc.Src, cc.Dst, cc.SrcArg, cc.DstArg, cc.Contents, cc.Follow, cc.Replace = "contain",
								model.Tree{dirE("sub"), mk("sub/keep.txt"), mk("sub/other"), dirE("sub/deep"), mk("sub/deep/keep.txt"), mk("sub/x")}, model.Tree{at(l, "sub")}, "/", "/", true, follow, rep
							// (sub/x: the outside directory holds an entry of that name)
							cc.Inc = []string{[]string{"sub/keep.txt", "sub/deep/keep.txt", "**/keep.txt"}[li%3]}
							cc.Origin = fmt.Sprintf("onDemandParentIsLink/link%d", li)
							cases = append(cases, cc)
							// (the outside directory holds an entry named x)
							cc.Inc = []string{"sub/x"}
							cc.Origin = fmt.Sprintf("onDemandParentIsLink/sameNameOutside/link%d", li)
							cases = append(cases, cc)
							cc.Inc, cc.Exc = nil, []string{"sub/other"}
							cc.Origin = fmt.Sprintf("excludeWithLinkedParent/link%d", li)
							cases = append(cases, cc)
						}
					}
				}
			}
			// the same shapes with an explicit timestamp and owner (metadata must be applied to the link, never through it)
			for _, cc := range append([]copyCase{}, cases...) {
				if cc.Kind == "contain" && cc.Utime == 0 && !cc.Replace {
					cc.Utime = 1234567890123456789
					cc.Uid, cc.Gid = 1234, 4321
					cc.Origin += "/utime+chown"
					cases = append(cases, cc)
					// and with a numeric or symbolic mode override (chmod follows links)
					cm := cc
					cm.Mode = 0751
					cm.Origin += "+mode"
					cases = append(cases, cm)
					cs := cc
					cs.Sym = "a+rwx"
					cs.Origin += "+symbolicMode"
					cases = append(cases, cs)
				}
			}
			// '..'-laden path arguments (no symlink needed): each root is the '/' of its side, so '..' stops there
			for _, sa := range []string{"..", "d/..", "../..", "d/../..", "../f", "d/../f", "/..", "../d", "d/../../d", "./.."} {
				for _, da := range []string{"/", "..", "../..", "x/..", "../x", "x/../..", "new/../../y", ".", "e", "e/..", "../e/"} {
					for _, contents := range []bool{false, true} {
						for _, follow := range []bool{false, true} {
							cc := def
							cc.Kind, cc.Src, cc.SrcArg, cc.DstArg, cc.Contents, cc.Follow = "contain", model.Tree{dirE("d"), mk("d/x"), mk("f")}, sa, da, contents, follow
							cc.Dst = model.Tree{dirE("e"), mk("e/keep")}
							cc.Origin = "dotdotArgs"
							cases = append(cases, cc)
						}
					}
				}
			}
			c.Stats.Exhaustive = true
			c.Stats.Rule = "one case = one copy.Copy call with a symlink to an outside sentinel (absolute, ..-laden, dangling, into a missing outside path, looping) placed in the source tree, the destination tree, the source argument or the destination argument, x follow-links x always-replace; every case is non-trivial; distinct by the full input"
		case "filter":
			n := 1200
			if c.Thorough() {
				n = 8000
			}
			{
				// systematic part on a fixed tree: single patterns and [X, !Y] pairs, as include and as exclude list
				var full model.Tree
				for _, p := range []string{"a", "a/a", "a/a/a", "a/a/b", "a/ab", "a/b", "a.txt", "ab", "ab/a", "ab/b", "b", "b/a", "b/a/a", "c"} {
					isDir := p == "a" || p == "a/a" || p == "ab" || p == "b" || p == "b/a"
					if isDir {
						full = append(full, model.Entry{Path: p, Type: "dir", Perm: []uint32{0750, 0775, 01777, 0711, 02775}[len(full)%5], Uid: uint32(1 + len(full)%4), Gid: 2, Mtime: uniqueMtime()})
					} else {
						e := newFile(c.Rand, genOpts{})
						e.Path = p
						full = append(full, e)
					}
				}
				full.Sort()
				pats := []string{"a", "ab", "b", "*", "a*", "a/a", "a/b", "*/a", "*/b", "b/a", "a/*", "**/a", "a/a/*"}
				for _, x := range pats {
					for _, y := range append([]string{""}, pats...) {
						if y != "" && !c.Thorough() && c.Rand.Intn(3) != 0 {
							continue
						}
						l := []string{x}
						if y != "" {
							l = []string{x, "!" + y}
						}
						ci, ce := def, def
						ci.Kind, ci.Src, ci.SrcArg, ci.DstArg, ci.Contents, ci.Origin, ci.Inc = "filter", full, "/", "/", true, "systematic", l
						ce.Kind, ce.Src, ce.SrcArg, ce.DstArg, ce.Contents, ce.Origin, ce.Exc = "filter", full, "/", "/", true, "systematic", l
						cases = append(cases, ci, ce)
						// redundant entries: the same pattern again after the exception (the last matching pattern wins, so
						// the repeat takes back what the exception carved out)
						if y != "" && (c.Thorough() || c.Rand.Intn(2) == 0) {
							l3 := []string{x, "!" + y, x}
							ci3, ce3 := ci, ce
							ci3.Inc, ce3.Exc = l3, l3
							ci3.Origin, ce3.Origin = "systematic/repeated", "systematic/repeated"
							cases = append(cases, ci3, ce3)
						}
					}
				}
			}
			// the pattern lists TLC enumerated from spec/CopyFilterMC.tla on the model's own tree, with the algorithm model's written set
			if gen := os.Getenv("VERIF_GEN_DIR"); gen != "" {
				files, _ := filepath.Glob(filepath.Join(gen, "copycase_*.ndjson"))
				sort.Strings(files)
				mt := filterModelTree(c)
				for _, f := range files {
					err := readLines(f, func(ln []byte) error {
						var fc struct {
							Name    string   `json:"name"`
							Mode    string   `json:"mode"`
							Pats    []string `json:"pats"`
							Written []string `json:"written"`
						}
						if err := json.Unmarshal(ln, &fc); err != nil {
							return err
						}
						cc := def
						cc.Kind, cc.Src, cc.SrcArg, cc.DstArg, cc.Contents, cc.Origin = "filter", mt, "/", "/", true, "copyModel/"+fc.Name
						cc.Model = &copyModel{Name: fc.Name, Written: fc.Written}
						if cc.Model.Written == nil {
							cc.Model.Written = []string{}
						}
						if fc.Mode == "inc" {
							cc.Inc = fc.Pats
						} else {
							cc.Exc = fc.Pats
						}
						cases = append(cases, cc)
						return nil
					})
					if err != nil {
						return err
					}
				}
				c.Stats.Note(fmt.Sprintf("%d pattern lists enumerated by TLC from CopyFilterMC, each with the algorithm model's written set", len(files)))
			}
			for i := 0; i < n; i++ {
				t := filterTree(c)
				for k := range t {
					if t[k].Type == "dir" {
						// (also modes mkdir does not produce under umask 022, and special bits: an ancestor created on demand
						// must be given the source directory's mode explicitly)
						t[k].Perm = []uint32{0750, 0711, 0700, 0755, 0775, 01777, 02775, 0777}[c.Rand.Intn(8)]
						t[k].Uid, t[k].Gid = uint32(1+c.Rand.Intn(5)), uint32(1+c.Rand.Intn(5))
						if c.Rand.Intn(3) == 0 {
							t[k].Xattrs = map[string]string{"user.d": fmt.Sprint(k)}
						}
					}
				}
				// hard-link groups: whether a name is selected must not depend on what happened to another name of the inode
				{
					var fi []int
					for k := range t {
						if t[k].Type == "file" {
							fi = append(fi, k)
						}
					}
					if len(fi) >= 2 && c.Rand.Intn(2) == 0 {
						a, b := fi[c.Rand.Intn(len(fi))], fi[c.Rand.Intn(len(fi))]
						if a != b {
							p := t[b].Path
							t[a].Group = 900
							t[b] = t[a]
							t[b].Path = p
						}
					}
				}
				cc := def
				cc.Kind, cc.Src, cc.SrcArg, cc.DstArg, cc.Contents, cc.Origin = "filter", t, "/", "/", true, "random"
				for k := 0; k < c.Rand.Intn(3); k++ {
					p := randomPattern(c, t)
					if strings.HasPrefix(p, "!") && c.Rand.Intn(3) != 0 {
						p = p[1:]
					}
					cc.Inc = append(cc.Inc, p)
				}
				for k := 0; k < c.Rand.Intn(3); k++ {
					p := randomPattern(c, t)
					if strings.HasPrefix(p, "!") && c.Rand.Intn(3) != 0 {
						p = p[1:]
					}
					cc.Exc = append(cc.Exc, p)
				}
				if len(cc.Inc)+len(cc.Exc) == 0 {
					cc.Inc = []string{randomPattern(c, t)}
				}
				switch c.Rand.Intn(4) {
				case 0:
					// populated destination: unrelated entries
					cc.Dst = model.Tree{{Path: "zz-unrelated", Type: "file", Perm: 0644, Mtime: uniqueMtime(), Data: []byte("u"), Size: 1}}
				case 1:
					// populated destination: stale files at the paths of some source files (whatever the filter selects,
					// an entry at the path of a source file that is NOT selected must stay as it is)
					have := map[string]bool{}
					for _, e := range t {
						if e.Type != "file" || c.Rand.Intn(2) == 0 {
							continue
						}
						for _, a := range ancestorsOf(e.Path) {
							if !have[a] {
								have[a] = true
								cc.Dst = append(cc.Dst, model.Entry{Path: a, Type: "dir", Perm: 0755, Mtime: uniqueMtime()})
							}
						}
						st := newFile(c.Rand, genOpts{})
						st.Path = e.Path
						cc.Dst = append(cc.Dst, st)
					}
					cc.Dst.Sort()
					cc.Origin = "random/staleDestination"
				}
				cases = append(cases, cc)
			}
			c.Stats.Rule = "one case = one copy.Copy of a whole tree with include/exclude lists; non-trivial = some entry is copied and some is not; distinct by (tree, patterns)"
		default: // fidelity (C13)
			n := 700
			if c.Thorough() {
				n = 5000
			}
			o := genOpts{MaxEntries: 30, Special: true, Xattrs: true, Links: true, BigFiles: true, LongNames: true}
			syms := []string{"", "", "u+x", "go-w", "a+X", "a=rX", "o-w", "u=rwx,go=rx"}
			for i := 0; i < n; i++ {
				t := RandomTree(c.Rand, o)
				// directories without execute bits and with special bits (for X and for special-bit preservation)
				for k := range t {
					if t[k].Type == "dir" && c.Rand.Intn(4) == 0 {
						t[k].Perm = []uint32{0600, 01777, 02750, 0640}[c.Rand.Intn(4)]
					}
				}
				cc := def
				cc.Kind, cc.Src, cc.Origin = "fidelity", t, "random"
				switch c.Rand.Intn(5) {
				case 0, 1:
					cc.SrcArg, cc.DstArg, cc.Contents = "/", "/", true
				case 2: // a sub-directory
					cc.SrcArg, cc.DstArg, cc.Contents = "/", "/", true
					for _, e := range t {
						if e.Type == "dir" {
							cc.SrcArg, cc.DstArg, cc.Contents = e.Path, "/", c.Rand.Intn(2) == 0
							break
						}
					}
				case 3: // a single non-directory, to a new name below not yet existing directories
					cc.SrcArg, cc.DstArg, cc.Contents = "/", "/", true
					for _, e := range t {
						if e.Type != "dir" && !strings.Contains(e.Path, "/") {
							cc.SrcArg, cc.DstArg, cc.Contents = e.Path, []string{"copy", "new/dir/copy", "newdir/"}[c.Rand.Intn(3)], false
							break
						}
					}
				case 4:
					cc.SrcArg, cc.DstArg, cc.Contents = "/", "fresh/sub", true
				}
				if c.Rand.Intn(2) == 0 {
					cc.Uid, cc.Gid = 100+c.Rand.Intn(3), 200+c.Rand.Intn(3)
				}
				switch c.Rand.Intn(3) {
				case 0:
					cc.Mode = []int{0644, 0600, 0755, 04755, 01777, 02700}[c.Rand.Intn(6)]
				case 1:
					cc.Sym = syms[c.Rand.Intn(len(syms))]
				}
				if c.Rand.Intn(3) == 0 {
					cc.Utime = 1234567890123456789 + int64(c.Rand.Intn(1000))
				}
				cases = append(cases, cc)
			}
			c.Stats.Rule = "one case = one copy.Copy of a random tree (all entry types, link groups, xattrs, special mode bits) into an empty destination under one option set {chown, octal mode, symbolic mode, utime} and one shape {whole tree, sub-directory, single entry, nested new destination}; non-trivial = at least one option set and at least 3 entries; distinct by the full input"
		}
	}
	for i := range cases {
		cases[i].Case = c.NextCase()
	}
	nb := 16
	if len(cases) < 64 {
		nb = 1
	}
	type out struct {
		data []byte
		err  error
	}
	outs := make([]out, nb)
	var wg sync.WaitGroup
	self, err := os.Executable()
	if err != nil {
		return err
	}
	for b := 0; b < nb; b++ {
		wg.Add(1)
		go func(b int) {
			defer wg.Done()
			var mine []copyCase
			for i := b; i < len(cases); i += nb {
				mine = append(mine, cases[i])
			}
			jail := filepath.Join(c.Work, fmt.Sprintf("cjail%d", b))
			if err := os.MkdirAll(jail, 0755); err != nil {
				outs[b].err = err
				return
			}
			defer disk.RemoveAll(jail)
			js, _ := json.Marshal(mine)
			if err := os.WriteFile(filepath.Join(jail, "cases.json"), js, 0644); err != nil {
				outs[b].err = err
				return
			}
			cmd := exec.Command(self, "copy-child", jail)
			var stderr bytes.Buffer
			cmd.Stderr = &stderr
			if err := cmd.Run(); err != nil {
				outs[b].err = fmt.Errorf("copy child: %v: %s", err, trunc(stderr.String()))
				return
			}
			outs[b].data, outs[b].err = os.ReadFile(filepath.Join(jail, "events.ndjson"))
		}(b)
	}
	wg.Wait()
	byCase := map[int]vt.Ev{}
	for b := range outs {
		if outs[b].err != nil {
			return outs[b].err
		}
		for _, ln := range bytes.Split(bytes.TrimRight(outs[b].data, "\n"), []byte("\n")) {
			if len(ln) == 0 {
				continue
			}
			var e vt.Ev
			d := json.NewDecoder(bytes.NewReader(ln))
			d.UseNumber()
			if err := d.Decode(&e); err != nil {
				return err
			}
			n, _ := e["case"].(json.Number).Int64()
			byCase[int(n)] = e
		}
	}
	for _, cc := range cases {
		e, ok := byCase[cc.Case]
		if !ok {
			c.Stats.Count("invalidPatternSkipped", 1)
			continue
		}
		c.Out.Emit(e)
		nt := true
		switch cc.Kind {
		case "overlay":
			nt = false
			for _, s := range cc.Src {
				if cc.Dst.Find(s.Path) != nil {
					nt = true
				}
			}
		case "fidelity":
			nt = len(cc.Src) >= 3 && (cc.Uid >= 0 || cc.Mode >= 0 || cc.Sym != "" || cc.Utime != 0)
		case "filter":
			na := len(e["after"].([]any))
			nt = na > 0 && na < len(cc.Src)
		}
		c.Stats.Case(vt.Opaque(cc), nt)
		c.Stats.Count("origin:"+strings.SplitN(cc.Origin, "/", 2)[0], 1)
		if okv, _ := e["ok"].(bool); okv {
			c.Stats.Count("copyOK", 1)
		} else {
			c.Stats.Count("copyErr", 1)
		}
		if nt {
			c.Stats.Sample(vt.Ev{"kind": cc.Kind, "src": pathsOf(cc.Src), "dst": pathsOf(cc.Dst), "srcArg": cc.SrcArg, "dstArg": cc.DstArg,
				"contents": cc.Contents, "replace": cc.Replace, "wild": cc.Wild, "follow": cc.Follow, "uid": cc.Uid, "mode": cc.Mode, "sym": cc.Sym,
				"include": cc.Inc, "exclude": cc.Exc, "ok": e["ok"]})
		}
	}
	return nil
}
