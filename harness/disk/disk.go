// Package disk materialises abstract trees and takes snapshots with its own
// lstat/readlink/llistxattr code (nothing from fsutil is used here).
package disk

import (
	"fmt"
	"os"
	"path/filepath"
	"sort"
	"strings"
	"syscall"

	"golang.org/x/sys/unix"
	"verif/harness/model"
)

// Materialise creates tree t under root (root must exist).  Hard-link groups
// are given by Entry.Group (any non-zero label shared by the members).
func Materialise(root string, t model.Tree) error {
	tt := t.Clone()
	tt.Sort()
	groups := map[int]string{}
	for i := range tt {
		e := &tt[i]
		p := filepath.Join(root, filepath.FromSlash(e.Path))
		if e.Group != 0 && e.Type != "dir" {
			// later members of an inode group (regular files, fifos, device nodes) are links to the first
			if first, ok := groups[e.Group]; ok {
				if err := os.Link(first, p); err != nil {
					return err
				}
				continue
			}
			groups[e.Group] = p
		}
		switch e.Type {
		case "dir":
			if err := os.Mkdir(p, 0700); err != nil {
				return err
			}
		case "file":
			if err := os.WriteFile(p, e.Data, 0600); err != nil {
				return err
			}
		case "symlink":
			if err := os.Symlink(e.Link, p); err != nil {
				return err
			}
		case "fifo":
			if err := unix.Mknod(p, unix.S_IFIFO|0600, 0); err != nil {
				return err
			}
		case "chr", "blk":
			m := uint32(unix.S_IFCHR)
			if e.Type == "blk" {
				m = unix.S_IFBLK
			}
			if err := unix.Mknod(p, m|0600, int(unix.Mkdev(uint32(e.Devmajor), uint32(e.Devminor)))); err != nil {
				return err
			}
		default:
			return fmt.Errorf("materialise: unknown type %q", e.Type)
		}
	}
	// metadata, deepest first so that directory mtimes stick
	for i := len(tt) - 1; i >= 0; i-- {
		e := &tt[i]
		p := filepath.Join(root, filepath.FromSlash(e.Path))
		if err := os.Lchown(p, int(e.Uid), int(e.Gid)); err != nil {
			return err
		}
		if e.Type != "symlink" {
			if err := unix.Chmod(p, e.Perm&07777); err != nil {
				return err
			}
		}
		// after the ownership change: the kernel drops security.capability on chown
		for k, v := range e.Xattrs {
			if err := unix.Lsetxattr(p, k, []byte(v), 0); err != nil {
				return fmt.Errorf("lsetxattr %s %s: %w", p, k, err)
			}
		}
		ts := []unix.Timespec{unix.NsecToTimespec(e.Mtime), unix.NsecToTimespec(e.Mtime)}
		if err := unix.UtimesNanoAt(unix.AT_FDCWD, p, ts, unix.AT_SYMLINK_NOFOLLOW); err != nil {
			return err
		}
	}
	return nil
}

// Snapshot lists everything below root (root excluded), sorted in walk order,
// with hard-link groups labelled canonically by inode.  withData keeps file bytes.
func Snapshot(root string, withData bool) (model.Tree, error) {
	t, _, err := SnapshotCapped(root, withData, 0, 0)
	return t, err
}

// SnapshotCapped is Snapshot that does not descend below maxDepth components and stops after
// maxEntries entries (0 = no limit); truncated reports whether anything was left out.  A runaway
// operation (a copy of a tree into itself) must not make the trace unreadable.
func SnapshotCapped(root string, withData bool, maxEntries, maxDepth int) (model.Tree, bool, error) {
	var t model.Tree
	truncated := false
	var rec func(rel string) error
	rec = func(rel string) error {
		if maxDepth > 0 && rel != "" && strings.Count(rel, "/")+1 >= maxDepth {
			truncated = true
			return nil
		}
		dir := filepath.Join(root, filepath.FromSlash(rel))
		f, err := os.Open(dir)
		if err != nil {
			return err
		}
		names, err := f.Readdirnames(-1)
		f.Close()
		if err != nil {
			return err
		}
		sort.Strings(names)
		for _, n := range names {
			r := n
			if rel != "" {
				r = rel + "/" + n
			}
			if maxEntries > 0 && len(t) >= maxEntries {
				truncated = true
				return nil
			}
			e, err := StatEntry(filepath.Join(dir, n), r, withData)
			if err != nil {
				return err
			}
			t = append(t, e)
			if e.Type == "dir" {
				if err := rec(r); err != nil {
					return err
				}
			}
		}
		return nil
	}
	if err := rec(""); err != nil {
		return nil, false, err
	}
	t.Canon(func(e *model.Entry) string {
		if e.Nlink > 1 {
			return fmt.Sprint(e.Ino)
		}
		return ""
	})
	return t, truncated, nil
}

// StatEntry describes one path without following symlinks.
func StatEntry(p, rel string, withData bool) (model.Entry, error) {
	var st unix.Stat_t
	if err := unix.Lstat(p, &st); err != nil {
		return model.Entry{}, fmt.Errorf("lstat %s: %w", p, err)
	}
	e := model.Entry{Path: rel, Perm: uint32(st.Mode) & 07777, Uid: st.Uid, Gid: st.Gid,
		Mtime: st.Mtim.Sec*1e9 + st.Mtim.Nsec, Ino: st.Ino, Nlink: uint64(st.Nlink), Ctime: st.Ctim.Sec*1e9 + st.Ctim.Nsec}
	switch st.Mode & unix.S_IFMT {
	case unix.S_IFDIR:
		e.Type = "dir"
	case unix.S_IFREG:
		e.Type = "file"
		e.Size = st.Size
		b, err := os.ReadFile(p)
		if err != nil {
			// unreadable only if not root; record as such
			e.Content = "unreadable"
		} else {
			e.Content = model.ContentID(b)
			if withData {
				e.Data = b
			}
		}
	case unix.S_IFLNK:
		e.Type = "symlink"
		l, err := os.Readlink(p)
		if err != nil {
			return e, err
		}
		e.Link = l
		e.Size = st.Size
	case unix.S_IFIFO:
		e.Type = "fifo"
	case unix.S_IFCHR:
		e.Type = "chr"
		e.Devmajor, e.Devminor = int64(unix.Major(uint64(st.Rdev))), int64(unix.Minor(uint64(st.Rdev)))
	case unix.S_IFBLK:
		e.Type = "blk"
		e.Devmajor, e.Devminor = int64(unix.Major(uint64(st.Rdev))), int64(unix.Minor(uint64(st.Rdev)))
	case unix.S_IFSOCK:
		e.Type = "sock"
	}
	// xattrs, never following
	sz, err := unix.Llistxattr(p, nil)
	if err == nil && sz > 0 {
		buf := make([]byte, sz)
		n, err := unix.Llistxattr(p, buf)
		if err == nil {
			for _, k := range strings.Split(strings.TrimRight(string(buf[:n]), "\x00"), "\x00") {
				if k == "" {
					continue
				}
				vs, err := unix.Lgetxattr(p, k, nil)
				if err != nil {
					continue
				}
				v := make([]byte, vs)
				vn, err := unix.Lgetxattr(p, k, v)
				if err != nil {
					continue
				}
				if e.Xattrs == nil {
					e.Xattrs = map[string]string{}
				}
				e.Xattrs[k] = string(v[:vn])
			}
		}
	} else if err != nil && err != syscall.ENOTSUP && err != syscall.ENODATA {
		_ = err
	}
	return e, nil
}

// RemoveAll removes a scratch tree even if it contains read-only directories.
func RemoveAll(p string) {
	filepath.Walk(p, func(q string, fi os.FileInfo, err error) error {
		if err == nil && fi.IsDir() {
			os.Chmod(q, 0700)
		}
		return nil
	})
	os.RemoveAll(p)
}
