// Package hstream is the harness-owned implementation of fsutil.Stream: an
// in-memory pair of endpoints with bounded buffers that logs every packet,
// detects overlapping SendMsg/RecvMsg calls, injects faults at operation
// indexes and implements the teardown rule "when a call returns, its end of
// the stream is closed" (the peer reads EOF after draining, sends fail).
//
// Ordering: every event gets a sequence number under one mutex.  A send gets
// its number *before* the packet becomes visible to the peer (under the
// pipe's own lock, so log order = channel order); a receive gets its number
// after the packet was taken.  Events are buffered and sorted by seq.
package hstream

import (
	"bytes"
	"context"
	"crypto/sha256"
	"encoding/hex"
	"errors"
	"fmt"
	"io"
	"os"
	"sort"
	"sync"
	"sync/atomic"
	"time"

	"github.com/tonistiigi/fsutil/types"
	"verif/harness/model"
	"verif/harness/vt"
)

var ErrBroken = errors.New("hstream: stream broken")
var ErrPeerGone = errors.New("hstream: peer has gone away")

type pipe struct {
	mu                  sync.Mutex
	ch                  chan []byte
	eof                 chan struct{} // closed when the writing end is torn down
	broken              chan struct{} // closed when the reading end is torn down
	eofOnce, brokenOnce sync.Once
}

// Conn is one bidirectional stream.
type Conn struct {
	last    int64
	mu      sync.Mutex
	seq     int
	events  []vt.Ev
	brk     chan struct{}
	brkOnce sync.Once
	S, R    *Endpoint // S is used by the sending side (fsutil.Send), R by Receive

	// annotation state for the S->R direction
	statPaths []string // path announced by the i-th STAT
	statEv    []vt.Ev
	offs      map[uint32]int64 // bytes seen per id
	// Content returns the expected bytes of the file announced at STAT index id.
	Content func(id uint32, path string) ([]byte, bool)
	// Quiet suppresses per-packet events (used by large fan-out fault runs)
	Quiet bool
}

type Fault struct {
	Op  string // "send" | "recv"
	K   int    // operation index (0-based) on that endpoint
	Err error
	// Do, if set, runs instead of returning Err (e.g. break the stream, cancel)
	Do func()
}

type Endpoint struct {
	Name           string
	c              *Conn
	ctx            context.Context
	cancel         context.CancelFunc
	in, out        *pipe
	sendN, recvN   int32
	inSend, inRecv int32
	Faults         []Fault
	// Gate, if set, is called before every operation (may sleep or block)
	Gate func(op string, k int)
	torn int32
}

func New(ctx context.Context, capS2R, capR2S int) *Conn {
	c := &Conn{brk: make(chan struct{}), offs: map[uint32]int64{}}
	c.touch()
	s2r := &pipe{ch: make(chan []byte, capS2R), eof: make(chan struct{}), broken: make(chan struct{})}
	r2s := &pipe{ch: make(chan []byte, capR2S), eof: make(chan struct{}), broken: make(chan struct{})}
	sctx, sc := context.WithCancel(ctx)
	rctx, rc := context.WithCancel(ctx)
	c.S = &Endpoint{Name: "S", c: c, ctx: sctx, cancel: sc, in: r2s, out: s2r}
	c.R = &Endpoint{Name: "R", c: c, ctx: rctx, cancel: rc, in: s2r, out: r2s}
	return c
}

// LastActivity is the time of the last stream operation or logged event.
func (c *Conn) LastActivity() time.Time {
	return time.Unix(0, atomic.LoadInt64(&c.last))
}

func (c *Conn) touch() { atomic.StoreInt64(&c.last, time.Now().UnixNano()) }

func (c *Conn) nextSeq() int {
	c.touch()
	c.mu.Lock()
	c.seq++
	n := c.seq
	c.mu.Unlock()
	return n
}

// Log records a harness-level event with the next sequence number.
func (c *Conn) Log(e vt.Ev) {
	c.touch()
	c.mu.Lock()
	c.seq++
	e["seq"] = c.seq
	c.events = append(c.events, e)
	c.mu.Unlock()
}

func (c *Conn) logAt(seq int, e vt.Ev) {
	e["seq"] = seq
	c.mu.Lock()
	c.events = append(c.events, e)
	c.mu.Unlock()
}

// Events returns everything logged so far, sorted by sequence number.
func (c *Conn) Events() []vt.Ev {
	c.mu.Lock()
	out := append([]vt.Ev{}, c.events...)
	c.mu.Unlock()
	sort.SliceStable(out, func(i, j int) bool { return out[i]["seq"].(int) < out[j]["seq"].(int) })
	return out
}

// Break makes every later operation on both endpoints fail (network loss).
func (c *Conn) Break() {
	c.brkOnce.Do(func() {
		c.Log(vt.Ev{"ev": "Break"})
		close(c.brk)
	})
}

// StatLog returns the paths announced so far, by STAT index.
func (c *Conn) StatLog() []string {
	c.mu.Lock()
	defer c.mu.Unlock()
	return append([]string{}, c.statPaths...)
}

// TearDown closes this end: the peer reads EOF after draining what was sent,
// the peer's sends fail, this end's context is cancelled.
func (e *Endpoint) TearDown() {
	if !atomic.CompareAndSwapInt32(&e.torn, 0, 1) {
		return
	}
	e.c.Log(vt.Ev{"ev": "TearDown", "ep": e.Name})
	e.out.eofOnce.Do(func() { close(e.out.eof) })
	e.in.brokenOnce.Do(func() { close(e.in.broken) })
	e.cancel()
}

// Ops returns how many SendMsg / RecvMsg calls this endpoint has seen.
func (e *Endpoint) Ops() (sends, recvs int) {
	return int(atomic.LoadInt32(&e.sendN)), int(atomic.LoadInt32(&e.recvN))
}

// Cancel cancels the stream context of this endpoint (as gRPC does when the
// call's context is cancelled): blocked operations return ctx.Err().
func (e *Endpoint) Cancel() { e.cancel() }

func (e *Endpoint) Context() context.Context { return e.ctx }

func (e *Endpoint) fault(op string, k int) error {
	for _, f := range e.Faults {
		if f.Op == op && f.K == k {
			e.c.Log(vt.Ev{"ev": "Fault", "ep": e.Name, "op": op, "k": k})
			if f.Do != nil {
				f.Do()
				if f.Err == nil {
					return nil
				}
			}
			return f.Err
		}
	}
	return nil
}

func (e *Endpoint) SendMsg(m interface{}) error {
	if n := atomic.AddInt32(&e.inSend, 1); n > 1 {
		e.c.Log(vt.Ev{"ev": "Overlap", "ep": e.Name, "op": "send"})
	}
	defer atomic.AddInt32(&e.inSend, -1)
	k := int(atomic.AddInt32(&e.sendN, 1)) - 1
	if e.Gate != nil {
		e.Gate("send", k)
	}
	if err := e.fault("send", k); err != nil {
		return err
	}
	p, ok := m.(*types.Packet)
	if !ok {
		return errors.New("hstream: not a packet")
	}
	raw, err := p.MarshalVT()
	if err != nil {
		return err
	}
	select {
	case <-e.c.brk:
		return ErrBroken
	case <-e.out.broken:
		return ErrPeerGone
	case <-e.ctx.Done():
		return e.ctx.Err()
	default:
	}
	e.out.mu.Lock()
	defer e.out.mu.Unlock()
	seq := e.c.nextSeq()
	ev := e.c.describe(e, p, k)
	select {
	case e.out.ch <- raw:
		if ev != nil {
			e.c.logAt(seq, ev)
		}
		if e.Gate != nil {
			// the packet is already visible to the peer; SendMsg may return later
			e.Gate("sent:"+pktType(p.Type), k)
		}
		return nil
	case <-e.c.brk:
		return ErrBroken
	case <-e.out.broken:
		return ErrPeerGone
	case <-e.ctx.Done():
		return e.ctx.Err()
	}
}

func (e *Endpoint) RecvMsg(m interface{}) error {
	if n := atomic.AddInt32(&e.inRecv, 1); n > 1 {
		e.c.Log(vt.Ev{"ev": "Overlap", "ep": e.Name, "op": "recv"})
	}
	defer atomic.AddInt32(&e.inRecv, -1)
	k := int(atomic.AddInt32(&e.recvN, 1)) - 1
	if e.Gate != nil {
		e.Gate("recv", k)
	}
	if err := e.fault("recv", k); err != nil {
		return err
	}
	p, ok := m.(*types.Packet)
	if !ok {
		return errors.New("hstream: not a packet")
	}
	var raw []byte
	select {
	case <-e.c.brk:
		return ErrBroken
	default:
	}
	select {
	case raw = <-e.in.ch:
	default:
		select {
		case raw = <-e.in.ch:
		case <-e.c.brk:
			return ErrBroken
		case <-e.ctx.Done():
			return e.ctx.Err()
		case <-e.in.eof:
			select {
			case raw = <-e.in.ch:
			default:
				e.c.Log(vt.Ev{"ev": "Dlv", "ep": e.Name, "k": k, "eof": true})
				return io.EOF
			}
		}
	}
	e.c.touch()
	// like the repository's own test connection (and the vtproto gRPC codec) the message is decoded INTO what the caller
	// passed, without clearing it first: a caller that reuses a packet across calls sees the stale value of every field the
	// wire omits (proto3 zero values: id 0, type STAT)
	if err := p.UnmarshalVT(raw); err != nil {
		return err
	}
	if !e.c.Quiet {
		e.c.Log(vt.Ev{"ev": "Dlv", "ep": e.Name, "k": k, "eof": false})
	}
	return nil
}

func pktType(t types.Packet_PacketType) string {
	switch t {
	case types.PACKET_STAT:
		return "STAT"
	case types.PACKET_REQ:
		return "REQ"
	case types.PACKET_DATA:
		return "DATA"
	case types.PACKET_FIN:
		return "FIN"
	case types.PACKET_ERR:
		return "ERR"
	}
	return "UNKNOWN"
}

// describe builds the Pkt event for a packet about to be sent (called under
// the pipe lock, so the annotation state follows channel order).
func (c *Conn) describe(e *Endpoint, p *types.Packet, k int) vt.Ev {
	ev := vt.Ev{"ev": "Pkt", "ep": e.Name, "k": k, "type": pktType(p.Type)}
	switch p.Type {
	case types.PACKET_STAT:
		if e.Name != "S" {
			break
		}
		if p.Stat == nil {
			ev["end"] = true
			break
		}
		ev["end"] = false
		c.mu.Lock()
		ev["idx"] = len(c.statPaths)
		c.statPaths = append(c.statPaths, p.Stat.Path)
		c.mu.Unlock()
		ev["stat"] = StatEv(p.Stat)
		ev["sh"] = StatHash(p.Stat)
		ev["reqable"] = os.FileMode(p.Stat.Mode)&os.ModeType == 0
	case types.PACKET_REQ:
		ev["id"] = int(p.ID)
	case types.PACKET_DATA:
		ev["id"] = int(p.ID)
		ev["len"] = len(p.Data)
		if e.Name == "S" {
			c.mu.Lock()
			off := c.offs[p.ID]
			c.offs[p.ID] = off + int64(len(p.Data))
			path := ""
			if int(p.ID) < len(c.statPaths) {
				path = c.statPaths[p.ID]
			}
			content := c.Content
			c.mu.Unlock()
			okSlice, atEnd := false, false
			if content != nil {
				if b, ok := content(p.ID, path); ok {
					okSlice = off+int64(len(p.Data)) <= int64(len(b)) && bytes.Equal(b[off:off+int64(len(p.Data))], p.Data)
					atEnd = off == int64(len(b))
				}
			}
			ev["sliceOK"] = okSlice
			ev["atEnd"] = atEnd
		}
	case types.PACKET_ERR:
		ev["msg"] = string(p.Data)
	}
	if c.Quiet && (p.Type == types.PACKET_DATA || p.Type == types.PACKET_STAT || p.Type == types.PACKET_REQ) {
		return nil
	}
	return ev
}

// StatHash identifies a stat value (all fields) by a short hash of its encoding.
func StatHash(st *types.Stat) string {
	h := sha256.New()
	fmt.Fprintf(h, "%q|%d|%d|%d|%d|%d|%q|%d|%d|", st.Path, st.Mode, st.Uid, st.Gid, st.Size, st.ModTime, st.Linkname, st.Devmajor, st.Devminor)
	keys := make([]string, 0, len(st.Xattrs))
	for k := range st.Xattrs {
		keys = append(keys, k)
	}
	sort.Strings(keys)
	for _, k := range keys {
		fmt.Fprintf(h, "%q=%x;", k, st.Xattrs[k])
	}
	return hex.EncodeToString(h.Sum(nil)[:8])
}

// StatToEntry converts a wire stat into the abstract entry vocabulary.
func StatToEntry(st *types.Stat) model.Entry {
	m := os.FileMode(st.Mode)
	e := model.Entry{Path: st.Path, Uid: st.Uid, Gid: st.Gid, Size: st.Size, Mtime: st.ModTime,
		Devmajor: st.Devmajor, Devminor: st.Devminor}
	e.Perm = uint32(m.Perm())
	if m&os.ModeSetuid != 0 {
		e.Perm |= 04000
	}
	if m&os.ModeSetgid != 0 {
		e.Perm |= 02000
	}
	if m&os.ModeSticky != 0 {
		e.Perm |= 01000
	}
	switch {
	case m.IsDir():
		e.Type = "dir"
	case m&os.ModeSymlink != 0:
		e.Type = "symlink"
		e.Link = st.Linkname
	case m&os.ModeNamedPipe != 0:
		e.Type = "fifo"
	case m&os.ModeCharDevice != 0:
		e.Type = "chr"
	case m&os.ModeDevice != 0:
		e.Type = "blk"
	case m&os.ModeSocket != 0:
		e.Type = "sock"
	case m&os.ModeType == 0:
		e.Type = "file"
	default:
		e.Type = "other"
	}
	if len(st.Xattrs) > 0 {
		e.Xattrs = map[string]string{}
		for k, v := range st.Xattrs {
			e.Xattrs[k] = string(v)
		}
	}
	return e
}

// StatEv is the JSON form of a wire stat (spec/Stats).  `raw` is the path as
// sent (may be unclean for hostile streams), `hl` the hard-link name.
func StatEv(st *types.Stat) vt.Ev {
	e := StatToEntry(st)
	hl := ""
	if e.Type != "symlink" {
		hl = st.Linkname
	}
	ev := e.Ev()
	delete(ev, "p")
	delete(ev, "ino")
	delete(ev, "g")
	delete(ev, "c")
	ev["raw"] = vt.B(st.Path)
	ev["hl"] = vt.B(hl)
	return ev
}
