// vdrive drives the real fsutil code and records what it did as an ndjson
// trace for TLC to judge.  It never issues verdicts itself.
package main

import (
	"flag"
	"fmt"
	"math/rand"
	"os"

	"verif/harness/drivers"
	"verif/harness/vt"
)

func main() {
	if len(os.Args) < 2 {
		fmt.Fprintln(os.Stderr, "usage: vdrive <family> [flags]")
		os.Exit(2)
	}
	fam := os.Args[1]
	if drivers.Child(fam, os.Args[2:]) {
		return
	}
	fs := flag.NewFlagSet(fam, flag.ExitOnError)
	out := fs.String("out", "trace.ndjson", "trace file")
	stats := fs.String("stats", "", "stats file")
	seed := fs.Int64("seed", 1, "seed")
	tier := fs.String("tier", "quick", "quick|thorough")
	replay := fs.String("replay", "", "replay file")
	work := fs.String("work", "", "scratch dir")
	what := fs.String("what", "", "scenario selector within the family")
	fs.Parse(os.Args[2:])
	d, ok := drivers.Registry[fam]
	if !ok {
		fmt.Fprintln(os.Stderr, "unknown family", fam)
		os.Exit(2)
	}
	w, err := vt.NewWriter(*out)
	if err != nil {
		fmt.Fprintln(os.Stderr, err)
		os.Exit(2)
	}
	c := &drivers.Ctx{Out: w, Stats: vt.NewStats(""), Seed: *seed, Tier: *tier, Replay: *replay, Work: *work, What: *what,
		Rand: rand.New(rand.NewSource(*seed))}
	if err := d(c); err != nil {
		fmt.Fprintln(os.Stderr, "driver error:", err)
		w.Close()
		os.Exit(2)
	}
	if err := w.Close(); err != nil {
		fmt.Fprintln(os.Stderr, err)
		os.Exit(2)
	}
	if *stats != "" {
		if err := c.Stats.Write(*stats); err != nil {
			fmt.Fprintln(os.Stderr, err)
			os.Exit(2)
		}
	}
}
