// Package model is the abstract tree vocabulary shared with the TLA+ side
// (spec/Trees.tla).  A Tree is a list of entries sorted in walk order
// (component-wise byte order); hard-link groups carry a canonical label.
package model

import (
	"crypto/sha256"
	"encoding/hex"
	"fmt"
	"sort"
	"strings"

	"verif/harness/vt"
)

type Entry struct {
	Path     string // clean relative slash path
	Type     string // file dir symlink fifo chr blk sock
	Perm     uint32 // unix permission bits incl. suid/sgid/sticky (07777)
	Uid, Gid uint32
	Size     int64
	Mtime    int64  // ns
	Data     []byte `json:"-"` // bytes of a regular file (source side / generator)
	DSeed    int64  // Data = PRF(DSeed, Size) for generated files (replayable)
	Content  string // content id = hash of bytes (files only)
	Link     string // symlink target
	Devmajor int64
	Devminor int64
	Xattrs   map[string]string
	Group    int    // hard-link group: 0 = none, else canonical label (1-based index of first member)
	Ino      uint64 `json:"-"` // snapshot only
	Nlink    uint64 `json:"-"` // snapshot only
	Ctime    int64  `json:"-"` // snapshot only
}

type Tree []Entry

func ContentID(b []byte) string {
	h := sha256.Sum256(b)
	return hex.EncodeToString(h[:8]) + ":" + fmt.Sprint(len(b))
}

// Less is the component-wise byte order (the harness's own; TLC re-checks it).
func Less(a, b string) bool {
	pa, pb := strings.Split(a, "/"), strings.Split(b, "/")
	for i := 0; i < len(pa) && i < len(pb); i++ {
		if pa[i] != pb[i] {
			return pa[i] < pb[i]
		}
	}
	return len(pa) < len(pb)
}

func (t Tree) Sort() {
	sort.SliceStable(t, func(i, j int) bool { return Less(t[i].Path, t[j].Path) })
}

// Canon sorts the tree and relabels hard-link groups canonically: the label
// of a group is the 1-based index of its first member in walk order; groups
// with a single member get 0.  groupKey tells which entries share an inode.
func (t Tree) Canon(groupKey func(e *Entry) string) {
	t.Sort()
	first := map[string]int{}
	count := map[string]int{}
	for i := range t {
		if t[i].Type == "dir" {
			continue
		}
		k := groupKey(&t[i])
		if k == "" {
			continue
		}
		count[k]++
		if _, ok := first[k]; !ok {
			first[k] = i + 1
		}
	}
	for i := range t {
		t[i].Group = 0
		if t[i].Type == "dir" {
			continue
		}
		k := groupKey(&t[i])
		if k != "" && count[k] > 1 {
			t[i].Group = first[k]
		}
	}
}

func XattrString(x map[string]string) string {
	if len(x) == 0 {
		return ""
	}
	var sb strings.Builder
	for _, k := range vt.SortedKeys(x) {
		fmt.Fprintf(&sb, "%s=%x;", k, x[k])
	}
	return sb.String()
}

// EntryEv is the JSON form consumed by spec/Trees.tla.
func (e *Entry) Ev() vt.Ev {
	return vt.Ev{
		"p": vt.P(e.Path), "t": e.Type, "perm": int(e.Perm), "uid": int(e.Uid), "gid": int(e.Gid),
		"size": fmt.Sprint(e.Size), "mt": fmt.Sprint(e.Mtime), "c": e.Content, "ln": e.Link, "lnb": vt.B(e.Link),
		"dev": fmt.Sprintf("%d:%d", e.Devmajor, e.Devminor), "x": XattrString(e.Xattrs),
		"g": e.Group, "ino": fmt.Sprint(e.Ino),
	}
}

func (t Tree) Ev() []vt.Ev {
	out := make([]vt.Ev, len(t))
	for i := range t {
		out[i] = t[i].Ev()
	}
	return out
}

func (t Tree) Find(p string) *Entry {
	for i := range t {
		if t[i].Path == p {
			return &t[i]
		}
	}
	return nil
}

func (t Tree) Clone() Tree {
	out := make(Tree, len(t))
	copy(out, t)
	for i := range out {
		if t[i].Xattrs != nil {
			m := map[string]string{}
			for k, v := range t[i].Xattrs {
				m[k] = v
			}
			out[i].Xattrs = m
		}
	}
	return out
}

// Key is a canonical string of the whole tree (for distinctness counting).
func (t Tree) Key() string {
	var sb strings.Builder
	for i := range t {
		e := &t[i]
		fmt.Fprintf(&sb, "%s|%s|%o|%d|%d|%d|%d|%s|%s|%d:%d|%s|%d\n", e.Path, e.Type, e.Perm, e.Uid, e.Gid, e.Size, e.Mtime,
			e.Content, e.Link, e.Devmajor, e.Devminor, XattrString(e.Xattrs), e.Group)
	}
	return sb.String()
}
