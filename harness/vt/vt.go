// Package vt holds the trace writer and the encoding helpers shared by all
// drivers.  Traces are ndjson; byte strings travel as arrays of small ints
// (TLC cannot index strings), paths as arrays of names.
package vt

import (
	"bufio"
	"crypto/sha256"
	"encoding/hex"
	"encoding/json"
	"os"
	"sort"
	"strings"
	"sync"
)

type Ev = map[string]any

type Writer struct {
	mu   sync.Mutex
	f    *os.File
	w    *bufio.Writer
	Line int
}

func NewWriter(path string) (*Writer, error) {
	f, err := os.Create(path)
	if err != nil {
		return nil, err
	}
	return &Writer{f: f, w: bufio.NewWriterSize(f, 1<<20)}, nil
}

func (w *Writer) Emit(e Ev) {
	b, err := json.Marshal(e)
	if err != nil {
		panic(err)
	}
	w.mu.Lock()
	w.w.Write(b)
	w.w.WriteByte('\n')
	w.Line++
	w.mu.Unlock()
}

func (w *Writer) Close() error {
	w.mu.Lock()
	defer w.mu.Unlock()
	if err := w.w.Flush(); err != nil {
		return err
	}
	return w.f.Close()
}

// B encodes a byte string.
func B(s string) []int {
	out := make([]int, len(s))
	for i := 0; i < len(s); i++ {
		out[i] = int(s[i])
	}
	return out
}

// UnB decodes a byte string.
func UnB(v []int) string {
	b := make([]byte, len(v))
	for i, x := range v {
		b[i] = byte(x)
	}
	return string(b)
}

// P encodes a clean relative slash path as a sequence of names.
func P(p string) [][]int {
	if p == "" {
		return [][]int{}
	}
	parts := strings.Split(p, "/")
	out := make([][]int, len(parts))
	for i, s := range parts {
		out[i] = B(s)
	}
	return out
}

// Stats is what a driver reports to the orchestrator for the evidence file.
type Stats struct {
	mu          sync.Mutex
	Evaluations int            `json:"evaluations"`
	Nontrivial  int            `json:"distinct_nontrivial"`
	Exhaustive  bool           `json:"exhaustive"`
	Rule        string         `json:"rule"`
	Samples     []any          `json:"samples"`
	Counters    map[string]int `json:"counters"`
	Notes       []string       `json:"notes"`
	seen        map[string]struct{}
}

func NewStats(rule string) *Stats {
	return &Stats{Rule: rule, Counters: map[string]int{}, seen: map[string]struct{}{}}
}

// Case records one evaluated case; key is a canonical description used for
// distinctness, nontrivial says whether it counts by the driver's rule.
func (s *Stats) Case(key string, nontrivial bool) {
	s.mu.Lock()
	defer s.mu.Unlock()
	s.Evaluations++
	if !nontrivial {
		return
	}
	h := sha256.Sum256([]byte(key))
	k := hex.EncodeToString(h[:12])
	if _, ok := s.seen[k]; ok {
		return
	}
	s.seen[k] = struct{}{}
	s.Nontrivial++
}

func (s *Stats) Count(name string, n int) {
	s.mu.Lock()
	s.Counters[name] += n
	s.mu.Unlock()
}

func (s *Stats) Sample(v any) {
	s.mu.Lock()
	if len(s.Samples) < 5 {
		s.Samples = append(s.Samples, v)
	}
	s.mu.Unlock()
}

func (s *Stats) Note(n string) {
	s.mu.Lock()
	s.Notes = append(s.Notes, n)
	s.mu.Unlock()
}

func (s *Stats) Write(path string) error {
	b, err := json.MarshalIndent(s, "", " ")
	if err != nil {
		return err
	}
	return os.WriteFile(path, b, 0644)
}

// SortedKeys returns the keys of a map in byte order.
func SortedKeys[V any](m map[string]V) []string {
	ks := make([]string, 0, len(m))
	for k := range m {
		ks = append(ks, k)
	}
	sort.Strings(ks)
	return ks
}

// ReadJSON loads a JSON document.
func ReadJSON(path string, v any) error {
	b, err := os.ReadFile(path)
	if err != nil {
		return err
	}
	return json.Unmarshal(b, v)
}

// Opaque embeds a value as a JSON string: TLC carries it along untouched
// (replay inputs contain nulls and nested maps the Json module rejects).
func Opaque(v any) string {
	b, err := json.Marshal(v)
	if err != nil {
		panic(err)
	}
	return string(b)
}

// ReplayInput extracts the opaque "input" of a replay file: either a single
// event or {"events":[...]} whose first event carries the input.
func ReplayInput(path string, into any) error {
	var rp struct {
		Input  string `json:"input"`
		Events []struct {
			Input string `json:"input"`
		} `json:"events"`
	}
	if err := ReadJSON(path, &rp); err != nil {
		return err
	}
	in := rp.Input
	if in == "" && len(rp.Events) > 0 {
		in = rp.Events[0].Input
	}
	if in == "" {
		return os.ErrNotExist
	}
	return json.Unmarshal([]byte(in), into)
}
