SPECIFICATION Spec
CONSTANTS MaxPatLen = 3
 MaxList = 1
 Mode = "exc"
 StripBoth = FALSE
 ExistingCountsAsIncluded = FALSE
INVARIANT GenCopyCases
CHECK_DEADLOCK FALSE
