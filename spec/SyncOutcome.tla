----------------------------- MODULE SyncOutcome -----------------------------
(***************************************************************************)
(* PROPERTY LAYER for C01 / C02 / C07 / C11 / C19: what a transfer must    *)
(* leave behind and what it may request.                                    *)
(*   view   : the sender's view = STAT log, entries [p,t,perm,uid,gid,size,*)
(*            mt,ln,dev,x,hl (hard-link name, <<>> if none),c (content id  *)
(*            of the bytes the view's Open yields; files only)]            *)
(*   before : snapshot of the destination before the call                  *)
(*   after  : snapshot after both calls returned                           *)
(***************************************************************************)
EXTENDS Trees

\* identity key used by the differ (diff_containerd.go sameFile/compareStat
\* state the fields; the PROPERTY is C02's definition of "identity")
KeyOf(e, hl) == <<e.t, e.perm, e.uid, e.gid,
                  IF e.t = "symlink" THEN e.ln ELSE "",
                  hl,
                  IF e.t \in {"chr", "blk"} THEN e.dev ELSE "-">>
                \o (IF e.t = "dir" THEN <<>> ELSE <<e.size, e.mt>>)

ViewKey(view, i) == KeyOf(view[i], view[i].hl)
\* (a symlink that shares its inode with another name is still seen with its own target: the field that carries
\* hard-link names carries the link target for symlinks)
DstKey(dst, j) == KeyOf(dst[j], IF dst[j].t = "symlink" THEN <<>> ELSE HLOf(dst, j))
DstKeyPlain(dst, j) == KeyOf(dst[j], <<>>)        \* seen as a plain file (exception)

ChangedIdx(view, dst) ==
  {i \in DOMAIN view : ~Has(dst, view[i].p) \/ ViewKey(view, i) # DstKey(dst, IdxOf(dst, view[i].p))}
Changed(view, dst) == {view[i].p : i \in ChangedIdx(view, dst)}
Deleted(view, dst) == PathsOf(dst) \ PathsOf(view)
\* existing entries that are replaced by an entry of another kind (not dir->dir)
Replaced(view, dst) ==
  {p \in Changed(view, dst) : Has(dst, p) /\ ~(At(view, p).t = "dir" /\ At(dst, p).t = "dir")}
Gone(view, dst) ==
  LET top == Deleted(view, dst) \cup Replaced(view, dst) IN
  top \cup {q \in PathsOf(dst) : \E d \in top : Under(q, d)}

\* C02's timing exception: a destination hard link all of whose other group
\* members sort before it and disappear or are replaced may be seen by the
\* destination walker either still as a link or already as a plain file
GroupOf(dst, j) == {k \in DOMAIN dst : dst[k].g # 0 /\ dst[k].g = dst[j].g}
ExceptionIdx(view, dst) ==
  LET gone == Gone(view, dst) IN
  \* (any entry that can have several names: regular files, and since the generators produce them also hard-linked fifos,
  \* device nodes and symlinks)
  {j \in DOMAIN dst : /\ dst[j].t # "dir" /\ HLOf(dst, j) # <<>>
                      /\ \A k \in GroupOf(dst, j) \ {j} : k < j /\ dst[k].p \in gone}
Exception(view, dst) == {dst[j].p : j \in ExceptionIdx(view, dst)}

Requestable(e) == e.t = "file"
\* regular non-link files whose identity differs: content must be requested
Needed(view, dst) == {p \in Changed(view, dst) : At(view, p).t = "file" /\ At(view, p).hl = <<>>}
\* members of the exception set that become "needed" when seen as plain files
NeededIfPlain(view, dst) ==
  {p \in Exception(view, dst) :
     /\ Has(view, p) /\ At(view, p).t = "file" /\ At(view, p).hl = <<>>
     /\ KeyOf(At(view, p), <<>>) # DstKeyPlain(dst, IdxOf(dst, p))}
\* ... or stop being needed when seen as plain (identical apart from the link name)
NotNeededIfPlain(view, dst) ==
  {p \in Exception(view, dst) :
     /\ Has(view, p) /\ At(view, p).t = "file" /\ At(view, p).hl = <<>>
     /\ KeyOf(At(view, p), <<>>) = DstKeyPlain(dst, IdxOf(dst, p))}
AllFiles(view) == {view[i].p : i \in {k \in DOMAIN view : view[k].t = "file" /\ view[k].hl = <<>>}}

ReqOK(reqs, view, dst, differ, merge) ==
  IF differ = "none" \/ merge THEN reqs = AllFiles(view)
  ELSE /\ Needed(view, dst) \ NotNeededIfPlain(view, dst) \subseteq reqs
       /\ reqs \subseteq Needed(view, dst) \cup NeededIfPlain(view, dst)

(* ---- convergence -------------------------------------------------------- *)
CreatedDir(p, dst) == ~Has(dst, p) \/ At(dst, p).t # "dir"

\* s: view entry, d: destination entry after the transfer
EntryMatches(s, d, created, wrote) ==
  /\ d.t = s.t /\ d.uid = s.uid /\ d.gid = s.gid
  /\ (s.t # "symlink" => d.perm = s.perm)
  /\ (s.t = "symlink" => d.ln = s.ln)
  /\ (s.t = "file" => d.c = s.c)
  /\ (s.t \in {"chr", "blk"} => d.dev = s.dev)
  /\ (s.t # "dir" => d.mt = s.mt)
  /\ (s.t = "dir" /\ created => d.mt = s.mt /\ d.x = s.x)
  /\ (s.t = "file" /\ wrote => d.x = s.x)

ViewRoot(view, i) == IF view[i].hl # <<>> THEN view[i].hl ELSE view[i].p

\* the destination equals the view (fresh / dirty mode)
ConvergedClauses(view, after, before) ==
  LET samePaths == Len(after) = Len(view) /\ \A i \in DOMAIN view : after[i].p = view[i].p
      wroteSet == Changed(view, before)
  IN
  IF ~samePaths THEN {"pathSet"}
  ELSE
    (IF \A i \in DOMAIN view :
            EntryMatches(view[i], after[i], CreatedDir(view[i].p, before), view[i].p \in wroteSet)
     THEN {} ELSE {"entryAttributes"})
    \cup
    (IF \A i, j \in DOMAIN view :
            (view[i].t = "file" /\ view[j].t = "file" /\ i < j)
              => ((ViewRoot(view, i) = ViewRoot(view, j)) <=> (after[i].ino = after[j].ino))
     THEN {} ELSE {"hardlinkGroups"})

\* merge mode: overlay of the view over the old destination; nothing deleted
\* that the view does not replace
SurvivesMerge(q, view) ==
  /\ ~Has(view, q)
  /\ ~\E i \in DOMAIN view : Under(q, view[i].p) /\ view[i].t # "dir"
OverlayClauses(view, after, before) ==
  LET keep == {q \in PathsOf(before) : SurvivesMerge(q, view)}
      want == PathsOf(view) \cup keep
  IN
  IF PathsOf(after) # want THEN {"overlayPathSet"}
  ELSE
    (IF \A i \in DOMAIN view :
           EntryMatches(view[i], At(after, view[i].p), CreatedDir(view[i].p, before), TRUE)
     THEN {} ELSE {"overlayEntryAttributes"})
    \cup
    (IF \A q \in keep : LET a == At(after, q) b == At(before, q) IN
           a.t = b.t /\ a.c = b.c /\ a.perm = b.perm /\ a.uid = b.uid /\ a.gid = b.gid /\ a.ln = b.ln
           /\ a.ino = b.ino /\ (a.t # "dir" => a.mt = b.mt)
     THEN {} ELSE {"overlayKeptEntryTouched"})

(* ---- minimality (C02) --------------------------------------------------- *)
\* every entry whose identity is unchanged keeps inode and bytes
KeptClauses(view, after, before) ==
  LET ch == Changed(view, before)
      ex == Exception(view, before)
      gone == Gone(view, before)
      stay == {p \in PathsOf(view) \cap PathsOf(before) : p \notin ch /\ p \notin ex /\ p \notin gone}
  IN IF \A p \in stay : Has(after, p) /\ At(after, p).ino = At(before, p).ino /\ At(after, p).c = At(before, p).c
     THEN {} ELSE {"unchangedEntryRewritten"}

\* ... and every entry whose identity changed is rewritten: it exists afterwards as another
\* inode (old and new inode coexist at the rename, so inode reuse cannot mask this), except
\* directories that stay directories (metadata is re-applied in place)
RewrittenClauses(view, after, before) ==
  LET ch == Changed(view, before) \ Exception(view, before)
      must == {p \in ch : Has(before, p) /\ ~(At(view, p).t = "dir" /\ At(before, p).t = "dir")}
  IN IF \A p \in must : Has(after, p) /\ At(after, p).ino # At(before, p).ino
     THEN {} ELSE {"changedEntryNotRewritten"}
=============================================================================
