SPECIFICATION Spec
CONSTANTS MaxMsgs = 3
 Loop = "reuse"
 StreamResets = TRUE
INVARIANT Faithful
CHECK_DEADLOCK FALSE
