SPECIFICATION Spec
CONSTANTS
  SepInRmdir = TRUE
  RmdirOnlyForFile = TRUE
INVARIANTS N1fs
CHECK_DEADLOCK FALSE
