------------------------------ MODULE FramingMC ------------------------------
(***************************************************************************)
(* C20, framing: util/protostream.go RecvMsg as a state machine.           *)
(* A message sequence is written as frames (header of HdrLen units holding *)
(* the body length, then the body); the underlying reader hands out        *)
(* arbitrary fragments.  The reader collects the header (io.ReadFull when  *)
(* FullHeader, a single Read otherwise), takes the pooled buffer when the  *)
(* body fits (PoolCap) or a fresh one, collects the body, decodes (copying *)
(* when CopyOnDecode, aliasing the buffer otherwise) and puts the buffer   *)
(* back.  Checked for every message sequence up to MaxMsgs over body       *)
(* lengths 0..MaxLen and every fragmentation:                              *)
(*   - the delivered messages are the written ones, in order (Delivered)   *)
(*   - a delivered message never changes afterwards (Stable): with the     *)
(*     pooled buffer reused this needs CopyOnDecode                        *)
(***************************************************************************)
EXTENDS Integers, Sequences, FiniteSets, TLC
CONSTANTS MaxMsgs, MaxLen, PoolCap, HdrLen, CopyOnDecode, FullHeader

Body(m, n) == [k \in 1..n |-> <<m, k>>]                 \* distinguishable bytes
Frame(m, n) == [k \in 1..HdrLen |-> <<"H", m, k, n>>] \o Body(m, n)
RECURSIVE Stream(_, _)
Stream(lens, m) == IF m > Len(lens) THEN <<>> ELSE Frame(m, lens[m]) \o Stream(lens, m + 1)

VARIABLES lens,      \* the message sequence (body lengths)
          wire,      \* bytes not yet handed out by the underlying reader
          phase,     \* "hdr" | "body" | "bad"
          got,       \* bytes collected for the current header / body
          need,      \* bytes still needed
          usePool,   \* the current body is being read into the pooled buffer
          pool,      \* current content of the pooled buffer
          out        \* delivered messages: [m, val (own copy) | alias (TRUE = lives in the pool)]
vars == <<lens, wire, phase, got, need, usePool, pool, out>>

RECURSIVE SeqsUpTo(_, _)
SeqsUpTo(S, n) == IF n = 0 THEN {<<>>} ELSE LET R == SeqsUpTo(S, n - 1) IN R \cup {Append(s, x) : s \in R, x \in S}

Init == /\ lens \in SeqsUpTo(0..MaxLen, MaxMsgs)
        /\ wire = Stream(lens, 1)
        /\ phase = "hdr" /\ got = <<>> /\ need = HdrLen /\ usePool = FALSE /\ pool = <<>> /\ out = <<>>

ValueOf(d) == IF d.alias THEN pool ELSE d.val

\* one underlying Read: n bytes arrive
Read(n) ==
  /\ phase \in {"hdr", "body"} /\ n \in 1..need /\ n <= Len(wire)
  /\ LET chunk == SubSeq(wire, 1, n)
         g == got \o chunk
         \* reading into the pooled buffer overwrites it in place
         pool1 == IF phase = "body" /\ usePool THEN g ELSE pool
     IN /\ wire' = SubSeq(wire, n + 1, Len(wire))
        /\ IF phase = "hdr" THEN
             IF n < need /\ ~FullHeader
             THEN \* a single Read returned a partial header: the length is garbage, the stream desynchronises
                  phase' = "bad" /\ UNCHANGED <<got, need, usePool, pool, out>>
             ELSE IF n < need THEN got' = g /\ need' = need - n /\ UNCHANGED <<phase, usePool, pool, out>>
             ELSE LET len == g[1][4] m == g[1][2] IN
                  IF len = 0
                  THEN \* zero-length fast path: an empty message is delivered, no buffer involved
                       /\ out' = Append(out, [m |-> m, alias |-> FALSE, val |-> <<>>])
                       /\ got' = <<>> /\ need' = HdrLen /\ UNCHANGED <<phase, usePool, pool>>
                  ELSE /\ phase' = "body" /\ got' = <<>> /\ need' = len /\ usePool' = (len <= PoolCap)
                       /\ UNCHANGED <<pool, out>>
           ELSE
             IF n < need THEN got' = g /\ need' = need - n /\ pool' = pool1 /\ UNCHANGED <<phase, usePool, out>>
             ELSE LET m == g[1][1] IN
                  /\ pool' = pool1
                  /\ out' = Append(out, IF CopyOnDecode \/ ~usePool THEN [m |-> m, alias |-> FALSE, val |-> g]
                                        ELSE [m |-> m, alias |-> TRUE, val |-> <<>>])
                  /\ phase' = "hdr" /\ got' = <<>> /\ need' = HdrLen /\ usePool' = FALSE
  /\ UNCHANGED lens

Next == \E n \in 1..(MaxLen + HdrLen) : Read(n)
Spec == Init /\ [][Next]_vars

\* every delivered message still reads as the body that was written for it
Stable == \A i \in DOMAIN out : ValueOf(out[i]) = Body(out[i].m, lens[out[i].m])
InOrder == \A i \in DOMAIN out : out[i].m = i
NeverBad == phase # "bad"
\* when everything has been consumed every message was delivered
Complete == (wire = <<>> /\ phase = "hdr" /\ need = HdrLen) => Len(out) = Len(lens)
=============================================================================
