------------------------------ MODULE CopyTrace ------------------------------
(***************************************************************************)
(* Trace validation for the copy package (C13 C14 C15 C16).  One event per *)
(* case, recorded from the real copy.Copy running in a chroot jail:        *)
(*  Copy{case, kind, src, srcTop, before, after, req, ok, notes,           *)
(*       second:{ok, after}, outsideBefore, outsideAfter, secrets,         *)
(*       filter:{on, inc, exc, incr, walk}}                                *)
(* Verdicts: CopyRef (overlay reference), FilterRef (selection), sentinel  *)
(* snapshots.                                                               *)
(***************************************************************************)
EXTENDS CopyRef, FilterRef, Json, IOUtils

Trace == ndJsonDeserialize(IOEnv.VERIF_TRACE)
VARIABLES l, failed
vars == <<l, failed>>
Cl(cond, name) == IF cond THEN {name} ELSE {}
\* the verdict list is bounded, but per clause set: a flood of one kind of failure (a recorded finding, say) never crowds
\* out a failure of another kind
Full(fl, bad) == Len(fl) >= 6000 \/ Cardinality({i \in DOMAIN fl : fl[i].clauses = bad}) >= 400

ToSet(s) == {s[i] : i \in DOMAIN s}

\* ---- C13 / C15: overlay reference ------------------------------------------------------
OverlayClauses(e) ==
  LET S == Fn(e.src)
      D0 == StartMarks(e.before)
      r == e.req
      missing == r.wild = <<>> /\ r.sp # <<>> /\ r.sp \notin DOMAIN S
      ref == IF missing THEN [ok |-> FALSE, D |-> D0, obstacle |-> <<>>]
             ELSE IF r.wild # <<>> THEN CopyMany(S, ToSet(r.wild), D0, r)
             ELSE CopyOne(S, r.sp, e.srcTop, D0, r)
      pfx == IF e.kind = "fidelity" THEN "C13." ELSE "C15."
      copiedNonDirs == {p \in DOMAIN ref.D : ref.D[p].how = "copied" /\ ref.D[p].e.t # "dir"}
  IN IF ref.ok THEN
       Cl(~e.ok, pfx \o "copyFailedWhereReferenceSucceeds")
       \cup (IF ~e.ok THEN {} ELSE
             {pfx \o c : c \in OutcomeClauses(ref.D, e.after, e.before, e.src, r.sym \in {"a=rX", "u=rwx,go=rx"},
                                                \* several wildcard matches into a destination the first of them creates
                                                IF r.wild # <<>> /\ Len(r.wild) > 1
                                                THEN LET res == ResolvePath(EntriesOf(D0), r.dp) IN
                                                     IF res.ok /\ ~(res.p = <<>> \/ res.p \in DOMAIN D0) THEN {res.p} ELSE {}
                                                ELSE {})}
             \* a symlink placed exactly at the destination argument is itself resolved by the next call
             \* (path arguments are resolved, C14): idempotence is not asserted for that shape
             \cup Cl(~(e.srcTop.t = "symlink" /\ r.wild = <<>>)
                     /\ ~(r.wild = <<>> /\ PlacementFlips(e.srcTop, D0, r))
                     /\ ~(r.wild # <<>> /\ \E w \in ToSet(r.wild) : S[w].t = "symlink" \/ PlacementFlips(S[w], D0, r))
                     \* several matches into a destination that does not exist yet: the first match creates it, so the
                     \* repetition meets an existing entry there (again a different request by the placement rule)
                     /\ ~(r.wild # <<>> /\ LET res == ResolvePath(EntriesOf(D0), r.dp) IN res.ok /\ ~(res.p = <<>> \/ res.p \in DOMAIN D0))
                     /\ (~e.second.ok \/ ~SameAbstract(e.after, e.second.after)),
                     "C15.repeatedCopyChangesSomething")
             \cup Cl(~(\A p \in copiedNonDirs : Cardinality({k \in DOMAIN e.notes : e.notes[k] = p}) = 1), "C13.notifierOncePerNonDirectory")
             \cup Cl(~(\A k \in DOMAIN e.notes : e.notes[k] \in DOMAIN ref.D /\ ref.D[e.notes[k]].how \in {"copied", "merged"}),
                     "C13.notifierForPathNotWritten"))
     ELSE
       Cl(e.ok, "C15.conflictNotReported")
       \cup Cl(ref.obstacle # <<>> /\ Has(e.before, ref.obstacle)
               /\ ~(Has(e.after, ref.obstacle) /\ At(e.after, ref.obstacle).ino = At(e.before, ref.obstacle).ino
                    /\ At(e.after, ref.obstacle).c = At(e.before, ref.obstacle).c /\ At(e.after, ref.obstacle).t = At(e.before, ref.obstacle).t),
               "C15.obstacleNotLeftInPlace")

Detail(e) ==
  IF e.kind \notin {"fidelity", "overlay"} THEN ""
  ELSE LET S == Fn(e.src)
           D0 == StartMarks(e.before)
           r == e.req
           missing == r.wild = <<>> /\ r.sp # <<>> /\ r.sp \notin DOMAIN S
           ref == IF missing THEN [ok |-> FALSE, D |-> D0, obstacle |-> <<>>]
                  ELSE IF r.wild # <<>> THEN CopyMany(S, ToSet(r.wild), D0, r)
                  ELSE CopyOne(S, r.sp, e.srcTop, D0, r)
       IN IF ref.ok THEN ToString([refOK |-> TRUE, d |-> OutcomeDetail(ref.D, e.after), notes |-> e.notes])
          ELSE ToString([refOK |-> FALSE, obstacle |-> ref.obstacle])

\* ---- C14: containment ---------------------------------------------------------------------
ContainClauses(e) ==
  Cl(e.outsideBefore # e.outsideAfter, "C14.outsideTouched")
  \* a destination too large for the (capped) snapshot: the copy ran away (e.g. copied a tree into itself)
  \cup Cl("afterTruncated" \in DOMAIN e /\ e.afterTruncated, "C14.destinationGrewBeyondAnyExpectation")
  \cup Cl(e.dstRootGone, "C14.destinationRootItselfRemoved") \cup Cl(e.dstRootGone, "C15.destinationRootItselfRemoved")
  \cup Cl(\E i \in DOMAIN e.after : e.after[i].t = "file" /\ e.after[i].c \in ToSet(e.secrets), "C14.bytesFromOutsideSourceRoot")
  \* ... nor extended attributes of an outside file (hex of "TOP-SECRET-XATTR")
  \cup Cl("secretXattrSeen" \in DOMAIN e /\ e.secretXattrSeen, "C14.xattrFromOutsideSourceRoot")

\* ---- C16: include / exclude -------------------------------------------------------------------
FilterCopyClauses(e) ==
  LET f == e.filter
      tree == e.src
      allKeep == [i \in DOMAIN tree |-> "keep"]
      naive == ToSet(RefPaths(tree, SelVecNaive(tree, f.inc, f.exc), allKeep))
      incr == ToSet(RefPaths(tree, f.incr, allKeep))
      got == PathsOf(e.after) \ PathsOf(e.before)
      walk == ToSet(f.walk)
      selNaive == {tree[i].p : i \in {k \in DOMAIN tree : SelNaive(f.inc, f.exc, k)}}
      selIncr == {tree[i].p : i \in {k \in DOMAIN tree : f.incr[k]}}
      \* directories that were written although the selection that explains the copied set did not
      \* select them: created on demand for a selected descendant
      selUsed == IF got = naive THEN selNaive ELSE selIncr
      ondemand == {p \in got : p \notin selUsed /\ Has(tree, p)}
      \* a destination that already holds entries at source paths: the written set cannot be read off the path sets;
      \* judged instead: an existing entry at the path of a source non-directory that NEITHER selection selects is
      \* left exactly as it was, and a selected regular file arrives with the source bytes
      stale == \E i \in DOMAIN e.before : Has(tree, e.before[i].p)
      unselected == {p \in PathsOf(e.before) : Has(tree, p) /\ At(tree, p).t # "dir" /\ p \notin selNaive /\ p \notin selIncr}
      selectedFiles == {p \in selNaive \cap selIncr : At(tree, p).t = "file"}
      \* ... and an existing directory at the path of a source directory that neither selection reports (not selected, no
      \* selected descendant) keeps its mode, owner, xattrs and modification time: nothing is written to it or below it
      unselectedDirs == {p \in PathsOf(e.before) : Has(tree, p) /\ At(tree, p).t = "dir" /\ p \notin naive /\ p \notin incr}
  IN Cl(~e.ok, "C16.filteredCopyFailed")
     \* conformance of the algorithm-layer model CopyFilterMC (pattern lists enumerated by TLC on the model's own tree): the real
     \* copy writes exactly the set the ALGORITHM model writes - also where both depart from the reference (the recorded matcher
     \* finding).  Not a verdict of a property: a disagreement without a violation makes the run inconclusive
     \cup Cl("model" \in DOMAIN e /\ e.ok /\ got # {e.model.written[k] : k \in DOMAIN e.model.written}, "MODEL.copyWrittenSetDiffers")
     \cup (IF ~e.ok THEN {}
           ELSE IF stale THEN
                Cl(\E p \in unselected : ~(Has(e.after, p) /\ At(e.after, p).ino = At(e.before, p).ino /\ At(e.after, p).c = At(e.before, p).c
                                            /\ At(e.after, p).t = At(e.before, p).t), "C16.unselectedDestinationEntryTouched")
                \cup Cl(\E p \in unselectedDirs : ~(Has(e.after, p) /\ LET a == At(e.after, p) b == At(e.before, p) IN
                                                        a.t = b.t /\ a.perm = b.perm /\ a.uid = b.uid /\ a.gid = b.gid /\ a.x = b.x /\ a.mt = b.mt),
                        "C16.unselectedDestinationEntryTouched")
                \cup Cl(\E p \in selectedFiles : ~(Has(e.after, p) /\ At(e.after, p).t = "file" /\ At(e.after, p).c = At(tree, p).c),
                        "C16.selectedFileNotCopied")
           ELSE (IF got = naive THEN {}
                 ELSE IF got = incr THEN {"C16.copiedSetDiffersFromReference/explainedByIncrementalMatcher"}
                 ELSE {"C16.copiedSetDiffersFromReference"})
                \cup Cl(got # walk, "C16.copiedSetDiffersFromFilteredWalk")
                \* ancestors created on demand carry the source directory's mode, owner and xattrs
                \cup Cl(\E p \in ondemand : LET a == At(e.after, p) s == At(tree, p) IN
                           a.t # "dir" \/ a.perm # s.perm \/ a.uid # s.uid \/ a.gid # s.gid \/ a.x # s.x,
                        "C16.onDemandAncestorMetadata"))

Judge(e) ==
  IF e.ev # "Copy" THEN {"HARNESS.unknownEvent"}
  ELSE (IF ~(SortedTree(e.src) /\ SortedTree(e.before) /\ SortedTree(e.after)) THEN {"HARNESS.snapshotNotSorted"} ELSE {})
       \cup ContainClauses(e)
       \cup (IF e.kind \in {"fidelity", "overlay"} THEN OverlayClauses(e) ELSE {})
       \cup (IF e.kind = "filter" THEN FilterCopyClauses(e) ELSE {})

Init == l = 1 /\ failed = <<>>
Step == /\ l <= Len(Trace)
        /\ LET e == Trace[l]
               bad == Judge(e)
           IN failed' = IF bad = {} \/ Full(failed, bad) THEN failed
                        ELSE Append(failed, [case |-> e.case, line |-> l, clauses |-> bad, detail |-> Detail(e)])
        /\ l' = l + 1
Spec == Init /\ [][Step]_vars
Emit == (l = Len(Trace) + 1) =>
          ndJsonSerialize(IOEnv.VERIF_OUT, <<[consumed |-> l - 1, failed |-> failed, drift |-> <<>>]>>)
=============================================================================
