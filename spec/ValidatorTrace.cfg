SPECIFICATION Spec
CONSTANTS RejectDots = TRUE
INVARIANT Emit
CHECK_DEADLOCK FALSE
