SPECIFICATION Spec
CONSTANTS MaxPatLen = 3
 MaxList = 1
 Mode = "exc"
 StripBoth = FALSE
 ExistingCountsAsIncluded = FALSE
INVARIANTS WrittenIsReference OnlyMatcherDivergesCopy CopyEqualsWalk DeferredOnlyOnDemand ExistingLeftAlone
CHECK_DEADLOCK FALSE
