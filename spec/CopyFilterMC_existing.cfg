SPECIFICATION Spec
CONSTANTS MaxPatLen = 2
 MaxList = 1
 Mode = "inc"
 StripBoth = FALSE
 ExistingCountsAsIncluded = TRUE
INVARIANTS ExistingLeftAlone
CHECK_DEADLOCK FALSE
