------------------------------- MODULE Paths -------------------------------
(***************************************************************************)
(* Shared vocabulary: names are non-empty byte sequences, a path is a      *)
(* non-empty sequence of names, a raw (wire) path is a byte sequence that   *)
(* may or may not be a clean relative path.  TLC cannot look inside        *)
(* strings, and the properties are about byte order, hence byte sequences. *)
(***************************************************************************)
EXTENDS Integers, Sequences, FiniteSets

Slash == 47
DotN == <<46>>
DotDotN == <<46, 46>>

Min2(a, b) == IF a < b THEN a ELSE b
Sign(n) == IF n < 0 THEN -1 ELSE IF n > 0 THEN 1 ELSE 0

(* ---- splitting / joining -------------------------------------------- *)
RECURSIVE SplitFrom(_, _, _)
SplitFrom(s, i, cur) ==
  IF i > Len(s) THEN <<cur>>
  ELSE IF s[i] = Slash THEN <<cur>> \o SplitFrom(s, i + 1, <<>>)
  ELSE SplitFrom(s, i + 1, Append(cur, s[i]))
\* raw components, empty ones kept ("a//b" -> <<a, <<>>, b>>, "" -> << <<>> >>)
Split(s) == SplitFrom(s, 1, <<>>)

RECURSIVE JoinFrom(_, _)
JoinFrom(p, i) == IF i > Len(p) THEN <<>>
                  ELSE IF i = Len(p) THEN p[i] ELSE p[i] \o <<Slash>> \o JoinFrom(p, i + 1)
Flat(p) == JoinFrom(p, 1)          \* names joined by '/'

(* ---- orders ------------------------------------------------------------ *)
\* plain lexicographic comparison of byte strings: -1, 0, 1
RECURSIVE CmpBytesFrom(_, _, _)
CmpBytesFrom(x, y, i) ==
  IF i > Len(x) THEN (IF i > Len(y) THEN 0 ELSE -1)
  ELSE IF i > Len(y) THEN 1
  ELSE IF x[i] < y[i] THEN -1
  ELSE IF x[i] > y[i] THEN 1
  ELSE CmpBytesFrom(x, y, i + 1)
CmpBytes(x, y) == CmpBytesFrom(x, y, 1)
LessBytes(x, y) == CmpBytes(x, y) < 0

\* THE path order of the protocol, as the properties state it: compare
\* component by component, each component as a byte string.
RECURSIVE CmpCompFrom(_, _, _)
CmpCompFrom(p, q, i) ==
  IF i > Len(p) THEN (IF i > Len(q) THEN 0 ELSE -1)
  ELSE IF i > Len(q) THEN 1
  ELSE LET c == CmpBytes(p[i], q[i]) IN IF c # 0 THEN c ELSE CmpCompFrom(p, q, i + 1)
CmpComponentwise(p, q) == CmpCompFrom(p, q, 1)
LessComponentwise(p, q) == CmpComponentwise(p, q) < 0

\* declarative form of the same order (checked equal in OrderMC)
LessBytesDecl(x, y) ==
  \E i \in 1..(Len(x) + 1) :
     /\ \A j \in 1..(i - 1) : j <= Len(y) /\ x[j] = y[j]
     /\ \/ i = Len(x) + 1 /\ Len(y) >= i
        \/ i <= Len(x) /\ i <= Len(y) /\ x[i] < y[i]
LessComponentwiseDecl(p, q) ==
  \E i \in 1..(Len(p) + 1) :
     /\ \A j \in 1..(i - 1) : j <= Len(q) /\ p[j] = q[j]
     /\ \/ i = Len(p) + 1 /\ Len(q) >= i
        \/ i <= Len(p) /\ i <= Len(q) /\ LessBytesDecl(p[i], q[i])

\* transcription of fsutil.ComparePath on flat byte strings ("separator
\* sorts before every other byte"): sign only
RECURSIVE CPFrom(_, _, _)
CPFrom(a, b, i) ==
  IF i > Min2(Len(a), Len(b)) THEN Sign(Len(a) - Len(b))
  ELSE IF a[i] = b[i] THEN CPFrom(a, b, i + 1)
  ELSE IF (b[i] # Slash /\ a[i] < b[i]) \/ a[i] = Slash THEN -1
  ELSE 1
ComparePathFlat(a, b) == CPFrom(a, b, 1)
LessSepLowest(p, q) == ComparePathFlat(Flat(p), Flat(q)) < 0

(* ---- structure --------------------------------------------------------- *)
IsPrefix(a, b) == Len(a) <= Len(b) /\ \A i \in 1..Len(a) : a[i] = b[i]
Under(p, d) == Len(d) < Len(p) /\ IsPrefix(d, p)        \* p strictly inside d
Parent(p) == SubSeq(p, 1, Len(p) - 1)                   \* <<>> is the root
Anc(p) == {SubSeq(p, 1, k) : k \in 1..(Len(p) - 1)}     \* proper ancestors, root excluded
Last(p) == p[Len(p)]

\* a raw wire path is a "clean relative path strictly inside the root" iff
\* it has at least one component and none is empty, "." or ".."
\* (every cleaned path containing ".." starts with it; absolute paths and
\* trailing / doubled separators produce an empty component)
CleanInside(raw) ==
  LET cs == Split(raw) IN \A i \in 1..Len(cs) : cs[i] # <<>> /\ cs[i] # DotN /\ cs[i] # DotDotN
=============================================================================
