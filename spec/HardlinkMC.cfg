SPECIFICATION Spec
CONSTANTS
  N = 5
  ResetOverwrites = FALSE
  NoReset = FALSE
INVARIANTS ResetRule ValidatorAccepts
CHECK_DEADLOCK FALSE
