------------------------------ MODULE FilterWalkMC ------------------------------
(***************************************************************************)
(* ALGORITHM LAYER of filter.go filterFS.Walk -- the incremental matcher   *)
(* (moby/patternmatcher MatchesUsingParentResults with its skip rule),     *)
(* both directory-pruning shortcuts with patternWithoutTrailingGlob, the   *)
(* parentDirs stack and lazy ancestor emission -- against the PROPERTY     *)
(* LAYER reference filter of C10, over the full depth-3 tree on names a,   *)
(* ab and every pattern list of a bounded sub-language (literal names, *,  *)
(* **, a*, negations) given its own TLA+ matching semantics.                *)
(*   PruningUnobservable: with naive per-entry verdicts the algorithm      *)
(*       (pruning + lazy parents) reports exactly the reference             *)
(*   OnlyMatcherDiverges: wherever the real algorithm differs from the      *)
(*       reference, the difference disappears with naive verdicts, i.e. it  *)
(*       is the incremental-matcher finding and nothing else                *)
(* StripBoth = TRUE is the pinned patternWithoutTrailingGlob (strips "/**"  *)
(* and then "/*"): the sanity configuration, TLC must reject it.            *)
(***************************************************************************)
EXTENDS Integers, Sequences, FiniteSets, TLC, Json, IOUtils
CONSTANTS MaxPatLen, MaxList, Mode, StripBoth   \* Mode = "inc" or "exc"
A == "a"  AB == "ab"
Names == {A, AB}
STAR == "*"  DSTAR == "**"  PSTAR == "a*"
Segs == Names \cup {STAR, DSTAR, PSTAR}
\* full tree of depth 3; depth-3 entries are files, others dirs
Paths == UNION {[1..k -> Names] : k \in 1..3}
IsDir(p) == Len(p) < 3
NameLess(x, y) == x = A /\ y = AB
RECURSIVE PLess(_, _)
PLess(p, q) == IF p = <<>> THEN q # <<>> ELSE IF q = <<>> THEN FALSE
               ELSE IF p[1] = q[1] THEN PLess(Tail(p), Tail(q)) ELSE NameLess(p[1], q[1])
Rank(p) == Cardinality({q \in Paths : PLess(q, p)})
WalkOrder == [i \in 1..Cardinality(Paths) |-> CHOOSE p \in Paths : Rank(p) = i - 1]
IsPrefix(p, q) == Len(p) <= Len(q) /\ SubSeq(q, 1, Len(p)) = p
Under(p, d) == Len(d) < Len(p) /\ SubSeq(p, 1, Len(d)) = d

\* ---- patterns ----
NoDD(s) == \A i \in 1..(Len(s)-1) : ~(s[i] = DSTAR /\ s[i+1] = DSTAR)
PatSegs == {s \in UNION {[1..k -> Segs] : k \in 1..MaxPatLen} : NoDD(s)}
Pats == [segs : PatSegs, neg : BOOLEAN]
SegMatch(s, n) == IF s = STAR THEN TRUE ELSE IF s = PSTAR THEN TRUE (* both names start with a *) ELSE s = n
RECURSIVE M(_, _, _)
\* consumed = whether some pattern segment before this point consumed/anchored text with a literal slash
M(ps, p, first) ==
  IF ps = <<>> THEN p = <<>>
  ELSE IF ps[1] = DSTAR THEN
         IF Len(ps) = 1 THEN (first \/ p # <<>>)
         ELSE \E k \in 0..Len(p) : M(Tail(ps), SubSeq(p, k+1, Len(p)), FALSE)
  ELSE p # <<>> /\ SegMatch(ps[1], p[1]) /\ M(Tail(ps), Tail(p), FALSE)
Match(pat, p) == M(pat.segs, p, TRUE)
AncSelf(p) == {SubSeq(p, 1, k) : k \in 1..Len(p)}

\* ---- reference ----
Verdict(pats, p) == LET H == {i \in DOMAIN pats : \E q \in AncSelf(p) : Match(pats[i], q)} IN
                    H # {} /\ ~pats[CHOOSE i \in H : \A j \in H : j <= i].neg
Sel(inc, exc, p) == (inc = <<>> \/ Verdict(inc, p)) /\ ~(exc # <<>> /\ Verdict(exc, p))
RefOut(inc, exc) == LET S == {p \in Paths : Sel(inc, exc, p)}
                        K == S \cup {q \in Paths : \E p \in S : Under(p, q)} IN
                    SelectSeq(WalkOrder, LAMBDA p : p \in K)

\* ---- algorithm: incremental matcher ----
RECURSIVE IncrStep(_, _, _, _, _, _)
\* returns [m, info]
IncrStep(pats, p, parent, i, matched, info) ==
  IF i > Len(pats) THEN [m |-> matched, info |-> info]
  ELSE LET pm == IF parent = <<>> THEN FALSE ELSE parent[i] IN
       IF pm THEN IncrStep(pats, p, parent, i+1, ~pats[i].neg, Append(info, TRUE))
       ELSE IF pats[i].neg # matched THEN IncrStep(pats, p, parent, i+1, matched, Append(info, FALSE))
       ELSE LET mt == IF parent = <<>> THEN \E q \in AncSelf(p) : Match(pats[i], q) ELSE Match(pats[i], p) IN
            IncrStep(pats, p, parent, i+1, IF mt THEN ~pats[i].neg ELSE matched, Append(info, mt))
Incr(pats, p, parent) == IncrStep(pats, p, parent, 1, FALSE, <<>>)

Strip(segs) == LET endsDD == Len(segs) > 1 /\ segs[Len(segs)] = DSTAR
                   s1 == IF endsDD THEN SubSeq(segs, 1, Len(segs)-1) ELSE segs
                   s2 == IF Len(s1) > 1 /\ s1[Len(s1)] = STAR THEN SubSeq(s1, 1, Len(s1)-1) ELSE s1
               IN IF StripBoth THEN s2 ELSE IF endsDD THEN s1 ELSE s2
Literal(segs) == \A i \in DOMAIN segs : segs[i] \in Names
OnlyPrefix(pats, wantNeg) == \A i \in DOMAIN pats : pats[i].neg = wantNeg => Literal(Strip(pats[i].segs))
CanBeBelow(pats, wantNeg, p) == \E i \in DOMAIN pats : pats[i].neg = wantNeg /\ IsPrefix(p, Strip(pats[i].segs))

RECURSIVE WalkAlg(_, _, _, _, _, _, _)
\* stack entries: [path, inc, exc, called]
WalkAlg(inc, exc, i, stack, pruned, out, naive) ==
  IF i > Len(WalkOrder) THEN out
  ELSE LET p == WalkOrder[i] IN
    IF \E d \in pruned : Under(p, d) THEN WalkAlg(inc, exc, i+1, stack, pruned, out, naive)
    ELSE LET keep == {k \in DOMAIN stack : Under(p, stack[k].path)}
             st == SubSeq(stack, 1, Cardinality(keep))
             par == IF st = <<>> THEN [inc |-> <<>>, exc |-> <<>>] ELSE st[Len(st)]
             ri == IF inc = <<>> THEN [m |-> TRUE, info |-> <<>>] ELSE IF naive THEN [m |-> Verdict(inc, p), info |-> <<>>] ELSE Incr(inc, p, par.inc)
             re == IF exc = <<>> THEN [m |-> FALSE, info |-> <<>>] ELSE IF naive THEN [m |-> Verdict(exc, p), info |-> <<>>] ELSE Incr(exc, p, par.exc)
             pruneInc == inc # <<>> /\ ~ri.m /\ IsDir(p) /\ OnlyPrefix(inc, FALSE) /\ ~CanBeBelow(inc, FALSE, p)
             pruneExc == exc # <<>> /\ re.m /\ IsDir(p) /\ OnlyPrefix(exc, TRUE)
                         /\ ((\A k \in DOMAIN exc : ~exc[k].neg) \/ ~CanBeBelow(exc, TRUE, p))
             skip == ~ri.m \/ re.m
         IN
         IF pruneInc \/ pruneExc THEN WalkAlg(inc, exc, i+1, st, pruned \cup {p}, out, naive)
         ELSE IF skip THEN
              WalkAlg(inc, exc, i+1, IF IsDir(p) THEN Append(st, [path |-> p, inc |-> ri.info, exc |-> re.info, called |-> FALSE]) ELSE st, pruned, out, naive)
         ELSE LET missing == SelectSeq(st, LAMBDA e : ~e.called)
                  out2 == out \o [k \in 1..Len(missing) |-> missing[k].path] \o <<p>>
                  st2 == [k \in DOMAIN st |-> [st[k] EXCEPT !.called = TRUE]]
              IN WalkAlg(inc, exc, i+1, IF IsDir(p) THEN Append(st2, [path |-> p, inc |-> ri.info, exc |-> re.info, called |-> TRUE]) ELSE st2, pruned, out2, naive)
AlgOut(inc, exc) == WalkAlg(inc, exc, 1, <<>>, {}, <<>>, FALSE)
NaiveOut(inc, exc) == WalkAlg(inc, exc, 1, <<>>, {}, <<>>, TRUE)

RunAlg(l) == IF Mode = "inc" THEN AlgOut(l, <<>>) ELSE AlgOut(<<>>, l)
RunRef(l) == IF Mode = "inc" THEN RefOut(l, <<>>) ELSE RefOut(<<>>, l)
RunNaive(l) == IF Mode = "inc" THEN NaiveOut(l, <<>>) ELSE NaiveOut(<<>>, l)

VARIABLE l
Init == l \in {<<p>> : p \in Pats}
Next == Len(l) < MaxList /\ \E p \in Pats : l' = Append(l, p)
Spec == Init /\ [][Next]_l

PruningUnobservable == RunNaive(l) = RunRef(l)
OnlyMatcherDiverges == RunAlg(l) # RunRef(l) => RunNaive(l) = RunRef(l)
\* without negations the incremental matcher cannot diverge either
NoNegNoDivergence == (\A k \in DOMAIN l : ~l[k].neg) => RunAlg(l) = RunRef(l)

\* ---- case generation for the walk / copy drivers (configurations _gen*): one file per pattern list with what the
\* ALGORITHM model reports (incremental matcher, pruning, lazy ancestors - including where it departs from the reference)
\* and the reference; the drivers run the real filterFS.Walk / copy.Copy on the same tree and lists, and the monitors
\* compare the real output with the algorithm model's (clauses MODEL.*)
RECURSIVE JoinWith(_, _)
JoinWith(sq, sep) == IF sq = <<>> THEN "" ELSE IF Len(sq) = 1 THEN sq[1] ELSE sq[1] \o sep \o JoinWith(Tail(sq), sep)
PatText(pt) == (IF pt.neg THEN "!" ELSE "") \o JoinWith(pt.segs, "/")
SegCode(sg) == CASE sg = STAR -> "S" [] sg = DSTAR -> "D" [] sg = PSTAR -> "P" [] OTHER -> sg
PatCode(pt) == (IF pt.neg THEN "N" ELSE "") \o JoinWith([k \in DOMAIN pt.segs |-> SegCode(pt.segs[k])], "_")
ListCode(ll) == JoinWith([k \in DOMAIN ll |-> PatCode(ll[k])], "+")
PathTexts(sq) == [k \in DOMAIN sq |-> JoinWith(sq[k], "/")]
GenCases ==
  ndJsonSerialize(IOEnv.VERIF_GEN_DIR \o "/filtercase_" \o Mode \o "_" \o ListCode(l) \o ".ndjson",
     <<[name |-> Mode \o "_" \o ListCode(l), mode |-> Mode, pats |-> [k \in DOMAIN l |-> PatText(l[k])],
        alg |-> PathTexts(RunAlg(l)), ref |-> PathTexts(RunRef(l))]>>)
=============================================================================
