SPECIFICATION Spec
CONSTANTS N = 3
 NeedsData = {0, 1, 2}
 K = 1
 W = 2
 PC = 1
 NC = 1
 QC = 1
 ReadErrAllowed = TRUE
 FixWorkerErr = TRUE
 FixQueueCtx = TRUE
 WriterLimit = 1
INVARIANTS ProgressWithoutEnvironment
CHECK_DEADLOCK TRUE
