SPECIFICATION Spec
CONSTANTS TrackCreated = TRUE
 TrackRejected = TRUE
 RefuseBelow = TRUE
INVARIANT Contained
INVARIANT KnownShape
CHECK_DEADLOCK FALSE
