SPECIFICATION Spec
CONSTANT ByPrefix = FALSE
INVARIANT OpenRoundTrip
INVARIANT HiddenStaysHidden
INVARIANT LinksClosed
INVARIANT ViewPathsDistinct
CHECK_DEADLOCK FALSE
