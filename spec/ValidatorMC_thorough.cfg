SPECIFICATION Spec
CONSTANTS MaxLen = 8
 RejectDots = TRUE
INVARIANTS Agree StackShape
CHECK_DEADLOCK FALSE
