----------------------------- MODULE ValidStream -----------------------------
(***************************************************************************)
(* PROPERTY LAYER for C12 / C03 / C11: which sequences of changes a        *)
(* receiver must accept.  A change is                                      *)
(*   [raw |-> byte string, kind |-> "add"|"modify"|"delete", isDir |-> B]  *)
(* Accept iff every path is a clean relative path strictly inside the root *)
(* (neither "." nor ".." nor starting with "../"), paths are strictly      *)
(* ascending component-wise, and the parent of every path is a directory   *)
(* accepted earlier (or the root).  A deleted directory is not opened.     *)
(***************************************************************************)
EXTENDS Paths

VSInit == [last |-> <<>>, dirs |-> {}]

VSOk(st, c) ==
  /\ CleanInside(c.raw)
  /\ LET p == Split(c.raw) IN
       /\ (st.last = <<>> \/ LessComponentwise(st.last, p))
       /\ (Len(p) = 1 \/ Parent(p) \in st.dirs)

VSNext(st, c) ==
  LET p == Split(c.raw) IN
    [last |-> p,
     dirs |-> IF c.kind # "delete" /\ c.isDir THEN st.dirs \cup {p} ELSE st.dirs]

\* index (1-based) of the first rejected element of seq, 0 if all accepted
RECURSIVE VSFirstRejectFrom(_, _, _)
VSFirstRejectFrom(seq, i, st) ==
  IF i > Len(seq) THEN 0
  ELSE IF ~VSOk(st, seq[i]) THEN i
  ELSE VSFirstRejectFrom(seq, i + 1, VSNext(st, seq[i]))
VSFirstReject(seq) == VSFirstRejectFrom(seq, 1, VSInit)
VSAccepts(seq) == VSFirstReject(seq) = 0
=============================================================================
