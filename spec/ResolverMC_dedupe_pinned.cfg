SPECIFICATION Spec
CONSTANTS
  Scope = "dedupe"
  MemoFinalOnly = FALSE
  DedupeNeighbour = TRUE
  MaxSteps = 40
CHECK_DEADLOCK FALSE
INVARIANT ResultOK
