SPECIFICATION Spec
CONSTANTS
  Scope = "dedupe"
  MemoFinalOnly = FALSE
  DedupeNeighbour = TRUE
  LexicalClean = FALSE
  MaxSteps = 40
CHECK_DEADLOCK FALSE
INVARIANT ResultOK
