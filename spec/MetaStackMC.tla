------------------------------ MODULE MetaStackMC ------------------------------
(***************************************************************************)
(* ALGORITHM LAYER of the metadata-only block of receive.go: for every     *)
(* announced stat the receive loop advances the STAT index, records the id *)
(* of selected regular files, maintains the stack of not-yet-forwarded     *)
(* ancestor directories and forwards the selected entries (with the        *)
(* ancestors they need) to the diff.  Checked against the PROPERTY LAYER of *)
(* C19 for every parent-closed tree over a six-path universe (one entry    *)
(* carries the listing file's own name) and every selector:                *)
(*   ForwardedIsProjection  forwarded = selected entries + needed           *)
(*                          ancestors, in stream order, each once           *)
(*   IdsAreStatPositions    id of a selected regular file = its 0-based     *)
(*                          position among ALL announced stats              *)
(* IdBeforeSkip / FwdDirOnce = FALSE are the two defects of the pinned tree *)
(* (sanity configurations that TLC must reject).                            *)
(***************************************************************************)
EXTENDS Integers, Sequences, FiniteSets, TLC, Json, IOUtils
CONSTANTS IdBeforeSkip, FwdDirOnce

\* universe in walk order; L carries the listing file's name (".fsutil-metadata" sorts before "a")
L == <<"L">>
Universe == << [p |-> L, dir |-> FALSE], [p |-> <<"a">>, dir |-> TRUE], [p |-> <<"a", "a">>, dir |-> FALSE],
               [p |-> <<"a", "ab">>, dir |-> TRUE], [p |-> <<"a", "ab", "a">>, dir |-> FALSE], [p |-> <<"ab">>, dir |-> FALSE] >>
Par(p) == SubSeq(p, 1, Len(p) - 1)
UnderP(p, d) == Len(d) < Len(p) /\ SubSeq(p, 1, Len(d)) = d
Closed(S) == \A i \in S : Len(Universe[i].p) = 1 \/ \E j \in S : Universe[j].p = Par(Universe[i].p)
Streams == {S \in SUBSET (1..Len(Universe)) : Closed(S)}
RECURSIVE AscSeq(_)
AscSeq(S) == IF S = {} THEN <<>> ELSE LET m == CHOOSE x \in S : \A y \in S : x <= y IN <<Universe[m]>> \o AscSeq(S \ {m})

VARIABLES stream, sel   \* the announced stats (walk order), the set of selected paths
vars == <<stream, sel>>
Init == \E S \in Streams : stream = AscSeq(S) /\ sel \in SUBSET {Universe[i].p : i \in S}
Next == UNCHANGED vars
Spec == Init /\ [][Next]_vars

\* ---- the algorithm --------------------------------------------------------------
RECURSIVE PopTo(_, _)
PopTo(stack, parent) == IF stack = <<>> \/ stack[Len(stack)] = parent THEN stack ELSE PopTo(SubSeq(stack, 1, Len(stack) - 1), parent)
RECURSIVE Run(_, _, _, _, _)
\* k: position in the stream, i: STAT index counter, stack: replayable parents, fwd: forwarded paths, files: path -> id
Run(k, i, stack, fwd, files) ==
  IF k > Len(stream) THEN [fwd |-> fwd, files |-> files]
  ELSE LET e == stream[k] IN
       IF e.p = L THEN Run(k + 1, IF IdBeforeSkip THEN i + 1 ELSE i, stack, fwd, files)
       ELSE LET selected == e.p \in sel
                files1 == IF selected /\ ~e.dir THEN files @@ (e.p :> i) ELSE files
                st1 == PopTo(stack, Par(e.p))
                st2 == IF e.dir THEN Append(st1, e.p) ELSE st1
            IN IF ~selected THEN Run(k + 1, i + 1, st2, fwd, files1)
               ELSE IF e.dir /\ FwdDirOnce THEN Run(k + 1, i + 1, <<>>, fwd \o st2, files1)
               ELSE Run(k + 1, i + 1, <<>>, fwd \o st2 \o <<e.p>>, files1)
Result == Run(1, 0, <<>>, <<>>, <<>>)

\* ---- the reference ---------------------------------------------------------------
Wanted(p) == p # L /\ (p \in sel \/ \E q \in sel : q # L /\ UnderP(q, p))
Projection == SelectSeq([k \in DOMAIN stream |-> stream[k].p], Wanted)
PosOf(p) == (CHOOSE k \in DOMAIN stream : stream[k].p = p) - 1

ForwardedIsProjection == Result.fwd = Projection
IdsAreStatPositions ==
  \A k \in DOMAIN stream : (stream[k].p \in sel /\ ~stream[k].dir /\ stream[k].p # L)
                             => (stream[k].p \in DOMAIN Result.files /\ Result.files[stream[k].p] = PosOf(stream[k].p))

\* ---- case generation for the metadata-only driver (configuration _gen): one file per (stream, selector) with what the
\* model's run forwards to the diff and the ids it records; the driver performs the transfer on the real Send / Receive
\* and the monitor (SyncTrace!MetaClauses, clause MODEL.metaStackOutcomeDiffers) compares destination and request ids
InStream(i) == \E k \in DOMAIN stream : stream[k].p = Universe[i].p
Bits(f(_)) == LET b(i) == IF f(i) THEN "1" ELSE "0" IN b(1) \o b(2) \o b(3) \o b(4) \o b(5) \o b(6)
InSel(i) == Universe[i].p \in sel
SelSeq == SelectSeq([k \in DOMAIN stream |-> stream[k].p], LAMBDA p : p \in sel)
IdSeq == LET ps == SelectSeq([k \in DOMAIN stream |-> stream[k].p], LAMBDA p : p \in DOMAIN Result.files) IN
         [k \in DOMAIN ps |-> Result.files[ps[k]]]
GenCases ==
  ndJsonSerialize(IOEnv.VERIF_GEN_DIR \o "/metacase_" \o Bits(InStream) \o "_" \o Bits(InSel) \o ".ndjson",
     <<[name |-> Bits(InStream) \o "_" \o Bits(InSel),
        stream |-> [k \in DOMAIN stream |-> [p |-> stream[k].p, dir |-> stream[k].dir]],
        sel |-> SelSeq, fwd |-> Result.fwd, ids |-> IdSeq]>>)
=============================================================================
