------------------------------- MODULE WireGen -------------------------------
(***************************************************************************)
(* TLC as enumerator for C20: the VALUE-CLASS PRODUCT of Stat / Packet     *)
(* fields and a TOKEN GRAMMAR of the protobuf wire format (tags with right *)
(* and wrong wire types, varints of 1..11 bytes incl. overlong and         *)
(* overflowing ones, length prefixes that are exact / short / long / huge, *)
(* truncation after every token).  The driver instantiates every class     *)
(* vector and every token string and pushes it through both codecs.        *)
(* Products are enumerated with mixed-radix index arithmetic (linear).     *)
(***************************************************************************)
EXTENDS Integers, Sequences, FiniteSets, TLC, Json, IOUtils
CONSTANT MaxTokens

StatAxes == << [n |-> "path", v |-> <<"empty", "ascii", "nonutf8", "long">>],
               [n |-> "mode", v |-> <<"zero", "reg", "dir", "max">>],
               [n |-> "uid", v |-> <<"zero", "max">>],
               [n |-> "size", v |-> <<"zero", "one", "neg", "max", "min">>],
               [n |-> "mtime", v |-> <<"zero", "neg", "big">>],
               [n |-> "link", v |-> <<"empty", "set">>],
               [n |-> "dev", v |-> <<"zero", "neg", "big">>],
               [n |-> "xattrs", v |-> <<"none", "one", "emptyval", "many">>] >>
PacketAxes == << [n |-> "type", v |-> <<"STAT", "REQ", "DATA", "FIN", "ERR", "unknown7">>],
                 [n |-> "stat", v |-> <<"nil", "zero", "full">>],
                 [n |-> "id", v |-> <<"zero", "max">>],
                 [n |-> "data", v |-> <<"nil", "empty", "one", "big40000">>] >>
\* length-delimited positions of the NESTED messages (Packet.stat -> Stat -> xattrs entry -> key / value) with a
\* claimed length that is exact, off by one, or far beyond the input, followed by 0 / 1 / 5 bytes, bare or wrapped
\* in the enclosing message(s) with correct lengths
NestedAxes == << [n |-> "pos", v |-> <<"packet.stat", "packet.data", "stat.path", "stat.linkname", "stat.xattrs", "xattr.key", "xattr.value">>],
                 [n |-> "claim", v |-> <<"exact", "plus1", "p16", "p26", "p31m1", "p40", "p50", "p62", "p63m1", "p64m1">>],
                 [n |-> "tail", v |-> <<"0", "1", "5">>],
                 [n |-> "wrap", v |-> <<"bare", "inPacket">>] >>
TokenList == <<"tag1v", "tag1l", "tag2l", "tag2v", "tag3v", "tag3l", "tag4l", "tag9l", "tag0v", "tagG3", "tagE4", "tag1f32", "tag2f64",
               "v0", "v1", "v2byte", "v10max", "v10over", "v11long", "len0", "len1", "len5", "lenHuge31", "lenHuge63",
               "b1", "b5", "bFF">>

RECURSIVE Stride(_, _)
Stride(A, k) == IF k = Len(A) THEN 1 ELSE Len(A[k + 1].v) * Stride(A, k + 1)
Total(A) == Len(A[1].v) * Stride(A, 1)
Vec(A, i) == [nm \in {A[k].n : k \in DOMAIN A} |->
                LET k == CHOOSE j \in DOMAIN A : A[j].n = nm IN A[k].v[(((i - 1) \div Stride(A, k)) % Len(A[k].v)) + 1]]
AllVecs(A) == TLCEval([i \in 1..Total(A) |-> Vec(A, i)])

B == Len(TokenList)
Str(L, i) == [t |-> [j \in 1..L |-> TokenList[(((i - 1) \div (B ^ (L - j))) % B) + 1]]]
StrsOfLen(L) == TLCEval([i \in 1..(B ^ L) |-> Str(L, i)])

ASSUME PrintT(<<"stat classes", Total(StatAxes), "packet classes", Total(PacketAxes), "nested length cases", Total(NestedAxes), "token alphabet", B, "max tokens", MaxTokens>>)
ASSUME ndJsonSerialize(IOEnv.VERIF_GEN_DIR \o "/nested.ndjson", AllVecs(NestedAxes))
ASSUME ndJsonSerialize(IOEnv.VERIF_GEN_DIR \o "/statclasses.ndjson", AllVecs(StatAxes))
ASSUME ndJsonSerialize(IOEnv.VERIF_GEN_DIR \o "/packetclasses.ndjson", AllVecs(PacketAxes))
\* one file per length
ASSUME \A L \in 1..MaxTokens : ndJsonSerialize(IOEnv.VERIF_GEN_DIR \o "/tokens" \o ToString(L) \o ".ndjson", StrsOfLen(L))

VARIABLE x
Init == x = 0
Next == x' = x
Spec == Init /\ [][Next]_x
=============================================================================
