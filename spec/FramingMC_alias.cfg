SPECIFICATION Spec
CONSTANTS MaxMsgs = 3
 MaxLen = 3
 PoolCap = 2
 HdrLen = 2
 CopyOnDecode = FALSE
 FullHeader = TRUE
INVARIANTS Stable InOrder NeverBad Complete
CHECK_DEADLOCK FALSE
