------------------------------ MODULE WireTrace ------------------------------
(***************************************************************************)
(* Trace validation for C20 (wire encoding and framing).  Events recorded   *)
(* from the real codecs (vtproto and protobuf-go on the same generated      *)
(* types) and from util.NewProtoStream:                                     *)
(*  Round{msg, class, vtvt, vtpb, pbvt, pbpb}  four codec directions        *)
(*  Decode{tokens, target, vt, pb, allocOK}    token-grammar strings        *)
(*  Written{sendPanic, sameBytes}              SendMsg vs hand-made frames  *)
(*  Frames{want, got, recheck, err, panic}     reading under fragmentation  *)
(* The inputs of Round and Decode are enumerated by TLC (WireGen.tla), the  *)
(* reader algorithm is model-checked in FramingMC.tla.                      *)
(***************************************************************************)
EXTENDS Integers, Sequences, FiniteSets, Json, IOUtils, TLC

Trace == ndJsonDeserialize(IOEnv.VERIF_TRACE)
VARIABLES l, failed
vars == <<l, failed>>
Cl(cond, name) == IF cond THEN {name} ELSE {}
\* the verdict list is bounded, but per clause set: a flood of one kind of failure (a recorded finding, say) never crowds
\* out a failure of another kind
Full(fl, bad) == Len(fl) >= 6000 \/ Cardinality({i \in DOMAIN fl : fl[i].clauses = bad}) >= 400

Judge(e) ==
  \* explanation test for the known finding: the generic runtime validates UTF-8 in proto3 string
  \* fields, the hand-optimised codec does not; a value whose strings are not valid UTF-8 round-trips
  \* with vtproto alone
  CASE e.ev = "Round" -> IF e.vtvt /\ e.vtpb /\ e.pbvt /\ e.pbpb THEN {}
                         ELSE IF e.vtvt /\ e.nonUTF8 THEN {"C20.codecRoundTripOrInterop/explainedByUTF8Validation"}
                         ELSE {"C20.codecRoundTripOrInterop"}
    [] e.ev = "Decode" -> Cl(e.vt = "panic" \/ e.pb = "panic", "C20.decodePanics")
                          \cup Cl(~e.allocOK, "C20.decodeOverAllocates")
    [] e.ev = "Written" -> Cl(e.sendPanic, "C20.sendMsgFails") \cup Cl(~e.sendPanic /\ ~e.sameBytes, "C20.frameBytesNotLengthPrefixedEncoding")
    [] e.ev = "Frames" -> Cl(e.panic, "C20.recvMsgPanics")
                          \cup Cl(~e.panic /\ (e.err \/ e.got # e.want), "C20.readBackDiffersUnderFragmentation")
                          \cup Cl(\E k \in DOMAIN e.recheck : ~e.recheck[k], "C20.decodedPacketAliasesReceiveBuffer")
    \* several streams of one process receiving concurrently read back their own messages
    [] e.ev = "Concurrent" -> Cl(e.mismatches > 0, "C20.concurrentStreamsCorruptEachOther")
    [] OTHER -> {"HARNESS.unknownEvent"}

Init == l = 1 /\ failed = <<>>
Step == /\ l <= Len(Trace)
        /\ LET e == Trace[l]
               bad == Judge(e)
           IN failed' = IF bad = {} \/ Full(failed, bad) THEN failed
                        ELSE Append(failed, [case |-> e.case, line |-> l, clauses |-> bad])
        /\ l' = l + 1
Spec == Init /\ [][Step]_vars
Emit == (l = Len(Trace) + 1) =>
          ndJsonSerialize(IOEnv.VERIF_OUT, <<[consumed |-> l - 1, failed |-> failed, drift |-> <<>>]>>)
=============================================================================
