----------------------------- MODULE DecodeIntoMC -----------------------------
(***************************************************************************)
(* ALGORITHM LAYER of the packet loops of send.go and receive.go against   *)
(* the Stream contract "RecvMsg decodes INTO the message the caller        *)
(* passes".  proto3 omits zero values on the wire (type STAT = 0, id 0,    *)
(* empty data), and UnmarshalVT assigns only the fields that are present;  *)
(* whether anything clears the message before is up to the stream (the     *)
(* repository's test connection and the vtproto gRPC codec do not, the     *)
(* generic codec does).  So a loop must not rely on it:                    *)
(*   send.go      declares a fresh packet in every iteration               *)
(*   receive.go   reuses one packet and resets it itself                   *)
(* Checked for every sequence of up to MaxMsgs messages over               *)
(* type in 0..2, id in 0..2:  Faithful - the loop sees exactly what was    *)
(* sent.  Loop = "fresh" | "callerResets" | "reuse"; StreamResets says     *)
(* whether the environment clears the message.  "reuse" with a stream that *)
(* does not reset is the seeded variant: TLC must reject it; with a        *)
(* resetting stream it passes - which is why the harness endpoints         *)
(* (harness/hstream) deliberately do NOT reset.                            *)
(***************************************************************************)
EXTENDS Integers, Sequences, TLC
CONSTANTS MaxMsgs, Loop, StreamResets

Msg == [type : 0..2, id : 0..2]
Zero == [type |-> 0, id |-> 0]
VARIABLES sent, k, p, seen
vars == <<sent, k, p, seen>>

Init == /\ sent \in UNION {[1..n -> Msg] : n \in 0..MaxMsgs}
        /\ k = 1 /\ p = Zero /\ seen = <<>>

\* decode the wire form of m into q: only non-zero fields are present
DecodeInto(q, m) == [type |-> IF m.type # 0 THEN m.type ELSE q.type, id |-> IF m.id # 0 THEN m.id ELSE q.id]

Recv == /\ k <= Len(sent)
        /\ LET before == IF Loop \in {"fresh", "callerResets"} \/ StreamResets THEN Zero ELSE p
               got == DecodeInto(before, sent[k])
           IN p' = got /\ seen' = Append(seen, got)
        /\ k' = k + 1 /\ UNCHANGED sent
Done == k > Len(sent) /\ UNCHANGED vars
Next == Recv \/ Done
Spec == Init /\ [][Next]_vars

Faithful == \A j \in DOMAIN seen : seen[j] = sent[j]
=============================================================================
