SPECIFICATION Spec
CONSTANTS MaxLen = 2
 RejectDots = FALSE
INVARIANTS Agree
CHECK_DEADLOCK FALSE
