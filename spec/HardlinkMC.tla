------------------------------ MODULE HardlinkMC ------------------------------
(***************************************************************************)
(* ALGORITHM LAYER for C11 (and C09): hard-link names along the sender's    *)
(* FS stack.                                                                *)
(*   1. the on-disk walker (stat_unix.go setUnixOpt) names, for every       *)
(*      multi-link regular file it WALKS, the first walked path of the same *)
(*      inode (entries below a pruned directory are never walked);          *)
(*   2. a filter hides some walked entries;                                 *)
(*   3. WithHardlinkReset (hardlinks.go hardlinkFilter.Walk) repairs the    *)
(*      names with its seenFiles map;                                       *)
(*   4. the receiver's Hardlinks validator accepts a link only to a path    *)
(*      sent earlier as a plain regular file.                               *)
(* Checked for EVERY assignment of N files (walk order 1..N) to inode       *)
(* groups and every status vector {reported, hidden, pruned}: the property  *)
(* layer's rule (SyncTrace!HardlinkResetOK): among the reported members of  *)
(* an inode the first is sent plain, every later one names that first one;  *)
(* and the validator accepts the stream.                                    *)
(* ResetOverwrites = TRUE transcribes a seeded variant (the map entry is    *)
(* rewritten on every member): TLC must reject it.  NoReset = TRUE is the   *)
(* stack without WithHardlinkReset (a seeded variant applies it only when   *)
(* the outermost layer is the filter): rejected as well.                    *)
(***************************************************************************)
EXTENDS Integers, Sequences, FiniteSets, TLC, Json, IOUtils
CONSTANTS N, ResetOverwrites, NoReset

Files == 1..N
VARIABLES grp,      \* file -> canonical group label (smallest member)
          st,       \* file -> "reported" | "hidden" | "pruned"
          i,        \* next file of the walk
          seen,     \* hardlinkFilter's seenFiles: set of <<key, value>> pairs (key = a path or link name)
          out       \* the stream: sequence of [p |-> file, l |-> linked file or 0]
vars == <<grp, st, i, seen, out>>

Canonical(g) == \A f \in Files : g[f] <= f /\ g[g[f]] = g[f]
Init == /\ grp \in {g \in [Files -> Files] : Canonical(g)}
        /\ st \in [Files -> {"reported", "hidden", "pruned"}]
        /\ i = 1 /\ seen = {} /\ out = <<>>

\* 1. the walker's name for file f: the first WALKED member of its inode, if that is not f itself
Walked(f) == st[f] # "pruned"
DiskLink(f) == LET M == {m \in Files : grp[m] = grp[f] /\ Walked(m) /\ m < f} IN
               IF M = {} THEN 0 ELSE CHOOSE m \in M : \A k \in M : m <= k

Lookup(key) == IF \E pr \in seen : pr[1] = key THEN (CHOOSE pr \in seen : pr[1] = key)[2] ELSE 0
Store(S, key, val) == {pr \in S : pr[1] # key} \cup {<<key, val>>}

\* 3. one callback of hardlinkFilter.Walk (entries the filter hides never reach it)
Step == /\ i <= N
        /\ i' = i + 1 /\ UNCHANGED <<grp, st>>
        /\ IF st[i] # "reported" THEN UNCHANGED <<seen, out>>
           ELSE LET l0 == DiskLink(i) IN
                IF NoReset THEN out' = Append(out, [p |-> i, l |-> l0]) /\ UNCHANGED seen
                ELSE LET v == IF l0 = 0 THEN 0 ELSE Lookup(l0)
                         l1 == IF l0 = 0 THEN 0 ELSE IF v = 0 THEN 0 ELSE IF v # i THEN v ELSE l0
                         s1 == IF l0 # 0 /\ (v = 0 \/ ResetOverwrites) THEN Store(seen, l0, i) ELSE seen
                     IN /\ out' = Append(out, [p |-> i, l |-> l1])
                        /\ seen' = Store(s1, i, i)
Done == i > N /\ UNCHANGED vars
Next == Step \/ Done
Spec == Init /\ [][Next]_vars

\* ---- property layer ------------------------------------------------------------------
Reported(g) == {f \in Files : grp[f] = g /\ st[f] = "reported"}
FirstReported(g) == CHOOSE f \in Reported(g) : \A k \in Reported(g) : f <= k
ResetRule == i > N =>
  \A k \in DOMAIN out :
    LET f == out[k].p IN out[k].l = (IF f = FirstReported(grp[f]) THEN 0 ELSE FirstReported(grp[f]))
\* 4. the receiver's Hardlinks validator
ValidatorAccepts == i > N =>
  \A k \in DOMAIN out : out[k].l # 0 => \E j \in 1..(k - 1) : out[j].p = out[k].l /\ out[j].l = 0

\* ---- case generation for the hlcases driver (configuration _gen): one file per (inode partition, status vector) with the
\* stream the ALGORITHM model ends in; the driver builds the files (hidden = excluded by name, pruned = inside an excluded
\* directory), walks NewFS -> NewFilterFS -> WithHardlinkReset for real and the monitor compares the link names
RECURSIVE Digits(_, _)
Digits(f, k) == IF k > N THEN "" ELSE ToString(f[k]) \o Digits(f, k + 1)
StCode(k) == IF k > N THEN "" ELSE (CASE st[k] = "reported" -> "r" [] st[k] = "hidden" -> "h" [] OTHER -> "p")
RECURSIVE StCodes(_)
StCodes(k) == IF k > N THEN "" ELSE StCode(k) \o StCodes(k + 1)
GenCases ==
  (i > N) =>
     ndJsonSerialize(IOEnv.VERIF_GEN_DIR \o "/hlcase_" \o Digits(grp, 1) \o "_" \o StCodes(1) \o ".ndjson",
        <<[name |-> Digits(grp, 1) \o "_" \o StCodes(1), grp |-> [k \in 1..N |-> grp[k]], st |-> [k \in 1..N |-> st[k]],
           out |-> [k \in DOMAIN out |-> [p |-> out[k].p, l |-> out[k].l]]]>>)
=============================================================================
