SPECIFICATION Spec
CONSTANTS TrackCreated = TRUE
 TrackRejected = TRUE
 RefuseBelow = FALSE
INVARIANT ContainedButKnown
INVARIANT KnownShape
CHECK_DEADLOCK FALSE
