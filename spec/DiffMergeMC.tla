------------------------------ MODULE DiffMergeMC ------------------------------
(***************************************************************************)
(* ALGORITHM LAYER of diff_containerd.go doubleWalkDiff (the merge loop    *)
(* with its `rmdir` register, sequential, metadata differ) checked against *)
(* the PROPERTY LAYER of C05 / C01 for EVERY pair (old destination, source) *)
(* of a bounded universe: names a and a-b (one name a byte-prefix of the   *)
(* other, '-' sorting below '/'), depth 2, entry kinds directory and two   *)
(* distinguishable non-directories.                                          *)
(*   N1  applying the emitted changes to the old tree yields the new tree   *)
(*   N2  exactly the changed paths are emitted once, with the new kind      *)
(*   N4  every due top-most delete is emitted, nothing kept is deleted      *)
(*   N6  a parent's change precedes its children's                          *)
(*   N1fs applying them the way DiskWriter does - os.RemoveAll / rename on  *)
(*        paths whose INTERMEDIATE components the OS resolves through       *)
(*        symlinks - still yields the new tree: no delete is ever issued    *)
(*        below a path that has just become a symlink (kind "l": a link to  *)
(*        the sibling top-level name)                                       *)
(* SepInRmdir = FALSE is the sanity variant (the register lacks the         *)
(* trailing separator, so a stale "a-b" after a deleted directory "a"       *)
(* is taken for one of its children): TLC must reject it.                   *)
(* RmdirOnlyForFile = TRUE is a second sanity variant (the register is only *)
(* armed when the replacement is a regular file): a directory replaced by a *)
(* symlink then has its stale children deleted THROUGH the new link.        *)
(***************************************************************************)
EXTENDS Paths, TLC, Json, IOUtils
CONSTANTS SepInRmdir, RmdirOnlyForFile

NameA == <<97>>
NameAB == <<97, 45, 98>>
Names == {NameA, NameAB}
Top == {<<n>> : n \in Names}
KidsOf(p) == {Append(p, n) : n \in Names}
AllPaths == Top \cup UNION {KidsOf(p) : p \in Top}
Trees == {t \in [AllPaths -> {"-", "f", "g", "d", "l"}] :
            \A p \in AllPaths : Len(p) = 2 => (t[p] # "-" => t[Parent(p)] = "d") /\ t[p] \notin {"g", "l"}}
Dom(t) == {p \in AllPaths : t[p] # "-"}
Rank(S, p) == Cardinality({q \in S : LessComponentwise(q, p)})
ListOf(t) == LET S == Dom(t) IN
             [i \in 1..Cardinality(S) |-> LET p == CHOOSE p \in S : Rank(S, p) = i - 1 IN [path |-> p, t |-> t[p]]]

\* strings.HasPrefix(f1.path, rmdir) on the slash-joined strings
HasPrefixFlat(p, reg) == LET a == Flat(p) IN Len(reg) <= Len(a) /\ SubSeq(a, 1, Len(reg)) = reg
RmdirOf(p) == IF SepInRmdir THEN Flat(p) \o <<Slash>> ELSE Flat(p)

RECURSIVE Merge(_, _, _, _)
\* a = remaining destination list, b = remaining source list, reg = "" or the rmdir register, out = changes
Merge(a, b, reg, out) ==
  IF a = <<>> /\ b = <<>> THEN out
  ELSE IF a = <<>> \/ (b # <<>> /\ LessSepLowest(b[1].path, a[1].path)) THEN        \* Add
       Merge(a, Tail(b), <<>>, Append(out, [k |-> "add", p |-> b[1].path, t |-> b[1].t]))
  ELSE IF b = <<>> \/ LessSepLowest(a[1].path, b[1].path) THEN                       \* Delete
       IF reg # <<>> /\ HasPrefixFlat(a[1].path, reg) THEN Merge(Tail(a), b, reg, out)
       ELSE LET r2 == IF reg = <<>> /\ a[1].t = "d" THEN RmdirOf(a[1].path) ELSE <<>> IN
            Merge(Tail(a), b, r2, Append(out, [k |-> "del", p |-> a[1].path, t |-> "-"]))
  ELSE                                                                               \* Modify
       LET same == a[1].t = b[1].t
           r2 == IF a[1].t = "d" /\ b[1].t # "d" /\ (RmdirOnlyForFile => b[1].t \in {"f", "g"}) THEN RmdirOf(a[1].path) ELSE <<>> IN
       IF same THEN Merge(Tail(a), Tail(b), r2, out)
       ELSE Merge(Tail(a), Tail(b), r2, Append(out, [k |-> "mod", p |-> b[1].path, t |-> b[1].t]))
Alg(dst, src) == Merge(ListOf(dst), ListOf(src), <<>>, <<>>)

\* ---- property layer (the clauses of spec/Notify.tla on this small vocabulary) ----
ChangedP(dst, src) == {p \in Dom(src) : dst[p] # src[p]}
DeletedP(dst, src) == Dom(dst) \ Dom(src)
TopMostP(S) == {p \in S : ~\E q \in S : Under(p, q)}
RECURSIVE ApplyAllP(_, _, _)
ApplyAllP(t, evs, i) ==
  IF i > Len(evs) THEN t
  ELSE LET e == evs[i] IN
       IF e.k = "del" THEN ApplyAllP([q \in AllPaths |-> IF q = e.p \/ Under(q, e.p) THEN "-" ELSE t[q]], evs, i + 1)
       ELSE IF t[e.p] = "d" /\ e.t = "d" THEN ApplyAllP(t, evs, i + 1)
       ELSE ApplyAllP([q \in AllPaths |-> IF q = e.p THEN e.t ELSE IF Under(q, e.p) THEN "-" ELSE t[q]], evs, i + 1)
\* the same application on a file system: a path below a top-level symlink names the entry below the
\* link's target (the sibling top-level name) when that is a directory, and nothing otherwise
Other(n) == IF n = NameA THEN NameAB ELSE NameA
Actual(t, p) == IF Len(p) = 2 /\ t[<<p[1]>>] = "l"
                THEN (IF t[<<Other(p[1])>>] = "d" THEN <<Other(p[1]), p[2]>> ELSE <<>>)
                ELSE p
RECURSIVE ApplyFS(_, _, _)
ApplyFS(t, evs, i) ==
  IF i > Len(evs) THEN t
  ELSE LET e == evs[i]
           p == Actual(t, e.p) IN
       IF p = <<>> THEN ApplyFS(t, evs, i + 1)
       ELSE IF e.k = "del" THEN ApplyFS([q \in AllPaths |-> IF q = p \/ Under(q, p) THEN "-" ELSE t[q]], evs, i + 1)
       ELSE IF t[p] = "d" /\ e.t = "d" THEN ApplyFS(t, evs, i + 1)
       ELSE ApplyFS([q \in AllPaths |-> IF q = p THEN e.t ELSE IF Under(q, p) THEN "-" ELSE t[q]], evs, i + 1)
NonDel(evs) == {i \in DOMAIN evs : evs[i].k # "del"}
Del(evs) == {i \in DOMAIN evs : evs[i].k = "del"}
Swallowed(dst, src, p) == \E q \in ChangedP(dst, src) : Under(p, q) /\ dst[q] = "d" /\ src[q] # "d"
DueP(dst, src) == {p \in TopMostP(DeletedP(dst, src)) : ~Swallowed(dst, src, p)}

VARIABLES dst, src, phase
vars == <<dst, src, phase>>
\* 144 initial states, the second tree is chosen in a step so that the TLC workers share the pairs
Init == dst \in Trees /\ src = dst /\ phase = 0
Next == phase = 0 /\ phase' = 1 /\ dst' = dst /\ src' \in Trees
Spec == Init /\ [][Next]_vars

N1 == ApplyAllP(dst, Alg(dst, src), 1) = src
N1fs == ApplyFS(dst, Alg(dst, src), 1) = src
N2 == LET evs == Alg(dst, src) IN
      /\ {evs[i].p : i \in NonDel(evs)} = ChangedP(dst, src)
      /\ \A i, j \in NonDel(evs) : evs[i].p = evs[j].p => i = j
      /\ \A i \in NonDel(evs) : evs[i].t = src[evs[i].p]
N4 == LET evs == Alg(dst, src) IN
      /\ DueP(dst, src) \subseteq {evs[i].p : i \in Del(evs)}
      /\ \A i \in Del(evs) : evs[i].p \in DeletedP(dst, src)
      /\ \A i, j \in Del(evs) : evs[i].p = evs[j].p => i = j
N6 == LET evs == Alg(dst, src) IN
      \A i, j \in DOMAIN evs : Under(evs[j].p, evs[i].p) /\ evs[i].k # "del" /\ evs[j].k # "del" => i < j

\* ---- case generation for the sync driver (configuration _gen): one file per (old destination, source) pair with the
\* changes the ALGORITHM model emits; the driver performs the transfer with the real Send / Receive and the monitor
\* (SyncTrace, clause MODEL.diffMergeChangesDiffer) compares the notified (kind, path) pairs
Chr(b) == CASE b = 97 -> "a" [] b = 98 -> "b" [] b = 45 -> "-" [] OTHER -> "?"
RECURSIVE BytesText(_)
BytesText(bs) == IF bs = <<>> THEN "" ELSE Chr(Head(bs)) \o BytesText(Tail(bs))
PathText(p) == IF Len(p) = 1 THEN BytesText(p[1]) ELSE BytesText(p[1]) \o "/" \o BytesText(p[2])
Order6 == << <<NameA>>, <<NameA, NameA>>, <<NameA, NameAB>>, <<NameAB>>, <<NameAB, NameA>>, <<NameAB, NameAB>> >>
KindCode(k) == IF k = "-" THEN "0" ELSE k
TreeCode(t) == KindCode(t[Order6[1]]) \o KindCode(t[Order6[2]]) \o KindCode(t[Order6[3]]) \o KindCode(t[Order6[4]]) \o KindCode(t[Order6[5]]) \o KindCode(t[Order6[6]])
TreeEntries(t) == LET L == ListOf(t) IN [i \in DOMAIN L |-> [p |-> PathText(L[i].path), t |-> L[i].t]]
GenCases ==
  (phase = 1) =>
     ndJsonSerialize(IOEnv.VERIF_GEN_DIR \o "/diffcase_" \o TreeCode(dst) \o "_" \o TreeCode(src) \o ".ndjson",
        <<[name |-> TreeCode(dst) \o "_" \o TreeCode(src), dst |-> TreeEntries(dst), src |-> TreeEntries(src),
           \* k: the kind the merge loop hands to DiskWriter; n: the kind DiskWriter NOTIFIES - a regular file is always
           \* announced as "add" (processChange / requestAsyncFileData are called with ChangeKindAdd), also when it replaces something
           evs |-> LET E == Alg(dst, src) IN [i \in DOMAIN E |-> [k |-> E[i].k, p |-> PathText(E[i].p),
                                                                  n |-> IF E[i].k = "mod" /\ E[i].t \in {"f", "g"} THEN "add" ELSE E[i].k]]]>>)
=============================================================================
