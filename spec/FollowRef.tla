------------------------------ MODULE FollowRef ------------------------------
(***************************************************************************)
(* PROPERTY LAYER for C18: what FollowLinks must return.                   *)
(* T: tree as function path -> entry (lnb = symlink target bytes).         *)
(***************************************************************************)
EXTENDS Trees

\* chroot-style resolution that also collects the symlinks traversed
RECURSIVE Trav(_, _, _, _, _, _)
Trav(T, cur, rest, fuel, acc, dup) ==
  IF rest = <<>> THEN [ok |-> TRUE, p |-> cur, links |-> acc, dup |-> dup]
  ELSE LET c == Head(rest)
           r == Tail(rest)
       IN IF c = <<>> \/ c = DotN THEN Trav(T, cur, r, fuel, acc, dup)
          ELSE IF c = DotDotN THEN Trav(T, IF cur = <<>> THEN <<>> ELSE Parent(cur), r, fuel, acc, dup)
          ELSE LET nxt == Append(cur, c) IN
               IF nxt \in DOMAIN T /\ T[nxt].t = "symlink"
               THEN IF fuel = 0 THEN [ok |-> FALSE, p |-> nxt, links |-> acc \cup {nxt}, dup |-> TRUE]
                    ELSE LET tg == T[nxt].lnb IN
                         Trav(T, IF Len(tg) > 0 /\ tg[1] = Slash THEN <<>> ELSE cur, Split(tg) \o r, fuel - 1, acc \cup {nxt},
                              dup \/ nxt \in acc)
               ELSE Trav(T, nxt, r, fuel, acc, dup)
\* dup: some symlink was traversed more than once while resolving this request
Traverse(T, q) == Trav(T, <<>>, q, 40, {}, FALSE)

Covers(L, x) == \E k \in DOMAIN L : L[k] = x \/ IsPrefix(L[k], x)

\* explanation test for the second recorded finding: the resolver joins and cleans link targets LEXICALLY, so a ".." that
\* follows a component which is itself a symlink leaves that link's OWN directory instead of the directory it points to.
\* x is a symlink of T whose target has such a pair (name, "..") where the name, taken from the link's directory, is a symlink
RECURSIVE LexClean(_, _)
LexClean(acc, cs) == IF cs = <<>> THEN acc
                     ELSE IF Head(cs) = DotDotN THEN LexClean(IF acc = <<>> THEN <<>> ELSE Parent(acc), Tail(cs))
                     ELSE LexClean(Append(acc, Head(cs)), Tail(cs))
LexDotDot(T, x) ==
  LET tg == T[x].lnb
      base == IF Len(tg) > 0 /\ tg[1] = Slash THEN <<>> ELSE Parent(x)
      cs == SelectSeq(Split(tg), LAMBDA c : c # <<>> /\ c # DotN)
  IN \E i \in 1..(Len(cs) - 1) :
        /\ cs[i] # DotDotN /\ cs[i + 1] = DotDotN
        /\ LET pre == LexClean(base, SubSeq(cs, 1, i)) IN pre \in DOMAIN T /\ T[pre].t = "symlink"
LexReq(T, q) == \E x \in Traverse(T, q).links : LexDotDot(T, x)

\* reqs: literal requests as paths (components may be "." / ".."), L: returned list as paths,
\* isNil: the call returned nil (no filter), byteSorted: the harness's check of byte order on the joined strings
FollowClauses(T, reqs, L, isNil, byteSorted) ==
  LET trs == [k \in DOMAIN reqs |-> Traverse(T, reqs[k])]
      rootReached == \E k \in DOMAIN reqs : trs[k].ok /\ trs[k].p = <<>>
      \* explanation test for the known finding: the resolver memoises by symlink only, so a request
      \* that meets a link already traversed (by an earlier request, or earlier in its own resolution,
      \* with another remainder) stops there
      memo(k) == trs[k].dup \/ \E j \in 1..(k - 1) : trs[j].links \cap trs[k].links # {}
      \* (an EARLIER request that went astray lexically may have memoised links this request meets: memoisation by the
      \* links the resolver traversed, not by the ones the true resolution traverses)
      lexdd(k) == \E j \in 1..k : \E x \in trs[j].links : LexDotDot(T, x)
      \* a clause over the set of requests that break it: explained by the first finding if every one of them meets the
      \* memoisation test, by the second if every one meets one of the two tests
      \* (the lexical-dot-dot test is kept as a definition: the defect it described is repaired, so it explains nothing any more)
      Expl(bad, name) == IF bad = {} THEN {}
                         ELSE IF \A k \in bad : memo(k) THEN {name \o "/explainedByLinkMemoisation"}
                         ELSE {name}
      walkSorted == \A k \in 1..(Len(L) - 1) : LessComponentwise(L[k], L[k + 1])
  IN (IF rootReached THEN (IF isNil THEN {}
                           ELSE Expl({k \in DOMAIN reqs : trs[k].ok /\ trs[k].p = <<>>}, "rootReachedButListNotEmpty"))
      ELSE (IF isNil /\ Len(reqs) > 0
            THEN {"emptyListAlthoughRootNotReached"}
            ELSE {})
           \* (a nil result means "no filter": everything is covered, the only complaint is the one above)
           \cup (IF isNil THEN {} ELSE Expl({k \in DOMAIN reqs : \E x \in trs[k].links : ~Covers(L, x)}, "traversedSymlinkNotCovered"))
           \cup (IF isNil THEN {} ELSE Expl({k \in DOMAIN reqs : trs[k].ok /\ ~Covers(L, trs[k].p)}, "finalLocationNotCovered")))
     \cup (IF byteSorted \/ walkSorted THEN {} ELSE {"notSorted"})
     \cup (IF \A a, b \in DOMAIN L : a # b => ~IsPrefix(L[a], L[b]) THEN {} ELSE {"elementInsideAnother"})

\* after a transfer with these follow-paths every request resolves to the same entry with the same bytes
SameResolution(T, D, reqs) ==
  \A k \in DOMAIN reqs :
    LET a == ResolvePath(T, reqs[k]) IN
    (a.ok /\ a.p \in DOMAIN T) =>
      LET b == ResolvePath(D, reqs[k]) IN
      b.ok /\ b.p = a.p /\ b.p \in DOMAIN D /\ D[b.p].t = T[a.p].t /\ (T[a.p].t = "file" => D[b.p].c = T[a.p].c)
\* X: expansions of the wildcard requests [p |-> components, w |-> positions that came from a wildcard]; lits: literal requests.
\* Explanation tests: (1) the resolver expands a wildcard only against symlinks - where the wildcard matched a plain
\* directory it keeps the PATTERN and never looks at links further down; (2) link memoisation as for literal requests.
ExpansionClauses(T, D, X, lits) ==
  LET tr(k) == Traverse(T, X[k].p)
      bad == {k \in DOMAIN X : ~SameResolution(T, D, <<X[k].p>>)}
      overDir(k) == \E i \in DOMAIN X[k].w :
                      LET w == X[k].w[i]
                          a == Traverse(T, SubSeq(X[k].p, 1, w - 1))
                          b == Traverse(T, SubSeq(X[k].p, 1, w))
                      IN a.ok /\ b.ok /\ b.links = a.links /\ tr(k).links # b.links
      memo(k) == tr(k).dup \/ (\E j \in DOMAIN X : j # k /\ tr(j).links \cap tr(k).links # {})
                 \/ (\E j \in DOMAIN lits : Traverse(T, lits[j]).links \cap tr(k).links # {})
  IN IF bad = {} THEN {}
     ELSE IF \A k \in bad : overDir(k) THEN {"wildcardExpansionResolvesDifferentlyAfterTransfer/explainedByWildcardOverDirectory"}
     ELSE IF \A k \in bad : overDir(k) \/ memo(k) THEN {"wildcardExpansionResolvesDifferentlyAfterTransfer/explainedByLinkMemoisation"}
     ELSE {"wildcardExpansionResolvesDifferentlyAfterTransfer"}

=============================================================================
