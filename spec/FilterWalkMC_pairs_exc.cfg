SPECIFICATION Spec
CONSTANTS MaxPatLen = 2
 MaxList = 2
 Mode = "exc"
 StripBoth = FALSE
INVARIANTS PruningUnobservable OnlyMatcherDiverges NoNegNoDivergence
CHECK_DEADLOCK FALSE
