----------------------------- MODULE MountRouteMC -----------------------------
(***************************************************************************)
(* ALGORITHM LAYER of fs.go SubDirFS: a view assembled from several        *)
(* mounted file systems.  Walk reports every mount name as a directory and *)
(* the entries of the mounted FS below it (path and hard-link name joined   *)
(* with the mount name); Open routes a path to the mount named by its      *)
(* FIRST COMPONENT.  Checked for every set of mount names over a pool in    *)
(* which one name is a string prefix of another (a, ab, a-b, b) and every   *)
(* inner tree over the entries x, b/x, -b/x (so that "a" + "b/x" and        *)
(* "ab" + "/x" spell the same characters):                                  *)
(*   OpenRoundTrip   every regular file the walk reports opens to the       *)
(*                   content of exactly that file (mount, inner path)       *)
(*   HiddenStaysHidden  a path the walk does not report does not open       *)
(*   LinksClosed     every hard-link name the walk reports is itself a      *)
(*                   reported path of the same mount                         *)
(*   WalkSorted      mounts are reported in byte order of their names       *)
(* ByPrefix = TRUE transcribes a seeded variant of Open (find the mount by  *)
(* cutting its name off the path as a STRING prefix, first match in sorted  *)
(* order): TLC must reject it (OpenRoundTrip).                               *)
(* Paths are sequences of characters here ("/" is a character), because     *)
(* the defect class is about strings, not components.                       *)
(***************************************************************************)
EXTENDS Integers, Sequences, FiniteSets, TLC
CONSTANTS ByPrefix

\* characters: "a" "b" "-" "x" "/"
MountPool == {<<"a">>, <<"a", "b">>, <<"a", "-", "b">>, <<"b">>}
\* inner entries of a mounted FS: files (content = its own inner path) and the directories they need
InnerFiles == {<<"x">>, <<"b", "/", "x">>, <<"-", "b", "/", "x">>}
DirOf(p) == IF Len(p) <= 1 THEN <<>> ELSE
              LET idx == {k \in 1..Len(p) : p[k] = "/"} IN
              IF idx = {} THEN <<>> ELSE SubSeq(p, 1, (CHOOSE k \in idx : \A j \in idx : j <= k) - 1)

VARIABLES mounts,     \* set of mount names
          prof        \* mount name -> profile of the mounted FS: the inner files present, and at most one hard link among them
vars == <<mounts, prof>>

CharLess(x, y) == LET r == [c \in {"-", "/", "a", "b", "x"} |-> CASE c = "-" -> 1 [] c = "/" -> 2 [] c = "a" -> 3 [] c = "b" -> 4 [] OTHER -> 5] IN r[x] < r[y]
RECURSIVE SLess(_, _)
SLess(p, q) == IF p = <<>> THEN q # <<>> ELSE IF q = <<>> THEN FALSE
               ELSE IF p[1] = q[1] THEN SLess(Tail(p), Tail(q)) ELSE CharLess(p[1], q[1])

\* a profile: files present, and (from, to): inner file `from` is a hard link to the earlier inner file `to` (or none)
Profiles == {[files |-> F, from |-> <<>>, to |-> <<>>] : F \in SUBSET InnerFiles}
            \cup {[files |-> F, from |-> f, to |-> g] : F \in SUBSET InnerFiles, f \in InnerFiles, g \in InnerFiles}
ValidProfile(pr) == pr.from = <<>> \/ (pr.from \in pr.files /\ pr.to \in pr.files /\ SLess(pr.to, pr.from))
Init == /\ mounts \in (SUBSET MountPool) \ {{}}
        /\ prof \in [mounts -> {pr \in Profiles : ValidProfile(pr)}]
files == [m \in mounts |-> prof[m].files]
LinkOf(m, f) == IF prof[m].from = f THEN prof[m].to ELSE <<>>

Join(m, p) == m \o <<"/">> \o p
\* what Walk reports: (view path, kind, link name in the view, identity of the file behind it)
Reported ==
  {[p |-> m, kind |-> "dir", hl |-> <<>>, id |-> <<>>] : m \in mounts}
  \cup UNION {{[p |-> Join(m, f), kind |-> "file", hl |-> (IF LinkOf(m, f) = <<>> THEN <<>> ELSE Join(m, LinkOf(m, f))), id |-> <<m, f>>] : f \in files[m]} : m \in mounts}

\* first component of a path (up to the first separator) and the rest
FirstSep(p) == IF \E k \in 1..Len(p) : p[k] = "/" THEN CHOOSE k \in 1..Len(p) : p[k] = "/" /\ \A j \in 1..(k - 1) : p[j] # "/" ELSE 0
\* Open(p): identity of the file that is opened, or <<>> when the open fails
OpenByComponent(p) ==
  LET k == FirstSep(p) IN
  IF k = 0 THEN <<>>
  ELSE LET m == SubSeq(p, 1, k - 1)  rest == SubSeq(p, k + 1, Len(p)) IN
       IF m \in mounts /\ rest \in files[m] THEN <<m, rest>> ELSE <<>>
\* the seeded variant: the first mount (sorted) whose name is a string prefix of p; the rest is opened in that mount (a leading
\* separator of the rest is harmless to the mounted FS, which joins it to its root)
Strip(r) == IF r # <<>> /\ r[1] = "/" THEN Tail(r) ELSE r
OpenByPrefix(p) ==
  LET cands == {m \in mounts : Len(m) < Len(p) /\ SubSeq(p, 1, Len(m)) = m} IN
  IF cands = {} THEN <<>>
  ELSE LET m == CHOOSE c \in cands : \A d \in cands : c = d \/ SLess(c, d)
           rest == Strip(SubSeq(p, Len(m) + 1, Len(p))) IN
       IF rest \in files[m] THEN <<m, rest>> ELSE <<>>
Open(p) == IF ByPrefix THEN OpenByPrefix(p) ELSE OpenByComponent(p)

Next == UNCHANGED vars
Spec == Init /\ [][Next]_vars

OpenRoundTrip == \A r \in Reported : r.kind = "file" => Open(r.p) = r.id
\* every string that could be asked for: the reported paths of ALL mount / file combinations of the pool
AllViewPaths == {Join(m, f) : m \in MountPool, f \in InnerFiles}
HiddenStaysHidden == \A p \in AllViewPaths : (~\E r \in Reported : r.p = p) => Open(p) = <<>>
LinksClosed == \A r \in Reported : r.hl # <<>> => \E s \in Reported : s.p = r.hl /\ s.kind = "file" /\ s.hl = <<>> /\ s.id[1] = r.id[1]
\* distinct (mount, file) pairs never collide on one view path
ViewPathsDistinct == \A r, s \in Reported : r.kind = "file" /\ s.kind = "file" /\ r.p = s.p => r.id = s.id
=============================================================================
