SPECIFICATION Spec
CONSTANTS MaxPatLen = 3
 MaxList = 1
 Mode = "exc"
 StripBoth = FALSE
INVARIANTS PruningUnobservable OnlyMatcherDiverges NoNegNoDivergence
CHECK_DEADLOCK FALSE
