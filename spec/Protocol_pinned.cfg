SPECIFICATION Spec
CONSTANTS N = 4
 NeedsData = {0, 1, 2, 3}
 K = 1
 W = 2
 PC = 1
 NC = 1
 QC = 1
 ReadErrAllowed = TRUE
 FixWorkerErr = TRUE
 FixQueueCtx = FALSE
 WriterLimit = 0
INVARIANTS RecvOKImpliesComplete SendOKImpliesFin NoDataOverrun TypeOK
CHECK_DEADLOCK TRUE
