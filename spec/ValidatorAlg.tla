----------------------------- MODULE ValidatorAlg -----------------------------
(***************************************************************************)
(* ALGORITHM LAYER: statement-by-statement transcription of                *)
(* validator.go  Validator.HandleChange  (including filepath.Clean,        *)
(* filepath.Dir/Base on clean relative paths, sort.Search's binary search  *)
(* over the parentDirs stack and the Go string comparison on `last`).      *)
(* RejectDots = TRUE models the tree after the "fix:" commit that rejects  *)
(* "." and ".." in the escape check; FALSE is the pinned upstream code.    *)
(***************************************************************************)
EXTENDS Paths
CONSTANT RejectDots

GoClean(s) ==
  IF s = <<>> THEN DotN
  ELSE LET rooted == s[1] = Slash
           cs == SelectSeq(Split(s), LAMBDA c : c # <<>> /\ c # DotN)
           RECURSIVE Proc(_, _)
           Proc(i, stk) ==
             IF i > Len(cs) THEN stk
             ELSE IF cs[i] = DotDotN
                  THEN IF Len(stk) > 0 /\ stk[Len(stk)] # DotDotN
                       THEN Proc(i + 1, SubSeq(stk, 1, Len(stk) - 1))
                       ELSE IF rooted THEN Proc(i + 1, stk)
                       ELSE Proc(i + 1, Append(stk, DotDotN))
                  ELSE Proc(i + 1, Append(stk, cs[i]))
           out == Flat(Proc(1, <<>>))
           res == IF rooted THEN <<Slash>> \o out ELSE out
       IN IF res = <<>> THEN DotN ELSE res

IsAbs(s) == Len(s) > 0 /\ s[1] = Slash

\* filepath.Dir / filepath.Base for a clean, relative, non-empty path
LastSlash(s) == LET S == {i \in 1..Len(s) : s[i] = Slash} IN
                IF S = {} THEN 0 ELSE CHOOSE i \in S : \A j \in S : j <= i
GoDir(s)  == LET k == LastSlash(s) IN IF k = 0 THEN DotN ELSE SubSeq(s, 1, k - 1)
GoBase(s) == LET k == LastSlash(s) IN SubSeq(s, k + 1, Len(s))
GoJoin(d, b) == IF d = <<>> THEN b ELSE d \o <<Slash>> \o b
HasPrefixB(s, pre) == Len(pre) <= Len(s) /\ SubSeq(s, 1, Len(pre)) = pre

\* sort.Search(n, f): smallest i in [0,n] found by binary search
GoSearch(n, F(_)) ==
  LET RECURSIVE S(_, _)
      S(i, j) == IF i < j
                 THEN LET h == (i + j) \div 2 IN IF ~F(h) THEN S(h + 1, j) ELSE S(i, h)
                 ELSE i
  IN S(0, n)

VAInit == << [dir |-> <<>>, last |-> <<>>] >>          \* make([]parent, 1, 10)

\* returns [ok |-> BOOLEAN, st |-> new parentDirs]
VAHandle(pd, c) ==
  LET p == c.raw
      rej == [ok |-> FALSE, st |-> pd]
  IN
  IF p # GoClean(p) THEN rej                            \* "unclean path"
  ELSE IF IsAbs(p) THEN rej                             \* "absolute path"
  ELSE
    LET dir0 == GoDir(p)
        base == GoBase(p)
        dir  == IF dir0 = DotN THEN <<>> ELSE dir0
    IN
    IF dir = DotDotN \/ HasPrefixB(p, <<46, 46, 47>>)
       \/ (RejectDots /\ (p = DotN \/ p = DotDotN))
    THEN rej                                            \* "escape check"
    ELSE
      LET n  == Len(pd)
          i0 == GoSearch(n, LAMBDA k : ComparePathFlat(pd[n - k].dir, dir) <= 0)
          i  == n - 1 - i0                              \* 0-based
          pd1 == IF i # n - 1 THEN SubSeq(pd, 1, i + 1) ELSE pd
      IN
      IF dir # pd1[Len(pd1)].dir \/ CmpBytes(pd1[i + 1].last, base) >= 0
      THEN [ok |-> FALSE, st |-> pd1]                   \* "changes out of order"
      ELSE
        LET pd2 == [pd1 EXCEPT ![i + 1].last = base] IN
        [ok |-> TRUE,
         st |-> IF c.kind # "delete" /\ c.isDir
                THEN Append(pd2, [dir |-> GoJoin(dir, base), last |-> <<>>])
                ELSE pd2]

RECURSIVE VAFirstRejectFrom(_, _, _)
VAFirstRejectFrom(seq, i, pd) ==
  IF i > Len(seq) THEN 0
  ELSE LET r == VAHandle(pd, seq[i]) IN
       IF ~r.ok THEN i ELSE VAFirstRejectFrom(seq, i + 1, r.st)
VAFirstReject(seq) == VAFirstRejectFrom(seq, 1, VAInit)
=============================================================================
