SPECIFICATION Spec
CONSTANTS IdBeforeSkip = FALSE
 FwdDirOnce = TRUE
INVARIANTS ForwardedIsProjection IdsAreStatPositions
CHECK_DEADLOCK FALSE
