----------------------------- MODULE DiskWriterMC -----------------------------
(***************************************************************************)
(* ALGORITHM LAYER of diskwriter.go DiskWriter.HandleChange (Add / Modify) *)
(* as a sequence of file-system operations on a small abstract file system *)
(* with inodes, for EVERY pair (what is at the destination path, what the  *)
(* incoming stat says):                                                     *)
(*   old   - | file | empty dir | dir with a child | symlink to an outside  *)
(*         directory | fifo                                                  *)
(*   new   file | hard link to file x | dir | symlink | fifo | device |     *)
(*         hard link to fifo y (y sent earlier)                             *)
(* One action per system call (Lstat, Mkdir / Mknod / Symlink / Link /     *)
(* Create at the temporary name, metadata, RemoveAll, Rename), so that TLC *)
(* also visits every crash point in between (invariant NothingOutside      *)
(* holds in every intermediate state).                                       *)
(* Checked when the call has returned:                                       *)
(*   Arrived        the destination path holds an entry of the new kind      *)
(*   Grouped        a stat with a link name shares the inode of its target   *)
(*   ChildrenGone   nothing of a replaced directory is left                  *)
(*   MergedDirKept  a directory over a directory keeps its children          *)
(*   NothingOutside the outside directory and the link targets are untouched *)
(* DeviceBeforeLink = TRUE transcribes the pinned order of the type switch  *)
(* (device / fifo tested before the link name): TLC must reject it          *)
(* (Grouped fails for a hard-linked fifo).  StatFollows = TRUE transcribes   *)
(* a seeded variant (os.Stat instead of os.Lstat on the destination path):  *)
(* TLC must reject it (NothingOutside / Arrived).                            *)
(***************************************************************************)
EXTENDS Integers, FiniteSets, TLC, Json, IOUtils, Sequences
CONSTANTS DeviceBeforeLink, StatFollows

OldKinds == {"none", "file", "dir0", "dir1", "linkOut", "fifo"}
NewKinds == {"file", "hlFile", "dir", "symlink", "fifo", "dev", "hlFifo"}

\* paths: D = the destination path, C = a child below it, T = the temporary name next to it, X / Y = earlier entries (a
\* regular file and a fifo) that link names refer to, O = a directory outside the root, OC = its child
Paths == {"D", "C", "T", "X", "Y", "O", "OC"}
\* inode kinds
VARIABLES old, new,           \* the case
          fs,                 \* path -> inode number, 0 = absent
          kind,               \* inode -> "file" | "dir" | "symlink" | "fifo" | "dev" | "free"
          pc, oldSeen, rename
vars == <<old, new, fs, kind, pc, oldSeen, rename>>
Inodes == 1..8

Fresh == CHOOSE i \in Inodes : kind[i] = "free"

Init == /\ old \in OldKinds /\ new \in NewKinds
        /\ kind = [i \in Inodes |-> CASE i = 1 -> "file"   \* X
                                      [] i = 2 -> "fifo"    \* Y
                                      [] i = 3 -> "dir"     \* O
                                      [] i = 4 -> "file"    \* OC
                                      [] i = 5 -> (CASE old = "file" -> "file" [] old \in {"dir0", "dir1"} -> "dir"
                                                     [] old = "linkOut" -> "symlink" [] old = "fifo" -> "fifo" [] OTHER -> "free")
                                      [] i = 6 -> (IF old = "dir1" THEN "file" ELSE "free")
                                      [] OTHER -> "free"]
        /\ fs = [p \in Paths |-> CASE p = "X" -> 1 [] p = "Y" -> 2 [] p = "O" -> 3 [] p = "OC" -> 4
                                   [] p = "D" -> (IF old = "none" THEN 0 ELSE 5)
                                   [] p = "C" -> (IF old = "dir1" THEN 6 ELSE 0)
                                   [] OTHER -> 0]
        /\ pc = "lstat" /\ oldSeen = "none" /\ rename = FALSE

NewIsDir == new = "dir"
\* what os.Lstat / os.Stat reports for the destination path
Seen == IF fs["D"] = 0 THEN "none"
        ELSE IF kind[fs["D"]] = "symlink" /\ StatFollows THEN "dir"     \* the link points at the outside directory
        ELSE kind[fs["D"]]

Lstat == /\ pc = "lstat"
         /\ oldSeen' = Seen /\ rename' = (Seen # "none")
         /\ pc' = IF Seen = "dir" /\ NewIsDir THEN "metaInPlace" ELSE "create"
         /\ UNCHANGED <<old, new, fs, kind>>
\* directory over directory: metadata is rewritten in place (through the path: a followed symlink would hit the outside dir)
MetaInPlace == /\ pc = "metaInPlace" /\ pc' = "done"
               /\ UNCHANGED <<old, new, fs, kind, oldSeen, rename>>
\* the type switch, at the temporary name when something is in the way
Create ==
  /\ pc = "create"
  /\ LET at == IF rename THEN "T" ELSE "D"
         linkTo == IF new = "hlFile" THEN "X" ELSE IF new = "hlFifo" THEN "Y" ELSE "-"
         isDevOrFifo == new \in {"fifo", "dev", "hlFifo"}
         asLink == linkTo # "-" /\ ~(DeviceBeforeLink /\ isDevOrFifo)
     IN IF asLink
        THEN fs' = [fs EXCEPT ![at] = fs[linkTo]] /\ UNCHANGED kind
        ELSE LET i == Fresh
                 k == CASE new = "dir" -> "dir" [] new = "symlink" -> "symlink" [] new \in {"fifo", "hlFifo"} -> "fifo"
                        [] new = "dev" -> "dev" [] OTHER -> "file"
             IN fs' = [fs EXCEPT ![at] = i] /\ kind' = [kind EXCEPT ![i] = k]
  /\ pc' = IF rename THEN "remove" ELSE "done"
  /\ UNCHANGED <<old, new, oldSeen, rename>>
\* if oldFi.IsDir() != fi.IsDir() { os.RemoveAll(destPath) }  (RemoveAll does not follow a symlink at the path itself)
Remove ==
  /\ pc = "remove"
  /\ IF (oldSeen = "dir") # NewIsDir
     THEN fs' = [fs EXCEPT !["D"] = 0, !["C"] = 0]
     ELSE UNCHANGED fs
  /\ pc' = "rename" /\ UNCHANGED <<old, new, kind, oldSeen, rename>>
\* rename(T, D): replaces a non-directory; fails on a directory in the way (the call then returns an error and T stays)
Rename ==
  /\ pc = "rename"
  /\ IF fs["D"] # 0 /\ kind[fs["D"]] = "dir" /\ ~(kind[fs["T"]] = "dir" /\ fs["C"] = 0)
     THEN pc' = "failed" /\ UNCHANGED fs
     ELSE fs' = [fs EXCEPT !["D"] = fs["T"], !["T"] = 0] /\ pc' = "done"
  /\ UNCHANGED <<old, new, kind, oldSeen, rename>>
Stutter == pc \in {"done", "failed"} /\ UNCHANGED vars
Next == Lstat \/ MetaInPlace \/ Create \/ Remove \/ Rename \/ Stutter
Spec == Init /\ [][Next]_vars

\* ---- properties -------------------------------------------------------------------------
WantKind == CASE new \in {"file", "hlFile"} -> "file" [] new = "dir" -> "dir" [] new = "symlink" -> "symlink"
              [] new \in {"fifo", "hlFifo"} -> "fifo" [] OTHER -> "dev"
Arrived == pc = "done" => fs["D"] # 0 /\ kind[fs["D"]] = WantKind
NeverFails == pc # "failed"
Grouped == pc = "done" => /\ (new = "hlFile" => fs["D"] = fs["X"])
                          /\ (new = "hlFifo" => fs["D"] = fs["Y"])
ChildrenGone == pc = "done" /\ ~NewIsDir => fs["C"] = 0
MergedDirKept == pc = "done" /\ old = "dir1" /\ NewIsDir => fs["C"] = 6 /\ fs["D"] = 5
\* in EVERY state (crash points included): nothing outside the destination path and its temporary twin changes
NothingOutside == fs["O"] = 3 /\ fs["OC"] = 4 /\ fs["X"] = 1 /\ fs["Y"] = 2 /\ kind[3] = "dir" /\ kind[4] = "file"
NoLeftover == pc = "done" => fs["T"] = 0

\* ---- case generation for the dwcases driver (configuration _gen): one file per (old, new) pair with what the model's run
\* ends in; the driver performs the same call on the real DiskWriter and the trace spec DWTrace compares
GenCases ==
  (pc \in {"done", "failed"}) =>
     ndJsonSerialize(IOEnv.VERIF_GEN_DIR \o "/dwcase_" \o old \o "_" \o new \o ".ndjson",
        <<[old |-> old, new |-> new, fails |-> (pc = "failed"),
           kindAtD |-> (IF fs["D"] = 0 THEN "none" ELSE kind[fs["D"]]),
           sameAsX |-> (fs["D"] # 0 /\ fs["D"] = fs["X"]), sameAsY |-> (fs["D"] # 0 /\ fs["D"] = fs["Y"]),
           childLeft |-> (fs["C"] # 0), keptDirInode |-> (old # "none" /\ fs["D"] = 5), leftover |-> (fs["T"] # 0)]>>)
=============================================================================
