------------------------------- MODULE WalkRef -------------------------------
(***************************************************************************)
(* PROPERTY LAYER for C09: what a walk must report for a tree.             *)
(* tree: snapshot (sorted, hard-link groups labelled by first member).     *)
(* A call is [raw, t, perm, uid, gid, size, mt, ln, dev, x, hl(raw)].      *)
(***************************************************************************)
EXTENDS Trees

HLRaw(raw) == IF raw = <<>> THEN <<>> ELSE Split(raw)

\* entry i of the (sub)tree as a walk must report it
CallMatches(call, tree, i) ==
  /\ CleanInside(call.raw) /\ Split(call.raw) = tree[i].p
  /\ call.t = tree[i].t /\ call.perm = tree[i].perm /\ call.uid = tree[i].uid /\ call.gid = tree[i].gid
  /\ call.mt = tree[i].mt /\ call.x = tree[i].x
  /\ (tree[i].t = "symlink" => call.ln = tree[i].ln)
  /\ (tree[i].t \in {"chr", "blk"} => call.dev = tree[i].dev)
  /\ (tree[i].t \in {"file", "symlink"} => call.size = tree[i].size)
  /\ (tree[i].t = "dir" => call.size = "0")
  \* first member of an inode group is the file, later members are links naming the first
  \* (the statement speaks of regular files; for device nodes and fifos sharing an inode the walker may name the first
  \* member too or report each on its own; directories and symlinks never carry a hard-link name)
  /\ (IF tree[i].t = "file" THEN HLRaw(call.hl) = HLOf(tree, i)
      ELSE IF tree[i].t \in {"dir", "symlink"} THEN HLRaw(call.hl) = <<>>
      ELSE HLRaw(call.hl) \in {<<>>, HLOf(tree, i)})

WalkClauses(calls, tree, sub) ==
  \* a sub-target walk reports the target and what is below it: sorted, but its ancestors are absent
  (IF (IF sub THEN SortedTree(tree) ELSE WellFormedTree(tree)) THEN {} ELSE {"HARNESS.treeNotWellFormed"})
  \cup (IF \A k \in DOMAIN calls : CleanInside(calls[k].raw) THEN {} ELSE {"rootOrUncleanPathReported"})
  \cup (IF \A k \in 1..(Len(calls) - 1) :
            CleanInside(calls[k].raw) /\ CleanInside(calls[k + 1].raw)
              => LessComponentwise(Split(calls[k].raw), Split(calls[k + 1].raw))
        THEN {} ELSE {"notStrictlyAscending"})
  \cup (IF Len(calls) = Len(tree) THEN {} ELSE {"everyEntryExactlyOnce"})
  \cup (IF Len(calls) = Len(tree) /\ \A i \in DOMAIN tree : CallMatches(calls[i], tree, i)
        THEN {} ELSE {"statMatchesLstat"})

\* composite filesystem of named sub-roots: dirs = sequence of [name (raw), tree, calls...]
\* expected: for each sub-root in name order: the sub-root directory itself, then its walk with
\* every path (and hard-link name) prefixed by the name, absolute symlink targets re-rooted.
=============================================================================
