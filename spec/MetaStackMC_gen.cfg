SPECIFICATION Spec
CONSTANTS IdBeforeSkip = TRUE
 FwdDirOnce = TRUE
INVARIANT GenCases
CHECK_DEADLOCK FALSE
