SPECIFICATION Spec
CONSTANTS MaxPatLen = 2
 MaxList = 2
 Mode = "inc"
 StripBoth = FALSE
 ExistingCountsAsIncluded = FALSE
INVARIANTS WrittenIsReference OnlyMatcherDivergesCopy CopyEqualsWalk DeferredOnlyOnDemand ExistingLeftAlone
CHECK_DEADLOCK FALSE
