SPECIFICATION Spec
CONSTANTS MaxPatLen = 2
 MaxList = 2
 Mode = "inc"
 StripBoth = FALSE
INVARIANT GenCases
CHECK_DEADLOCK FALSE
