SPECIFICATION Spec
CONSTANTS N = 3
 NeedsData = {0, 1, 2}
 K = 1
 W = 2
 PC = 1
 NC = 1
 QC = 1
 ReadErrAllowed = TRUE
 FixWorkerErr = TRUE
 FixQueueCtx = TRUE
INVARIANTS RecvOKImpliesComplete SendOKImpliesFin NoDataOverrun TypeOK
CHECK_DEADLOCK TRUE
