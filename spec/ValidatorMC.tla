------------------------------ MODULE ValidatorMC ------------------------------
(***************************************************************************)
(* alg/Validator implements abs/ValidStream: explored as a tree of change  *)
(* sequences over a hostile path alphabet x {dir,file} x {add,delete}.     *)
(* A branch stops at the first rejection (both machines are prefix-closed) *)
(* so every sequence up to MaxLen is covered.                              *)
(***************************************************************************)
EXTENDS ValidStream, ValidatorAlg, TLC
CONSTANT MaxLen

\* "."  ".."  ""  "a/.."  "/a"  "a//b"  "a"  "a/b"  "a-b"  "a/b/c"  "b"  "../a"  "a/"  "./a"  "a/./b"
RawAlphabet == { <<46>>, <<46,46>>, <<>>, <<97,47,46,46>>, <<47,97>>, <<97,47,47,98>>,
                 <<97>>, <<97,47,98>>, <<97,45,98>>, <<97,47,98,47,99>>, <<98>>,
                 <<46,46,47,97>>, <<97,47>>, <<46,47,97>>, <<97,47,46,47,98>> }
Symbols == [raw : RawAlphabet, kind : {"add", "delete"}, isDir : BOOLEAN]

VARIABLES n, abs, alg, absOk, algOk
vars == <<n, abs, alg, absOk, algOk>>

Init == n = 0 /\ abs = VSInit /\ alg = VAInit /\ absOk = TRUE /\ algOk = TRUE

Feed(c) == /\ n < MaxLen /\ absOk /\ algOk
           /\ n' = n + 1
           /\ absOk' = VSOk(abs, c)
           /\ abs' = IF VSOk(abs, c) THEN VSNext(abs, c) ELSE abs
           /\ LET r == VAHandle(alg, c) IN algOk' = r.ok /\ alg' = r.st
Next == \E c \in Symbols : Feed(c)
Spec == Init /\ [][Next]_vars

\* the verdict for the last element fed is the same in both layers, hence so
\* is the index of the first rejection of every sequence
Agree == absOk = algOk
\* the stack of the algorithm is the ancestor chain of the last accepted path
StackShape == algOk /\ absOk /\ abs.last # <<>> =>
              /\ \A k \in 2..Len(alg) : Split(alg[k].dir) \in abs.dirs
              /\ alg[1].dir = <<>>
=============================================================================
