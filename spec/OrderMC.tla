------------------------------- MODULE OrderMC -------------------------------
(***************************************************************************)
(* C12 / C09: the protocol's path comparison (ComparePath transcribed as   *)
(* LessSepLowest: bytewise, separator below every byte) is a strict total  *)
(* order and equals the component-wise order, on every pair / triple of a  *)
(* bounded path universe whose alphabet has bytes below and above '/'.     *)
(***************************************************************************)
EXTENDS Paths, TLC
CONSTANTS Alphabet, MaxNameLen, MaxDepth, Triples

RECURSIVE SeqsUpTo(_, _)
SeqsUpTo(S, n) == IF n = 0 THEN {<<>>}
                  ELSE LET R == SeqsUpTo(S, n - 1) IN R \cup {Append(s, x) : s \in R, x \in S}
NameU == SeqsUpTo(Alphabet, MaxNameLen) \ {<<>>}
PathU == SeqsUpTo(NameU, MaxDepth) \ {<<>>}

VARIABLES p, q, r, phase
vars == <<p, q, r, phase>>
Init == p \in PathU /\ q = p /\ r = p /\ phase = 0
Next == /\ phase = 0 /\ phase' = 1 /\ p' = p
        /\ q' \in PathU
        /\ IF Triples THEN r' \in PathU ELSE r' = q'
Spec == Init /\ [][Next]_vars

Agree == /\ (LessSepLowest(p, q) <=> LessComponentwise(p, q))
         /\ (LessComponentwise(p, q) <=> LessComponentwiseDecl(p, q))
         /\ ComparePathFlat(Flat(p), Flat(q)) = CmpComponentwise(p, q)
Irreflexive == ~LessSepLowest(p, p)
Total == p # q => (LessSepLowest(p, q) \/ LessSepLowest(q, p))
Asymmetric == ~(LessSepLowest(p, q) /\ LessSepLowest(q, p))
Transitive == LessSepLowest(p, q) /\ LessSepLowest(q, r) => LessSepLowest(p, r)
\* a directory sorts immediately before its contents, and nothing that is
\* outside it sorts between two of its members (what makes depth-first walk
\* order = ascending order)
Contiguous == Under(p, q) /\ Under(r, q) /\ LessSepLowest(p, r)
              => \A x \in {p, r} : LessSepLowest(q, x)
=============================================================================
