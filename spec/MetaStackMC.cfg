SPECIFICATION Spec
CONSTANTS IdBeforeSkip = TRUE
 FwdDirOnce = TRUE
INVARIANTS ForwardedIsProjection IdsAreStatPositions
CHECK_DEADLOCK FALSE
