------------------------------ MODULE ResolverMC ------------------------------
(***************************************************************************)
(* ALGORITHM LAYER for C18: a transcription of followlinks.go               *)
(* (symlinkResolver.append, readSymlink without wildcards, dedupePaths)     *)
(* as a state machine, run on EVERY tree x request list of a bounded        *)
(* universe and judged by the same property layer (FollowRef) that judges   *)
(* the recorded executions of the real code.                                *)
(*                                                                         *)
(* One action per loop iteration of append.  Without wildcards readSymlink *)
(* yields at most one target, so the recursion `for target := range targets*)
(* { r.append(Join(target, p)) }; return nil` is a tail call: the state is *)
(* (remaining path p, current, resolved).                                  *)
(*                                                                         *)
(* Variants (constants) transcribe the code as it was pinned / a seeded     *)
(* change; TLC must REJECT them (sanity configurations):                    *)
(*   MemoFinalOnly      visited-set consulted only for the last component   *)
(*   DedupeNeighbour    dedupePaths compares with the previously kept only  *)
(*   LexicalClean       request, link name and joined path cleaned as       *)
(*                      strings (a ".." after a symlink component then      *)
(*                      leaves the LINK's directory): rejected in the       *)
(*                      thorough scope, which has a target a/../b           *)
(***************************************************************************)
EXTENDS FollowRef, SequencesExt, FiniteSets, TLC, Json, IOUtils
CONSTANTS Scope,            \* "quick" | "thorough" | "dedupe"
          MemoFinalOnly, DedupeNeighbour, MaxSteps,
          LexicalClean       \* TRUE: the pinned resolver, which cleaned request, link name and joined path as STRINGS

A == <<97>>
B == <<98>>
AB == <<97, 45, 98>>            \* "a-b": sorts between "a" and "a/b" bytewise
S == Slash
Dot == 46

\* symlink targets (raw bytes, as stored in Linkname)
TargetsQuick == { A, B, <<S>>, <<Dot, Dot>>, <<97, S, 97>>, <<S, 98>>, <<Dot, Dot, S, 98>> }
TargetsMore == { <<98, S, 97>>, <<Dot>>, <<97, S, 98>>, <<Dot, Dot, S, 97, S, 97>>, <<97, S, Dot, Dot, S, 98>> }
Targets == IF Scope = "thorough" THEN TargetsQuick \cup TargetsMore
           ELSE IF Scope = "dedupe" THEN {A, <<97, S, 98>>} ELSE TargetsQuick

Absent == [t |-> "absent", lnb |-> <<>>]
File == [t |-> "file", lnb |-> <<>>]
Dir == [t |-> "dir", lnb |-> <<>>]
Sym(tg) == [t |-> "symlink", lnb |-> tg]
Leafs == {Absent, File} \cup {Sym(tg) : tg \in Targets}

\* requests: sequences of components
Reqs1 == IF Scope = "dedupe" THEN { <<A>>, <<AB>>, <<A, B>> }
         ELSE { <<A>>, <<B>>, <<A, A>>, <<A, B>>, <<B, A>> } \cup (IF Scope = "thorough" THEN { <<A, A, B>>, <<DotN>>, <<B, B>> } ELSE {})
ReqLists == IF Scope = "dedupe" THEN { <<x, y, z>> : x \in Reqs1, y \in Reqs1, z \in Reqs1 }
            ELSE { <<x>> : x \in Reqs1 } \cup { <<x, y>> : x \in Reqs1, y \in Reqs1 }

VARIABLES sa, sb, saa, sab, sba, sdash,    \* the tree: slot contents for a, b, a/a, a/b, b/a, a-b
          reqs, ri, phase, p, cur, resolved, steps
vars == <<sa, sb, saa, sab, sba, sdash, reqs, ri, phase, p, cur, resolved, steps>>

\* the tree as a function path -> entry (what FollowRef expects)
TreeDom == (IF sa.t # "absent" THEN {<<A>>} ELSE {}) \cup (IF sb.t # "absent" THEN {<<B>>} ELSE {})
           \cup (IF sdash.t # "absent" THEN {<<AB>>} ELSE {})
           \cup (IF sa.t = "dir" /\ saa.t # "absent" THEN {<<A, A>>} ELSE {})
           \cup (IF sa.t = "dir" /\ sab.t # "absent" THEN {<<A, B>>} ELSE {})
           \cup (IF sb.t = "dir" /\ sba.t # "absent" THEN {<<B, A>>} ELSE {})
Slot(q) == IF q = <<A>> THEN sa ELSE IF q = <<B>> THEN sb ELSE IF q = <<AB>> THEN sdash
           ELSE IF q = <<A, A>> THEN saa ELSE IF q = <<A, B>> THEN sab ELSE sba
T == [q \in TreeDom |-> Slot(q)]

\* lexical cleaning of an absolute path given as components: ".", "" dropped, ".." pops and is clamped at the root
RECURSIVE CleanAbs(_, _)
CleanAbs(acc, cs) == IF cs = <<>> THEN acc
                     ELSE LET c == Head(cs) IN
                          IF c = <<>> \/ c = DotN THEN CleanAbs(acc, Tail(cs))
                          ELSE IF c = DotDotN THEN CleanAbs(IF acc = <<>> THEN <<>> ELSE Parent(acc), Tail(cs))
                          ELSE CleanAbs(Append(acc, c), Tail(cs))

\* readSymlink(current): nil, or the one absolute target (as components from the root)
IsLink(q) == q \in TreeDom /\ Slot(q).t = "symlink"
\* the target as readSymlink hands it back: absolute, NOT cleaned (the components of the link's directory, which is free of
\* links, followed by the components of the link name as they are; "." / ".." / "" are dealt with by the loop)
TargetOf(q) == LET raw == Slot(q).lnb
                   abs == Len(raw) > 0 /\ raw[1] = S
                   comps == (IF abs THEN <<>> ELSE Parent(q)) \o Split(raw)
               IN IF LexicalClean THEN CleanAbs(<<>>, comps) ELSE comps

Init == /\ sa \in Leafs \cup {Dir} /\ sb \in Leafs \cup {Dir}
        /\ sdash \in (IF Scope = "dedupe" THEN {Absent, File} ELSE {Absent})
        /\ saa \in (IF sa.t = "dir" THEN Leafs ELSE {Absent})
        /\ sab \in (IF sa.t = "dir" THEN Leafs ELSE {Absent})
        /\ sba \in (IF sb.t = "dir" THEN Leafs ELSE {Absent})
        /\ reqs \in ReqLists
        /\ ri = 1 /\ phase = "req" /\ p = <<>> /\ cur = <<>> /\ resolved = {} /\ steps = 0

\* FollowLinks: for _, p := range paths { r.append(p) };   current := "."
StartReq == /\ phase = "req" /\ ri <= Len(reqs)
            /\ p' = (IF LexicalClean THEN CleanAbs(<<>>, reqs[ri]) ELSE reqs[ri]) /\ cur' = <<>> /\ phase' = "iter"
            /\ UNCHANGED <<sa, sb, saa, sab, sba, sdash, reqs, ri, resolved, steps>>

Return == /\ phase' = "req" /\ ri' = ri + 1 /\ p' = <<>> /\ cur' = <<>>

\* one iteration of the for loop in append: the path is walked one component at a time; "" and "." add nothing, ".." is applied
\* to the location reached so far (which is free of links), anything else is looked up
Iterate ==
  /\ phase = "iter"
  /\ steps' = steps + 1
  /\ UNCHANGED <<sa, sb, saa, sab, sba, sdash, reqs>>
  /\ LET c == IF p = <<>> THEN <<>> ELSE Head(p)
         rest == IF p = <<>> THEN <<>> ELSE Tail(p)
         plain == c # <<>> /\ c # DotN /\ c # DotDotN
         c1 == IF plain THEN Append(cur, c)
               ELSE IF c = DotDotN THEN (IF cur = <<>> THEN <<>> ELSE Parent(cur))
               ELSE cur
         link == plain /\ IsLink(c1)
         consult == IF MemoFinalOnly THEN rest = <<>> ELSE (rest = <<>> \/ link)
     IN IF consult /\ c1 \in resolved
        THEN Return /\ UNCHANGED resolved
        ELSE IF link
        THEN \* r.resolved[current] = {}; r.append(target + "/" + p); return nil
             /\ resolved' = resolved \cup {c1}
             /\ p' = TargetOf(c1) \o rest /\ cur' = <<>> /\ UNCHANGED <<phase, ri>>
        ELSE IF rest = <<>>
        THEN /\ resolved' = resolved \cup {c1} /\ Return
        ELSE /\ p' = rest /\ cur' = c1 /\ UNCHANGED <<resolved, phase, ri>>

Finish == /\ phase = "req" /\ ri > Len(reqs) /\ phase' = "done"
          /\ UNCHANGED <<sa, sb, saa, sab, sba, sdash, reqs, ri, p, cur, resolved, steps>>

Next == StartReq \/ Iterate \/ Finish
Spec == Init /\ [][Next]_vars

\* ---- dedupePaths on the byte-sorted list of joined strings --------------------------
SortedFlat == SetToSortSeq(resolved, LAMBDA x, y : LessBytes(Flat(x), Flat(y)))
RECURSIVE NeighbourDedupe(_, _, _)
NeighbourDedupe(in, i, out) ==      \* the pinned loop: compare with the previously kept element only
  IF i > Len(in) THEN out
  ELSE IF out # <<>> /\ Under(in[i], out[Len(out)]) THEN NeighbourDedupe(in, i + 1, out)
  ELSE NeighbourDedupe(in, i + 1, Append(out, in[i]))
IsNil == <<>> \in resolved
Result == IF IsNil THEN <<>>
          ELSE IF DedupeNeighbour THEN NeighbourDedupe(SortedFlat, 1, <<>>)
          ELSE SelectSeq(SortedFlat, LAMBDA s : ~\E t \in resolved : Under(s, t))

\* ---- what is checked ----------------------------------------------------------------
\* termination: every run of append over this universe finishes within MaxSteps loop iterations
Terminates == steps <= MaxSteps
Allowed == {"rootReachedButListNotEmpty/explainedByLinkMemoisation", "traversedSymlinkNotCovered/explainedByLinkMemoisation",
            "finalLocationNotCovered/explainedByLinkMemoisation"}
Judged == FollowClauses(T, reqs, Result, IsNil, TRUE)
\* the result satisfies the property layer, up to the recorded known finding (link memoisation)
ResultOK == phase = "done" => Judged \subseteq Allowed
\* non-vacuity witnesses (checked as "must be violated" in a separate config)
NeverExplained == phase = "done" => Judged = {}

\* ---- case generation for the follow driver (configuration _gen): one file per (tree, request list) with the result of the
\* ALGORITHM model's run (also where it departs from the property layer: the recorded memoisation finding); the driver calls
\* the real FollowLinks on the materialised tree and the monitor compares (WalkTrace, clause MODEL.resolverResultDiffers)
Chr(b) == CASE b = 97 -> "a" [] b = 98 -> "b" [] b = 45 -> "-" [] b = 46 -> "." [] b = 47 -> "/" [] OTHER -> "?"
RECURSIVE BytesText(_)
BytesText(bs) == IF bs = <<>> THEN "" ELSE Chr(Head(bs)) \o BytesText(Tail(bs))
RECURSIVE PathText(_)
PathText(cs) == IF cs = <<>> THEN "" ELSE IF Len(cs) = 1 THEN BytesText(cs[1]) ELSE BytesText(cs[1]) \o "/" \o PathText(Tail(cs))
TargetList == SetToSortSeq(Targets, LAMBDA x, y : LessBytes(x, y))
SlotCode(sl) == CASE sl.t = "absent" -> "0" [] sl.t = "file" -> "f" [] sl.t = "dir" -> "d"
                  [] OTHER -> ToString(CHOOSE k \in DOMAIN TargetList : TargetList[k] = sl.lnb)
RECURSIVE ReqCode(_)
ReqCode(rs) == IF rs = <<>> THEN "" ELSE (IF PathText(rs[1]) = "a" THEN "1" ELSE IF PathText(rs[1]) = "b" THEN "2" ELSE IF PathText(rs[1]) = "a/a" THEN "3"
                  ELSE IF PathText(rs[1]) = "a/b" THEN "4" ELSE IF PathText(rs[1]) = "b/a" THEN "5" ELSE IF PathText(rs[1]) = "a-b" THEN "6"
                  ELSE IF PathText(rs[1]) = "a/a/b" THEN "7" ELSE IF PathText(rs[1]) = "b/b" THEN "8" ELSE "9") \o ReqCode(Tail(rs))
CaseCode == SlotCode(sa) \o SlotCode(sb) \o SlotCode(saa) \o SlotCode(sab) \o SlotCode(sba) \o SlotCode(sdash) \o "_" \o ReqCode(reqs)
EntryOf(q) == [p |-> PathText(q), t |-> Slot(q).t, ln |-> BytesText(Slot(q).lnb)]
TreeList == LET D == SetToSortSeq(TreeDom, LAMBDA x, y : LessBytes(Flat(x), Flat(y))) IN [k \in DOMAIN D |-> EntryOf(D[k])]
GenCases ==
  (phase = "done") =>
     ndJsonSerialize(IOEnv.VERIF_GEN_DIR \o "/followcase_" \o CaseCode \o ".ndjson",
        <<[name |-> CaseCode, tree |-> TreeList, reqs |-> [k \in DOMAIN reqs |-> PathText(reqs[k])],
           result |-> [k \in DOMAIN Result |-> PathText(Result[k])], isNil |-> IsNil]>>)
=============================================================================
