SPECIFICATION Spec
CONSTANTS MaxPatLen = 3
 MaxList = 1
 Mode = "exc"
 StripBoth = FALSE
INVARIANT GenCases
CHECK_DEADLOCK FALSE
