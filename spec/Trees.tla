------------------------------- MODULE Trees -------------------------------
(***************************************************************************)
(* Trees travel as sequences of entry records already sorted in walk order *)
(* (the harness sorts, TLC re-checks with SortedTree).  An entry is        *)
(*  [p path, t type, perm, uid, gid, size, mt, c content-id, ln symlink    *)
(*   target, dev "maj:min", x xattrs (canonical string), g hard-link group *)
(*   label = index of the group's first member or 0, ino]                  *)
(* size/mt/c/ln/dev/x/ino are opaque strings: only equality is needed.     *)
(***************************************************************************)
EXTENDS Paths

PathsOf(t) == {t[i].p : i \in DOMAIN t}
Has(t, p) == \E i \in DOMAIN t : t[i].p = p
IdxOf(t, p) == CHOOSE i \in DOMAIN t : t[i].p = p
At(t, p) == t[IdxOf(t, p)]

SortedTree(t) == \A i \in 1..(Len(t) - 1) : LessComponentwise(t[i].p, t[i + 1].p)
ParentClosed(t) == \A i \in DOMAIN t :
                     Len(t[i].p) = 1 \/ (Has(t, Parent(t[i].p)) /\ At(t, Parent(t[i].p)).t = "dir")
WellFormedTree(t) == SortedTree(t) /\ ParentClosed(t)

\* hard-link name of entry i of a snapshot: the path of the first member of
\* its inode group when i is a later member, <<>> otherwise
HLOf(t, i) == IF t[i].g # 0 /\ t[i].g # i THEN t[t[i].g].p ELSE <<>>
\* group root: path naming the inode group (own path for first members / singletons)
RootOf(t, i) == IF t[i].g # 0 THEN t[t[i].g].p ELSE t[i].p

\* chroot-style resolution of a path in a tree given as a function path -> entry (entries carry
\* lnb = symlink target as bytes): every component is followed, ".." is clamped at the root,
\* absolute targets restart at the root; fuel bounds symlink expansions (cycles -> ok = FALSE)
RECURSIVE ResolveFrom(_, _, _, _)
ResolveFrom(T, cur, rest, fuel) ==
  IF rest = <<>> THEN [ok |-> TRUE, p |-> cur]
  ELSE LET c == Head(rest)
           r == Tail(rest)
       IN IF c = <<>> \/ c = DotN THEN ResolveFrom(T, cur, r, fuel)
          ELSE IF c = DotDotN THEN ResolveFrom(T, IF cur = <<>> THEN <<>> ELSE Parent(cur), r, fuel)
          ELSE LET nxt == Append(cur, c) IN
               IF nxt \in DOMAIN T /\ T[nxt].t = "symlink"
               THEN IF fuel = 0 THEN [ok |-> FALSE, p |-> nxt]
                    ELSE LET tg == T[nxt].lnb IN
                         ResolveFrom(T, IF Len(tg) > 0 /\ tg[1] = Slash THEN <<>> ELSE cur, Split(tg) \o r, fuel - 1)
               ELSE ResolveFrom(T, nxt, r, fuel)
ResolvePath(T, p) == ResolveFrom(T, <<>>, p, 40)

IsDirE(e) == e.t = "dir"
IsFileE(e) == e.t = "file"
=============================================================================
