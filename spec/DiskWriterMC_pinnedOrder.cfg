SPECIFICATION Spec
CONSTANTS
  DeviceBeforeLink = TRUE
  StatFollows = FALSE
INVARIANTS Grouped
CHECK_DEADLOCK FALSE
