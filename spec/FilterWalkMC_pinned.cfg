SPECIFICATION Spec
CONSTANTS MaxPatLen = 3
 MaxList = 1
 Mode = "inc"
 StripBoth = TRUE
INVARIANTS PruningUnobservable OnlyMatcherDiverges NoNegNoDivergence
CHECK_DEADLOCK FALSE
