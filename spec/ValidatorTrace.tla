----------------------------- MODULE ValidatorTrace -----------------------------
(***************************************************************************)
(* Trace validation for C12.  Events (ndjson, produced by `vdrive          *)
(* validator` from the REAL fsutil.Validator / fsutil.ComparePath):        *)
(*   Seq{case, changes:[{raw,kind,isDir}], impl}  impl = 1-based index of  *)
(*        the first change the real Validator rejected, 0 = all accepted   *)
(*   Cmp{case, p, q, sign}  sign of the real ComparePath on two clean paths *)
(* Verdicts come from the property layer (ValidStream, Paths); the         *)
(* algorithm layer (ValidatorAlg) is only a drift monitor.                 *)
(* The spec is total: every line is consumed, failures are collected.      *)
(***************************************************************************)
EXTENDS ValidStream, ValidatorAlg, Json, IOUtils, TLC

Trace == ndJsonDeserialize(IOEnv.VERIF_TRACE)

VARIABLES l, failed, drift
vars == <<l, failed, drift>>

Judge(e) ==
  IF e.ev = "Seq" THEN
       IF VSFirstReject(e.changes) = e.impl THEN {} ELSE {"firstReject"}
  ELSE IF e.ev = "Cmp" THEN
       (IF CmpComponentwise(e.p, e.q) = e.sign THEN {} ELSE {"orderEqualsComponentwise"})
       \cup (IF e.sign = 0 /\ e.p # e.q THEN {"orderTotal"} ELSE {})
  ELSE {"unknownEvent"}

Drifts(e) == e.ev = "Seq" /\ VAFirstReject(e.changes) # e.impl

Init == l = 1 /\ failed = <<>> /\ drift = <<>>
Step == /\ l <= Len(Trace)
        /\ LET e == Trace[l]
               bad == Judge(e)
           IN /\ failed' = IF bad = {} THEN failed
                           ELSE Append(failed, [case |-> e.case, line |-> l, clauses |-> bad])
              /\ drift' = IF Drifts(e) THEN Append(drift, [case |-> e.case, line |-> l]) ELSE drift
        /\ l' = l + 1
Spec == Init /\ [][Step]_vars

Emit == (l = Len(Trace) + 1) =>
          ndJsonSerialize(IOEnv.VERIF_OUT, <<[consumed |-> l - 1, failed |-> failed, drift |-> drift]>>)
=============================================================================
