SPECIFICATION Spec
CONSTANTS MaxPatLen = 3
 MaxList = 1
 Mode = "inc"
 StripBoth = FALSE
 ExistingCountsAsIncluded = FALSE
INVARIANT GenCopyCases
CHECK_DEADLOCK FALSE
