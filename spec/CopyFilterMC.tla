------------------------------ MODULE CopyFilterMC ------------------------------
(***************************************************************************)
(* ALGORITHM LAYER of copy/copy.go with include / exclude lists: the        *)
(* per-entry decision with the incremental matcher (parent match info       *)
(* handed down the recursion), directories that are not selected DEFERRED   *)
(* on the parentDirs stack and created top-down only when an entry below    *)
(* them is selected - no pruning, unlike filterFS.Walk.  Same tree (depth 3 *)
(* on the names a, ab), same pattern language and same transcription of     *)
(* the incremental matcher as FilterWalkMC, which this module extends.      *)
(*   WrittenIsReference   with naive per-entry verdicts the set of written  *)
(*        paths is exactly the reference: selected entries plus their       *)
(*        ancestors, nothing else (no directory without a selected          *)
(*        descendant)                                                       *)
(*   OnlyMatcherDivergesCopy   where the real (incremental) decision leads  *)
(*        to another set, naive verdicts repair it: the recorded matcher    *)
(*        finding and nothing else                                          *)
(*   CopyEqualsWalk   the written set equals what the filtered walk         *)
(*        algorithm (FilterWalkMC!AlgOut: pruning, lazy ancestors) reports  *)
(*        for the same lists - the last sentence of C16's statement, for    *)
(*        every list in scope                                               *)
(*   DeferredOnlyOnDemand   every written directory is selected itself or   *)
(*        has a written entry below it                                      *)
(*   ExistingLeftAlone    for every set of directories the destination      *)
(*        already holds: such a directory is written (chmod / chown /       *)
(*        notification) only if the empty-destination run writes it too     *)
(* ExistingCountsAsIncluded = TRUE transcribes a seeded variant (a deferred *)
(* directory that already exists in the destination is treated as included  *)
(* right away): TLC must reject it (ExistingLeftAlone).                     *)
(***************************************************************************)
EXTENDS FilterWalkMC
CONSTANTS ExistingCountsAsIncluded

Dirs == {p \in Paths : IsDir(p)}

RECURSIVE CopyAlg(_, _, _, _, _, _, _)
\* stack entries: [path, inc, exc, created]; have = directories the destination already holds
CopyAlg(inc, exc, i, stack, written, naive, have) ==
  IF i > Len(WalkOrder) THEN written
  ELSE LET p == WalkOrder[i]
           keep == {k \in DOMAIN stack : Under(p, stack[k].path)}
           st == SubSeq(stack, 1, Cardinality(keep))
           par == IF st = <<>> THEN [inc |-> <<>>, exc |-> <<>>] ELSE st[Len(st)]
           ri == IF inc = <<>> THEN [m |-> TRUE, info |-> <<>>] ELSE IF naive THEN [m |-> Verdict(inc, p), info |-> <<>>] ELSE Incr(inc, p, par.inc)
           re == IF exc = <<>> THEN [m |-> FALSE, info |-> <<>>] ELSE IF naive THEN [m |-> Verdict(exc, p), info |-> <<>>] ELSE Incr(exc, p, par.exc)
           include == (ri.m /\ ~re.m) \/ (ExistingCountsAsIncluded /\ IsDir(p) /\ p \in have)
       IN IF include
          THEN LET deferred == {st[k].path : k \in {j \in DOMAIN st : ~st[j].created}}
                   st2 == [k \in DOMAIN st |-> [st[k] EXCEPT !.created = TRUE]]
               IN CopyAlg(inc, exc, i + 1, IF IsDir(p) THEN Append(st2, [path |-> p, inc |-> ri.info, exc |-> re.info, created |-> TRUE]) ELSE st2,
                          written \cup deferred \cup {p}, naive, have)
          ELSE CopyAlg(inc, exc, i + 1, IF IsDir(p) THEN Append(st, [path |-> p, inc |-> ri.info, exc |-> re.info, created |-> FALSE]) ELSE st,
                       written, naive, have)

Written(incL, excL, naive, have) == CopyAlg(incL, excL, 1, <<>>, {}, naive, have)
RunCopy(ll, naive, have) == IF Mode = "inc" THEN Written(ll, <<>>, naive, have) ELSE Written(<<>>, ll, naive, have)
SetOf(s) == {s[k] : k \in DOMAIN s}

WrittenIsReference == RunCopy(l, TRUE, {}) = SetOf(RunRef(l))
OnlyMatcherDivergesCopy == RunCopy(l, FALSE, {}) # SetOf(RunRef(l)) => RunCopy(l, TRUE, {}) = SetOf(RunRef(l))
CopyEqualsWalk == RunCopy(l, FALSE, {}) = SetOf(RunAlg(l))
DeferredOnlyOnDemand == LET W == RunCopy(l, FALSE, {}) IN
                        \A d \in W : IsDir(d) => (\E q \in W : Under(q, d)) \/ d \in SetOf(RunAlg(l))
ExistingLeftAlone == \A have \in SUBSET Dirs : RunCopy(l, FALSE, have) \cap have \subseteq RunCopy(l, FALSE, {})

\* ---- case generation for the copy driver (configurations _gen*): the written set of the ALGORITHM model per pattern list
RECURSIVE SetSeq(_)
SetSeq(S) == IF S = {} THEN <<>> ELSE LET x == CHOOSE y \in S : \A z \in S : y = z \/ PLess(y, z) IN <<x>> \o SetSeq(S \ {x})
GenCopyCases ==
  ndJsonSerialize(IOEnv.VERIF_GEN_DIR \o "/copycase_" \o Mode \o "_" \o ListCode(l) \o ".ndjson",
     <<[name |-> Mode \o "_" \o ListCode(l), mode |-> Mode, pats |-> [k \in DOMAIN l |-> PatText(l[k])],
        written |-> PathTexts(SetSeq(RunCopy(l, FALSE, {})))]>>)
=============================================================================
