SPECIFICATION Spec
CONSTANTS MaxMsgs = 3
 Loop = "callerResets"
 StreamResets = FALSE
INVARIANT Faithful
CHECK_DEADLOCK FALSE
