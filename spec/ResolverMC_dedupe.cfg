SPECIFICATION Spec
CONSTANTS
  Scope = "dedupe"
  MemoFinalOnly = FALSE
  DedupeNeighbour = FALSE
  LexicalClean = FALSE
  MaxSteps = 40
CHECK_DEADLOCK FALSE
INVARIANT Terminates
INVARIANT ResultOK
