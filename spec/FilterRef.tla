------------------------------ MODULE FilterRef ------------------------------
(***************************************************************************)
(* PROPERTY LAYER for C10 / C11 / C16: the naive, unpruned reference       *)
(* filter.  Single-pattern glob semantics come from moby/patternmatcher    *)
(* (outside the system under test) as a hit matrix: hit[k][i] = "pattern k *)
(* alone, de-negated, matches entry i or one of its ancestors".            *)
(* Everything fsutil adds is defined here: last matching pattern wins,     *)
(* '!' negates, include /\ ~exclude, ancestors of kept entries, walk       *)
(* order, directory before contents, map keep / exclude / skipdir.         *)
(*   tree : sequence of [p, t] sorted in walk order                        *)
(*   pats : [neg : Seq(BOOLEAN), hit : Seq(Seq(BOOLEAN))]                  *)
(*   mapv : Seq({"keep","exclude","skipdir"})                              *)
(***************************************************************************)
EXTENDS Trees

MaxOf(S) == CHOOSE x \in S : \A y \in S : y <= x
Verdict(pats, i) ==
  LET H == {k \in DOMAIN pats.neg : pats.hit[k][i]} IN
  H # {} /\ ~pats.neg[MaxOf(H)]

\* selected by the patterns alone
SelNaive(inc, exc, i) ==
  /\ (Len(inc.neg) = 0 \/ Verdict(inc, i))
  /\ ~(Len(exc.neg) # 0 /\ Verdict(exc, i))
SelVecNaive(tree, inc, exc) == [i \in DOMAIN tree |-> SelNaive(inc, exc, i)]

\* is entry j inside the region skipped because entry i answered "skipdir"?
\* a directory: its subtree; a non-directory: everything after it below its parent directory
InSkipRegion(tree, i, j) ==
  IF tree[i].t = "dir" THEN Under(tree[j].p, tree[i].p)
  ELSE j > i /\ (Len(tree[i].p) = 1 \/ Under(tree[j].p, Parent(tree[i].p)))

\* fold over the entries in walk order.
\* st = [out : Seq(index), handled : set of indices already reported, skips : set of indices that answered skipdir]
RECURSIVE RefFrom(_, _, _, _, _)
RefFrom(tree, sel, mapv, i, st) ==
  IF i > Len(tree) THEN st.out
  ELSE IF \E s \in st.skips : InSkipRegion(tree, s, i) THEN RefFrom(tree, sel, mapv, i + 1, st)
  ELSE IF ~sel[i] THEN RefFrom(tree, sel, mapv, i + 1, st)
  ELSE IF mapv[i] = "skipdir" THEN RefFrom(tree, sel, mapv, i + 1, [st EXCEPT !.skips = @ \cup {i}])
  ELSE IF mapv[i] = "exclude" THEN RefFrom(tree, sel, mapv, i + 1, st)
  ELSE \* keep: report the not yet reported ancestors top-down (each consulted through the map), then the entry
    LET ancIdx == {a \in 1..(i - 1) : Under(tree[i].p, tree[a].p)}
        pending == {a \in ancIdx : a \notin st.handled}
        \* an ancestor that answers skipdir drops its whole subtree, the entry included
        blocker == {a \in pending : mapv[a] = "skipdir"}
        emit == {a \in pending : mapv[a] = "keep"}
        \* ancestors answering "exclude" are not reported (and stay unreported)
        RECURSIVE Asc(_)
        Asc(S) == IF S = {} THEN <<>>
                  ELSE LET m == CHOOSE x \in S : \A y \in S : x <= y IN <<m>> \o Asc(S \ {m})
    IN IF blocker # {}
       THEN LET b == CHOOSE x \in blocker : \A y \in blocker : x <= y
                before == {a \in emit : a < b}
            IN RefFrom(tree, sel, mapv, i + 1,
                       [out |-> st.out \o Asc(before), handled |-> st.handled \cup before, skips |-> st.skips \cup {b}])
       ELSE RefFrom(tree, sel, mapv, i + 1,
                    [out |-> st.out \o Asc(emit) \o <<i>>, handled |-> st.handled \cup emit \cup {i}, skips |-> st.skips])

\* indices of the entries a filtered walk must report, in order
Reference(tree, sel, mapv) == RefFrom(tree, sel, mapv, 1, [out |-> <<>>, handled |-> {}, skips |-> {}])
RefPaths(tree, sel, mapv) == LET R == Reference(tree, sel, mapv) IN [k \in DOMAIN R |-> tree[R[k]].p]
=============================================================================
