SPECIFICATION Spec
CONSTANTS MaxPatLen = 3
 MaxList = 1
 Mode = "inc"
 StripBoth = FALSE
INVARIANT GenCases
CHECK_DEADLOCK FALSE
