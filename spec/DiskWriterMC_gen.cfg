SPECIFICATION Spec
CONSTANTS
  DeviceBeforeLink = FALSE
  StatFollows = FALSE
INVARIANT GenCases
CHECK_DEADLOCK FALSE
