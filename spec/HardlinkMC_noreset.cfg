SPECIFICATION Spec
CONSTANTS
  N = 4
  ResetOverwrites = FALSE
  NoReset = TRUE
INVARIANTS ValidatorAccepts
CHECK_DEADLOCK FALSE
