--------------------------- MODULE ReceiveLinksMC ---------------------------
(***************************************************************************)
(* ALGORITHM LAYER of receive.go + diskwriter.go for ONE question: which   *)
(* entries may a hard link of the stream name, when the receiver does not  *)
(* create everything the sender announces?                                  *)
(*                                                                         *)
(* The stream is fixed:   d (dir)   d/x (file)   z (hard link to d/x)      *)
(* The space that is enumerated is what surrounds it:                       *)
(*   how     "plain" | "metaOnly" (a MetadataOnly selector: unselected      *)
(*           entries are only listed) | "filter" (ReceiveOpt.Filter:        *)
(*           rejected entries are skipped by DiskWriter)                    *)
(*   keep    the set of entries the selector selects / the filter accepts   *)
(*   merge   nothing stale is deleted                                       *)
(*   prior   what the destination holds at d: nothing | a directory with x  *)
(*           | a symlink to a directory OUTSIDE the destination that has    *)
(*           an entry x                                                      *)
(* One action per entry of the stream and per stage (validate, apply), in   *)
(* the order receive.go runs them for one entry.  The file system is a map  *)
(* path -> inode with a separate flag for "an inode that lives outside was  *)
(* linked into / re-owned / replaced".                                      *)
(*                                                                         *)
(* Constants (which repair is in place):                                    *)
(*   TrackCreated   receive.go keeps a second Hardlinks validator that only *)
(*                  sees entries that are really created (fix 77441fc)      *)
(*   TrackRejected  DiskWriter remembers filter-rejected paths and refuses  *)
(*                  a link that names one (fix 857f1db)                     *)
(*   RefuseBelow    hypothetical: DiskWriter refuses to write below a path  *)
(*                  it skipped (NOT in the tree: the recorded finding)      *)
(* Properties:                                                              *)
(*   Contained            nothing outside is ever touched                   *)
(*   ContainedButKnown    ... except by writing an accepted child below a   *)
(*                        filter-rejected directory (the recorded finding)  *)
(* Configurations: _full (all three: Contained holds), _asBuilt (first two: *)
(* ContainedButKnown holds, Contained is rejected), _pinned (none), _noCreated *)
(* and _noRejected (one repair missing each): all three must be rejected.  *)
(* GenCases writes the enumerated surroundings for the hostile driver       *)
(* (harness/drivers/hostile.go reads them as cases and runs the real        *)
(* Receive on each in the chroot jail), with the model's prediction.        *)
(***************************************************************************)
EXTENDS Integers, Sequences, FiniteSets, TLC, Json, IOUtils
CONSTANTS TrackCreated, TrackRejected, RefuseBelow

Entries == <<"d", "d/x", "z">>
EntrySet == {"d", "d/x", "z"}
Hows == {"plain", "metaOnly", "filter"}
Priors == {"none", "dir", "linkOut"}

VARIABLES how, keep, merge, prior,    \* the case
          i, stage,                   \* position in the stream, "validate" | "apply" | "done" | "failed"
          announced,                  \* hlValidator: every regular entry seen so far
          created,                    \* createdLinks: regular entries that are really created
          skipped,                    \* DiskWriter: paths its filter rejected
          atD,                        \* what the destination holds at d now: "none" | "dir" | "linkOut"
          hasX,                       \* d/x resolves (inside when atD = "dir", to the outside inode when atD = "linkOut")
          touched, viaChild           \* an outside inode was linked / re-owned / replaced; ... by writing a child below a skipped directory
vars == <<how, keep, merge, prior, i, stage, announced, created, skipped, atD, hasX, touched, viaChild>>

Init == /\ how \in Hows /\ merge \in BOOLEAN /\ prior \in Priors
        /\ keep \in (IF how = "plain" THEN {EntrySet} ELSE SUBSET EntrySet)
        /\ i = 1 /\ stage = "validate"
        /\ announced = {} /\ created = {} /\ skipped = {}
        /\ atD = prior /\ hasX = (prior # "none")
        /\ touched = FALSE /\ viaChild = FALSE

Cur == Entries[i]
Kept == Cur \in keep
ListedOnly == how = "metaOnly" /\ ~Kept
Rejected == how = "filter" /\ ~Kept

\* receive.go, per STAT: order validator (always fine for this stream), hlValidator, createdLinks
Validate ==
  /\ stage = "validate"
  /\ IF Cur = "z"
     THEN IF "d/x" \notin announced \/ (TrackCreated /\ ~ListedOnly /\ "d/x" \notin created)
          THEN stage' = "failed" /\ UNCHANGED <<announced, created>>
          ELSE stage' = "apply" /\ UNCHANGED <<announced, created>>
     ELSE /\ stage' = "apply"
          /\ announced' = IF Cur = "d/x" THEN announced \cup {Cur} ELSE announced
          /\ created' = IF Cur = "d/x" /\ ~ListedOnly THEN created \cup {Cur} ELSE created
  /\ UNCHANGED <<how, keep, merge, prior, i, skipped, atD, hasX, touched, viaChild>>

Advance == IF i = Len(Entries) THEN i' = i /\ stage' = "done" ELSE i' = i + 1 /\ stage' = "validate"

\* what the diff + DiskWriter do with the entry
Apply ==
  /\ stage = "apply"
  /\ CASE ListedOnly ->
            \* not forwarded to the diff at all: without merge mode a stale destination entry of that name is deleted as the
            \* walk passes it (d: whatever was there goes, with what was below it)
            /\ IF Cur = "d" /\ ~merge THEN atD' = "none" /\ hasX' = FALSE ELSE UNCHANGED <<atD, hasX>>
            /\ UNCHANGED <<skipped, touched, viaChild>> /\ Advance
       [] Rejected ->
            \* forwarded, DiskWriter.HandleChange returns early: whatever is at the path stays
            /\ skipped' = skipped \cup {Cur}
            /\ UNCHANGED <<atD, hasX, touched, viaChild>> /\ Advance
       [] OTHER ->
            CASE Cur = "d" ->
                   \* a directory: kept when one is there, otherwise what is there is replaced (a symlink is not followed)
                   /\ atD' = "dir" /\ hasX' = (atD = "dir" /\ hasX)
                   /\ UNCHANGED <<skipped, touched, viaChild>> /\ Advance
              [] Cur = "d/x" ->
                   \* metadata-only: the listed-only ancestors a selected entry needs are forwarded just before it (the ancestor
                   \* stack of receive.go), so d is applied now: a directory, replacing whatever else is there
                   LET lazyParent == how = "metaOnly" /\ "d" \notin keep
                       parent == IF lazyParent THEN "dir" ELSE atD
                   IN IF parent = "none" THEN stage' = "failed" /\ UNCHANGED <<i, skipped, atD, hasX, touched, viaChild>>   \* ENOENT: no parent
                      ELSE IF RefuseBelow /\ "d" \in skipped THEN stage' = "failed" /\ UNCHANGED <<i, skipped, atD, hasX, touched, viaChild>>
                      ELSE /\ hasX' = TRUE /\ atD' = parent
                           \* created next to the old one and renamed over it: THROUGH a symlink left at d this replaces the outside entry
                           /\ touched' = (touched \/ parent = "linkOut") /\ viaChild' = (viaChild \/ parent = "linkOut")
                           /\ UNCHANGED skipped /\ Advance
              [] OTHER ->  \* z: os.Link(dest/d/x, dest/z), then owner / mode / times of the shared inode
                   IF TrackRejected /\ "d/x" \in skipped THEN stage' = "failed" /\ UNCHANGED <<i, skipped, atD, hasX, touched, viaChild>>
                   ELSE IF ~hasX THEN stage' = "failed" /\ UNCHANGED <<i, skipped, atD, hasX, touched, viaChild>>   \* ENOENT
                   ELSE /\ touched' = (touched \/ (atD = "linkOut" /\ ~viaChild))   \* (after viaChild the inode at d/x is the receiver's own)
                        /\ UNCHANGED <<skipped, atD, hasX, viaChild>> /\ Advance
  /\ UNCHANGED <<how, keep, merge, prior, announced, created>>

Stutter == stage \in {"done", "failed"} /\ UNCHANGED vars
Next == Validate \/ Apply \/ Stutter
Spec == Init /\ [][Next]_vars

Contained == ~touched
ContainedButKnown == touched => viaChild
\* the recorded finding needs a filter that rejects the directory and accepts the child, over a symlink
KnownShape == viaChild => how = "filter" /\ "d" \notin keep /\ "d/x" \in keep /\ prior = "linkOut"

\* ---- case generation for the hostile driver ------------------------------------------------------
\* one file per case (the run is deterministic from its initial state, so every final state is written exactly once)
SetToSeq(S) == LET RECURSIVE F(_) F(T) == IF T = {} THEN <<>> ELSE LET x == CHOOSE y \in T : TRUE IN <<x>> \o F(T \ {x}) IN F(S)
Bit(e) == IF e \in keep THEN "1" ELSE "0"
CaseName == how \o "_" \o prior \o "_" \o (IF merge THEN "merge" ELSE "plain") \o "_" \o Bit("d") \o Bit("d/x") \o Bit("z")
GenCases ==
  (stage \in {"done", "failed"}) =>
     ndJsonSerialize(IOEnv.VERIF_GEN_DIR \o "/linkcase_" \o CaseName \o ".ndjson",
        <<[name |-> CaseName, how |-> how, keep |-> SetToSeq(keep), merge |-> merge, prior |-> prior,
           modelFails |-> (stage = "failed"), modelTouched |-> touched, modelViaChild |-> viaChild]>>)
=============================================================================
