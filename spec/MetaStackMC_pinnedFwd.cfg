SPECIFICATION Spec
CONSTANTS IdBeforeSkip = TRUE
 FwdDirOnce = FALSE
INVARIANTS ForwardedIsProjection IdsAreStatPositions
CHECK_DEADLOCK FALSE
