------------------------------- MODULE DWTrace -------------------------------
(***************************************************************************)
(* TRACE SPEC binding spec/DiskWriterMC.tla to diskwriter.go in the        *)
(* direction model -> code: TLC enumerates every (destination entry,       *)
(* incoming stat) pair of the model together with what the model's run of  *)
(* HandleChange ends in (configuration DiskWriterMC_gen); the driver       *)
(* dwcases performs the same call on the real DiskWriter and records what  *)
(* it finds; one DWCase line per pair is judged here.                       *)
(*   DWCase{old, new, model:{fails, kindAtD, sameAsX, sameAsY, childLeft,   *)
(*          keptDirInode, leftover}, obs:{the same fields, content,         *)
(*          outsideTouched}}                                                 *)
(* Property clauses (the invariants of DiskWriterMC, evaluated on what the  *)
(* real call left behind) carry the prefix of the property they belong to;  *)
(* MODEL.* is the conformance clause proper: the real call ends exactly     *)
(* where the model's run ends.                                               *)
(***************************************************************************)
EXTENDS Integers, Sequences, FiniteSets, Json, IOUtils, TLC

Trace == ndJsonDeserialize(IOEnv.VERIF_TRACE)
VARIABLES l, failed
vars == <<l, failed>>
Cl(cond, name) == IF cond THEN {name} ELSE {}
Full(fl, bad) == Len(fl) >= 6000 \/ Cardinality({i \in DOMAIN fl : fl[i].clauses = bad}) >= 400

WantKind(new) == CASE new \in {"file", "hlFile"} -> "file" [] new = "dir" -> "dir" [] new = "symlink" -> "symlink"
                   [] new \in {"fifo", "hlFifo"} -> "fifo" [] OTHER -> "dev"
Judge(e) ==
  IF e.ev # "DWCase" THEN {"HARNESS.unknownEvent"}
  ELSE LET o == e.obs  m == e.model IN
       \* the invariants of DiskWriterMC on the real outcome
       Cl(o.fails, "C01.diskWriterCallFailed")
       \cup Cl(~o.fails /\ o.kindAtD # WantKind(e.new), "C01.diskWriterEntryNotArrived")
       \cup Cl(~o.fails /\ e.new = "file" /\ o.content # "new", "C01.diskWriterEntryNotArrived")
       \cup Cl(~o.fails /\ ((e.new = "hlFile" /\ ~o.sameAsX) \/ (e.new = "hlFifo" /\ ~o.sameAsY)), "C01.hardLinkGroupNotFormed")
       \cup Cl(~o.fails /\ e.new # "dir" /\ o.childLeft, "C01.childrenOfReplacedDirectoryLeft")
       \cup Cl(~o.fails /\ e.old = "dir1" /\ e.new = "dir" /\ ~(o.childLeft /\ o.keptDirInode), "C01.mergedDirectoryNotKept")
       \cup Cl(o.leftover, "C01.temporaryNameLeft")
       \cup Cl(o.outsideTouched, "C03.outsideTouched")
       \* conformance: the real call ends where the model's run ends
       \cup Cl(o.fails # m.fails \/ (~o.fails /\ (o.kindAtD # m.kindAtD \/ o.sameAsX # m.sameAsX \/ o.sameAsY # m.sameAsY
                                                 \/ o.childLeft # m.childLeft \/ o.keptDirInode # m.keptDirInode \/ o.leftover # m.leftover)),
               "MODEL.diskWriterOutcomeDiffers")

Init == l = 1 /\ failed = <<>>
Step == /\ l <= Len(Trace)
        /\ LET e == Trace[l]
               bad == Judge(e)
           IN failed' = IF bad = {} \/ Full(failed, bad) THEN failed
                        ELSE Append(failed, [case |-> e.case, line |-> l, clauses |-> bad])
        /\ l' = l + 1
Spec == Init /\ [][Step]_vars
Emit == (l = Len(Trace) + 1) =>
          ndJsonSerialize(IOEnv.VERIF_OUT, <<[consumed |-> l - 1, failed |-> failed, drift |-> <<>>]>>)
=============================================================================
