SPECIFICATION Spec
CONSTANTS
  Scope = "thorough"
  MemoFinalOnly = FALSE
  DedupeNeighbour = FALSE
  LexicalClean = FALSE
  MaxSteps = 60
CHECK_DEADLOCK FALSE
INVARIANT Terminates
INVARIANT ResultOK
