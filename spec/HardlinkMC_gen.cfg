SPECIFICATION Spec
CONSTANTS
  N = 5
  ResetOverwrites = FALSE
  NoReset = FALSE
INVARIANT GenCases
CHECK_DEADLOCK FALSE
