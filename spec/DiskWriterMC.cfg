SPECIFICATION Spec
CONSTANTS
  DeviceBeforeLink = FALSE
  StatFollows = FALSE
INVARIANTS Arrived NeverFails Grouped ChildrenGone MergedDirKept NothingOutside NoLeftover
CHECK_DEADLOCK FALSE
