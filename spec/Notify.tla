------------------------------- MODULE Notify -------------------------------
(***************************************************************************)
(* PROPERTY LAYER for C05: the change callback mirrors exactly what        *)
(* changed.  notes: sequence of [kind, p, sh, hdr, bytes, dgOK]            *)
(*   sh    = hash of the stat handed to the callback                        *)
(*   hdr   = hash of the stat the content hasher was created for            *)
(*   bytes = content id of the bytes fed to that hasher                     *)
(* view entries carry sh = hash of the stat as sent on the wire.            *)
(***************************************************************************)
EXTENDS SyncOutcome

EmptyContent == "e3b0c44298fc1c14:0"

NonDelete(notes) == {k \in DOMAIN notes : notes[k].kind # "delete"}
Deletes(notes) == {k \in DOMAIN notes : notes[k].kind = "delete"}

\* N1: applying the events to a model of the old destination (path -> type)
\* yields the shape of the new destination
ModelOf(t) == [p \in PathsOf(t) |-> At(t, p).t]
DropSub(M, p) == [q \in {x \in DOMAIN M : x # p /\ ~Under(x, p)} |-> M[q]]
TypeBySh(view, sh) == LET S == {i \in DOMAIN view : view[i].sh = sh} IN
                      IF S = {} THEN "unknown" ELSE view[CHOOSE i \in S : TRUE].t
ApplyNote(M, n, view) ==
  IF n.kind = "delete" THEN DropSub(M, n.p)
  ELSE LET ty == TypeBySh(view, n.sh) IN
       IF n.p \in DOMAIN M /\ M[n.p] = "dir" /\ ty = "dir" THEN M
       ELSE [q \in (DOMAIN DropSub(M, n.p)) \cup {n.p} |-> IF q = n.p THEN ty ELSE M[q]]
RECURSIVE ApplyAll(_, _, _, _)
ApplyAll(M, notes, k, view) == IF k > Len(notes) THEN M ELSE ApplyAll(ApplyNote(M, notes[k], view), notes, k + 1, view)

TopMost(S) == {p \in S : ~\E q \in S : Under(p, q)}
Due(view, before) == {d \in TopMost(Deleted(view, before)) : ~\E q \in Replaced(view, before) : Under(d, q)}

NotifyClauses(notes, view, before, after, reqs, differ, merge) ==
  LET ch == Changed(view, before)
      ex == Exception(view, before)
      allv == PathsOf(view)
      \* paths that must be reported / may be reported
      \* identity-changed paths must be reported in every mode; without differencing
      \* (differ none / merge) re-transferred unchanged paths may be reported too
      must == ch \ ex
      may == IF differ = "none" \/ merge THEN allv ELSE ch \cup (ex \cap allv)
      nd == NonDelete(notes)
      dl == Deletes(notes)
  IN
  (IF ApplyAll(ModelOf(before), notes, 1, view) = ModelOf(after) THEN {} ELSE {"applyEventsYieldsNewDest"})
  \cup (IF \A p \in must : \E k \in nd : notes[k].p = p THEN {} ELSE {"changedPathNotReported"})
  \cup (IF \A k1, k2 \in nd : notes[k1].p = notes[k2].p => k1 = k2 THEN {} ELSE {"reportedTwice"})
  \cup (IF \A k \in nd : notes[k].p \in may THEN {} ELSE {"unchangedPathReported"})
  \cup (IF \A k \in nd : Has(view, notes[k].p) /\ notes[k].sh = At(view, notes[k].p).sh THEN {} ELSE {"metadataNotAsSent"})
  \cup (IF merge THEN (IF dl = {} THEN {} ELSE {"deleteInMergeMode"})
        ELSE (IF \A d \in Due(view, before) : \E k \in dl : notes[k].p = d THEN {} ELSE {"topmostDeleteNotReported"})
             \* a delete is reported for a path that goes away: one the new view no longer holds (removed, or below a directory
             \* that was removed or replaced) - never for a path that is merely REPLACED by an entry of another type (the merge
             \* loop emits one modify for that; the DiffMergeMC binding shows the real code agrees on all 28561 pairs)
             \cup (IF \A k \in dl : notes[k].p \in Deleted(view, before) \/ (notes[k].p \in Gone(view, before) /\ ~Has(view, notes[k].p))
                   THEN {} ELSE {"deleteOfKeptPath"})
             \cup (IF \A k1, k2 \in dl : notes[k1].p = notes[k2].p => k1 = k2 THEN {} ELSE {"deleteReportedTwice"}))
  \cup (IF \A k \in nd : notes[k].dgOK /\ notes[k].hdr = notes[k].sh
                         \* header only for entries whose content is not transferred: directories, links (also when a
                         \* confused receiver requested one), special files
                         /\ notes[k].bytes = (IF notes[k].p \in reqs /\ Has(after, notes[k].p)
                                                 /\ Has(view, notes[k].p) /\ At(view, notes[k].p).t = "file" /\ At(view, notes[k].p).hl = <<>>
                                              THEN At(after, notes[k].p).c ELSE EmptyContent)
        THEN {} ELSE {"digest"})
  \cup (IF \A k \in nd : \A j \in nd : Under(notes[k].p, notes[j].p) => j < k THEN {} ELSE {"childBeforeParent"})
  \cup (IF \A k \in dl : \A j \in nd : (notes[j].p = notes[k].p \/ Under(notes[j].p, notes[k].p)) => k < j THEN {} ELSE {"addBeforeDelete"})

\* diagnostic detail for failure records (not part of any verdict)
NotifyDetail(notes, view, before, differ, merge) ==
  LET ch == Changed(view, before)
      nd == NonDelete(notes)
      reported == {notes[k].p : k \in nd}
  IN [changedNotReported |-> (IF differ = "none" \/ merge THEN {} ELSE (ch \ Exception(view, before)) \ reported),
      reportedNotChanged |-> (IF differ = "none" \/ merge THEN {} ELSE reported \ (ch \cup Exception(view, before))),
      dueDeletes |-> Due(view, before),
      deleted |-> {notes[k].p : k \in Deletes(notes)}]
=============================================================================
