SPECIFICATION Spec
CONSTANTS Alphabet = {45, 48, 92, 97}
 MaxNameLen = 2
 MaxDepth = 2
 Triples = TRUE
INVARIANTS Agree Irreflexive Total Asymmetric Transitive Contiguous
CHECK_DEADLOCK FALSE
