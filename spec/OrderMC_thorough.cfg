SPECIFICATION Spec
CONSTANTS Alphabet = {33, 45, 48, 97}
 MaxNameLen = 2
 MaxDepth = 2
 Triples = TRUE
INVARIANTS Agree Irreflexive Total Asymmetric Transitive Contiguous
CHECK_DEADLOCK FALSE
