SPECIFICATION Spec
CONSTANTS
  N = 6
  ResetOverwrites = FALSE
  NoReset = FALSE
INVARIANTS ResetRule ValidatorAccepts
CHECK_DEADLOCK FALSE
