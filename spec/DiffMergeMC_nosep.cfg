SPECIFICATION Spec
CONSTANTS
  SepInRmdir = FALSE
  RmdirOnlyForFile = FALSE
INVARIANTS N1 N2 N4 N6
CHECK_DEADLOCK FALSE
