SPECIFICATION Spec
CONSTANT SepInRmdir = FALSE
INVARIANTS N1 N2 N4 N6
CHECK_DEADLOCK FALSE
