------------------------------- MODULE TarRef -------------------------------
(***************************************************************************)
(* PROPERTY LAYER for C17: the archive written for a view.                 *)
(* view   : the stats the view's walk reports (walk order) + content ids   *)
(* members: what archive/tar reads back, one record per member, plus the   *)
(*          raw size field found by a strict block walk                    *)
(***************************************************************************)
EXTENDS Trees

FlagOf(v) == CASE v.t = "dir" -> "5"
               [] v.t = "symlink" -> "2"
               [] v.t = "fifo" -> "6"
               [] v.t = "chr" -> "3"
               [] v.t = "blk" -> "4"
               [] v.t = "file" /\ v.hl # <<>> -> "1"
               [] OTHER -> "0"

\* mtime "to the second": the archive may hold the floor or the nearest second
SecOK(msec, vsec) == msec = vsec \/ msec = vsec + 1

\* a device node or fifo that the view reports as a later member of an inode group may be written as a link member
\* (the statement names "hard links as link members" without restricting the type) or as a node of its own
LinkedSpecial(v) == v.t \in {"fifo", "chr", "blk"} /\ v.hl # <<>>
MemberMatches(m, v) ==
  /\ m.name = (IF v.t = "dir" THEN v.raw \o <<47>> ELSE v.raw)
  /\ (m.flag = FlagOf(v) \/ (LinkedSpecial(v) /\ m.flag = "1" /\ m.ln = v.hl))
  /\ m.perm = v.perm /\ m.uid = v.uid /\ m.gid = v.gid
  /\ SecOK(m.mtsec, v.mtsec)
  /\ m.x = v.x
  /\ (v.t = "symlink" => m.ln = v.lnb)
  /\ (v.t = "file" /\ v.hl # <<>> => m.ln = v.hl)
  /\ (v.t \in {"chr", "blk"} /\ m.flag # "1" => m.dev = v.dev)
  \* regular files carry exactly their bytes, everything else (links included) has no payload
  /\ (IF v.t = "file" /\ v.hl = <<>> THEN m.size = v.size /\ m.rawSize = v.size /\ m.c = v.c
      ELSE m.size = "0" /\ m.rawSize = "0")

TarClauses(e) ==
  (IF e.writeErr THEN {"writeTarFailed"} ELSE {})
  \* a write error of the destination (at any offset, the end-of-archive blocks included) is reported, not swallowed
  \cup (IF "writeErrorsSwallowedAt" \in DOMAIN e /\ e.writeErrorsSwallowedAt # <<>> THEN {"writeErrorSwallowed"} ELSE {})
  \cup (IF e.eofClean /\ e.rawWalkOK THEN {} ELSE {"archiveNotWellFormed"})
  \cup (IF Len(e.members) = Len(e.view) THEN {} ELSE {"oneMemberPerEntry"})
  \cup (IF Len(e.members) = Len(e.view) /\ \A i \in DOMAIN e.view : MemberMatches(e.members[i], e.view[i])
        THEN {} ELSE {"memberMatchesEntry"})
  \* the strict walk sees the same member names in the same order as the tolerant reader
  \cup (IF e.rawNames = [i \in DOMAIN e.members |-> e.members[i].name] THEN {} ELSE {"strictBlockWalkDisagrees"})

\* extraction reproduces the view
ExtractClauses(e) ==
  LET x == e.extracted v == e.view IN
  IF ~e.extractedOK THEN {"extractionFailed"}
  ELSE IF Len(x) # Len(v) \/ \E i \in DOMAIN v : x[i].p # Split(v[i].raw) THEN {"extractedPathSet"}
  ELSE (IF \A i \in DOMAIN v :
             /\ x[i].t = v[i].t /\ x[i].uid = v[i].uid /\ x[i].gid = v[i].gid
             /\ (v[i].t # "symlink" => x[i].perm = v[i].perm)
             /\ (v[i].t = "symlink" => x[i].ln = v[i].ln)
             /\ (v[i].t = "file" => x[i].c = v[i].c)
             /\ (v[i].t \in {"chr", "blk"} => x[i].dev = v[i].dev)
             /\ (v[i].t # "dir" => SecOK(x[i].mtsec, v[i].mtsec))
             /\ (v[i].t \in {"file", "dir"} => x[i].x = v[i].x)
        THEN {} ELSE {"extractedEntryAttributes"})
       \cup (IF \A i, j \in DOMAIN v :
                  (v[i].t = "file" /\ v[j].t = "file" /\ i < j)
                    => (((IF v[i].hl # <<>> THEN v[i].hl ELSE v[i].raw) = (IF v[j].hl # <<>> THEN v[j].hl ELSE v[j].raw))
                        <=> (x[i].ino = x[j].ino))
             THEN {} ELSE {"extractedHardlinkGroups"})
=============================================================================
