SPECIFICATION Spec
CONSTANT MaxTokens = 4
