SPECIFICATION Spec
CONSTANTS TrackCreated = TRUE
 TrackRejected = FALSE
 RefuseBelow = FALSE
INVARIANT ContainedButKnown
CHECK_DEADLOCK FALSE
