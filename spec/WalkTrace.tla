------------------------------ MODULE WalkTrace ------------------------------
(***************************************************************************)
(* Trace validation for C09 (Walk) and C10 (filtered walk).  One event per *)
(* case, recorded from the real fsutil.Walk / WalkDir / FS.Walk / SubDirFS *)
(* / NewFilterFS over a materialised tree.                                  *)
(*  Walk{case, api, tree, calls}                                            *)
(*  Filter{case, tree:[p,t], inc, exc, incr:[BOOLEAN] (selection computed  *)
(*         with the library's incremental matcher over the FULL tree),      *)
(*         mapv, rewriteUid, calls:[raw, uid]}                              *)
(***************************************************************************)
EXTENDS WalkRef, FilterRef, FollowRef, TarRef, Json, IOUtils, TLC

Trace == ndJsonDeserialize(IOEnv.VERIF_TRACE)
VARIABLES l, failed
vars == <<l, failed>>
\* the verdict list is bounded, but per clause set: a flood of one kind of failure (a recorded finding, say) never crowds
\* out a failure of another kind
Full(fl, bad) == Len(fl) >= 6000 \/ Cardinality({i \in DOMAIN fl : fl[i].clauses = bad}) >= 400

Pfx(prop, S) == {prop \o "." \o c : c \in S}

FilterClauses(e) ==
  LET tree == e.tree
      calls == [k \in DOMAIN e.calls |-> IF CleanInside(e.calls[k].raw) THEN Split(e.calls[k].raw) ELSE <<e.calls[k].raw>>]
      naive == RefPaths(tree, SelVecNaive(tree, e.inc, e.exc), e.mapv)
      incr == RefPaths(tree, e.incr, e.mapv)
  IN (IF ~SortedTree(tree) THEN {"HARNESS.treeNotSorted"} ELSE {})
     \cup (IF calls = naive THEN {}
           ELSE IF calls = incr THEN {"C10.walkDiffersFromNaiveReference/explainedByIncrementalMatcher"}
           ELSE {"C10.walkDiffersFromNaiveReference"})
     \cup (IF e.rewriteUid # 0 /\ \E k \in DOMAIN e.calls : e.calls[k].uid # e.rewriteUid
           THEN {"C10.mapNotConsultedBeforeReport"} ELSE {})
     \cup (IF e.walkErr THEN {"C10.walkReturnedError"} ELSE {})
     \* conformance of the algorithm-layer model FilterWalkMC (pattern lists enumerated by TLC on the model's own tree): the real
     \* walk reports exactly what the ALGORITHM model reports - also where both depart from the reference (the recorded
     \* matcher finding).  Not a verdict of a property: a disagreement without a violation makes the run inconclusive
     \cup (IF "model" \in DOMAIN e /\ calls # [k \in DOMAIN e.model.alg |-> e.model.alg[k]] THEN {"MODEL.filterWalkOutputDiffers"} ELSE {})

FollowJudge0(e) ==
  LET T == [p \in PathsOf(e.tree) |-> At(e.tree, p)]
      lit == SelectSeq(e.reqs, LAMBDA q : ~q.wild)
      reqs == [k \in DOMAIN lit |-> lit[k].p]
      onlyLit == Len(lit) = Len(e.reqs)
  IN IF e.hang THEN {"C18.doesNotTerminate"}
     \* an I/O error (not "does not exist") while a component is looked up: the call must not report success with a
     \* set that silently lacks what lies behind that component
     ELSE IF "lookupFault" \in DOMAIN e /\ e.lookupFault THEN (IF e.err THEN {} ELSE {"C18.lookupErrorSwallowed"})
     ELSE IF e.err THEN {"C18.returnedError"}
     ELSE Pfx("C18", IF onlyLit THEN FollowClauses(T, reqs, e.result, e.isNil, e.byteSorted)
                     ELSE \* with wildcard requests only the structural clauses are judged on the literal elements
                          (IF e.byteSorted THEN {} ELSE {"notSorted"})
                          \cup (IF \A a, b \in DOMAIN e.result : a # b /\ ~e.resWild[a] /\ ~e.resWild[b] => ~IsPrefix(e.result[a], e.result[b])
                                THEN {} ELSE {"elementInsideAnother"}))
          \cup (IF e.synced /\ onlyLit /\ ~SameResolution(T, [p \in PathsOf(e.dst) |-> At(e.dst, p)], reqs)
                THEN {"C18.requestResolvesDifferentlyAfterTransfer"} ELSE {})
          \* wildcard requests stand for their matches: every expansion (computed by the harness with the standard glob
          \* against the directory its literal prefix resolves to) resolves in the transferred tree as in the source
          \cup (IF e.synced THEN Pfx("C18", ExpansionClauses(T, [p \in PathsOf(e.dst) |-> At(e.dst, p)], e.exps, reqs)) ELSE {})
          \cup (IF e.syncFailed THEN {"C18.transferWithFollowPathsFailed"} ELSE {})

\* conformance of the algorithm-layer model ResolverMC (cases enumerated by TLC): the real FollowLinks returns exactly the list the
\* ALGORITHM model's run ends in - also where both depart from the property layer (the recorded memoisation finding).  Not a
\* verdict of a property: a disagreement without a violation makes the run inconclusive
FollowJudge(e) ==
  FollowJudge0(e)
  \cup (IF "model" \in DOMAIN e /\ ~e.hang /\ ~e.err
            /\ (e.isNil # e.model.isNil \/ [k \in DOMAIN e.result |-> e.result[k]] # [k \in DOMAIN e.model.result |-> e.model.result[k]])
        THEN {"MODEL.resolverResultDiffers"} ELSE {})

\* hard-link names along NewFS -> NewFilterFS -> WithHardlinkReset (cases enumerated by TLC from HardlinkMC): the property
\* layer's rule on the real stream - among the reported members of an inode the first is sent plain and every later one names
\* it, so the receiver's validator accepts the stream - and conformance with the stream the ALGORITHM model ends in
HLJudge(e) ==
  LET n == Len(e.grp)
      Rep(g) == {f \in 1..n : e.grp[f] = g /\ e.st[f] = "reported"}
      First(g) == CHOOSE f \in Rep(g) : \A k \in Rep(g) : f <= k
      r == e.real
  IN (IF e.walkErr THEN {"C11.filteredWalkFailed"} ELSE {})
     \cup (IF ~e.walkErr /\ ([k \in DOMAIN r |-> r[k].p] # SelectSeq([k \in 1..n |-> k], LAMBDA f : e.st[f] = "reported")
                             \/ \E k \in DOMAIN r : r[k].l # (IF r[k].p = First(e.grp[r[k].p]) THEN 0 ELSE First(e.grp[r[k].p])))
           THEN {"C11.hardlinkNamesBreakResetRule"} ELSE {})
     \cup (IF ~e.walkErr /\ [k \in DOMAIN r |-> <<r[k].p, r[k].l>>] # [k \in DOMAIN e.model |-> <<e.model[k].p, e.model[k].l>>]
           THEN {"MODEL.hardlinkNamesDiffer"} ELSE {})

Judge(e) ==
  IF e.ev = "HLCase" THEN HLJudge(e)
  ELSE IF e.ev = "Tar" THEN Pfx("C17", TarClauses(e) \cup (IF e.writeErr THEN {} ELSE ExtractClauses(e)))
  ELSE IF e.ev = "Follow" THEN FollowJudge(e)
  ELSE IF e.ev = "Walk" THEN Pfx("C09", WalkClauses(e.calls, e.tree, e.api = "FSsub")) \cup (IF e.walkErr THEN {"C09.walkReturnedError"} ELSE {})
  ELSE IF e.ev = "Filter" THEN FilterClauses(e)
  ELSE {"HARNESS.unknownEvent"}

Init == l = 1 /\ failed = <<>>
Step == /\ l <= Len(Trace)
        /\ LET e == Trace[l]
               bad == Judge(e)
           IN failed' = IF bad = {} \/ Full(failed, bad) THEN failed
                        ELSE Append(failed, [case |-> e.case, line |-> l, clauses |-> bad])
        /\ l' = l + 1
Spec == Init /\ [][Step]_vars
Emit == (l = Len(Trace) + 1) =>
          ndJsonSerialize(IOEnv.VERIF_OUT, <<[consumed |-> l - 1, failed |-> failed, drift |-> <<>>]>>)
=============================================================================
