SPECIFICATION Spec
CONSTANTS
  SepInRmdir = TRUE
  RmdirOnlyForFile = FALSE
INVARIANT GenCases
CHECK_DEADLOCK FALSE
