------------------------------ MODULE SyncTrace ------------------------------
(***************************************************************************)
(* Trace validation for the transfer protocol (C01 C02 C04 C05 C06 C07 C08 *)
(* C11 and the stream part of C03 / C19).  One case = Begin ... End.        *)
(*                                                                         *)
(* The monitor models the two FIFO pipes of the stream (Pkt = a send that  *)
(* succeeded, Dlv = a RecvMsg that returned) and runs                       *)
(*   - the SENDER ROLE automaton on what the S endpoint emits, given what   *)
(*     has been delivered to it (documented protocol, send.go/receive.go    *)
(*     header)                                                             *)
(*   - the RECEIVER ROLE automaton on what the R endpoint emits             *)
(*   - the OUTCOME predicates of SyncOutcome / Notify at End.               *)
(* Only sides marked real in Begin are judged (puppets may misbehave on    *)
(* purpose).  The spec is total: every event is consumed; violated clauses *)
(* are collected as "<property>.<clause>".                                  *)
(***************************************************************************)
EXTENDS Notify, ValidStream, Json, IOUtils, TLC

Trace == ndJsonDeserialize(IOEnv.VERIF_TRACE)

VARIABLES l, failed, cs
vars == <<l, failed, cs>>

NoCase == [active |-> FALSE]

NewCase(e) ==
  \* NOTE: the state holds only small values; trees, the STAT log and the notification log
  \* are read back from the (constant) trace at End -- TLC fingerprints the whole state at
  \* every step, so a 300-entry tree in the state makes a 2000-event case quadratic.
  [active |-> TRUE, beginL |-> l, mode |-> e.mode, differ |-> e.differ, realS |-> e.realS, realR |-> e.realR,
   metaOnly |-> e.metaOnly, hostile |-> "hostile" \in DOMAIN e,
   srcExact |-> "srcExact" \in DOMAIN e /\ e.srcExact,
   nStats |-> 0, lastP |-> <<>>, fileIds |-> {}, plainIds |-> {}, uncleanStat |-> FALSE, ended |-> FALSE,
   s2r |-> <<>>, r2s |-> <<>>,
   sReqLog |-> <<>>, sFinished |-> {}, sFinSeen |-> FALSE, sFinEchoed |-> FALSE,
   rStats |-> 0, rEnd |-> FALSE, rReq |-> {}, rTerm |-> {}, rFinSent |-> FALSE, rEof |-> FALSE,
   rMustFail |-> FALSE, rEchoSeen |-> FALSE, sErrSeen |-> FALSE, sEofSeen |-> FALSE,
   pS |-> [v |-> 0, final |-> FALSE], 
   retS |-> "none", retR |-> "none",
   faults |-> 0, tornS |-> FALSE, tornR |-> FALSE]

Pfx(prop, S) == {prop \o "." \o c : c \in S}
Cl(cond, name) == IF cond THEN {name} ELSE {}
\* the verdict list is bounded, but per clause set: a flood of one kind of failure (a recorded finding, say) never crowds
\* out a failure of another kind
Full(fl, bad) == Len(fl) >= 6000 \/ Cardinality({i \in DOMAIN fl : fl[i].clauses = bad}) >= 400

HLPath(raw) == IF raw = <<>> THEN <<>> ELSE Split(raw)

\* ---- sender emits ----------------------------------------------------------
StatEntry(e) ==
  LET raw == e.stat.raw
      clean == CleanInside(raw)
  IN [p |-> IF clean THEN Split(raw) ELSE <<raw>>, t |-> e.stat.t, perm |-> e.stat.perm, uid |-> e.stat.uid, gid |-> e.stat.gid,
      size |-> e.stat.size, mt |-> e.stat.mt, ln |-> e.stat.ln, dev |-> e.stat.dev, x |-> e.stat.x,
      hl |-> HLPath(e.stat.hl), sh |-> e.sh, c |-> "", raw |-> raw]

SStat(c, e) ==
  LET raw == e.stat.raw
      clean == CleanInside(raw)
      p == IF clean THEN Split(raw) ELSE <<raw>>
      bad == Cl(c.ended, "C06.statAfterEndMarker")
             \cup Cl(clean /\ c.lastP # <<>> /\ ~LessComponentwise(c.lastP, p), "C06.statNotAscending")
  IN <<[c EXCEPT !.nStats = @ + 1, !.lastP = p, !.uncleanStat = @ \/ ~clean,
               !.fileIds = IF e.stat.t = "file" THEN @ \cup {c.nStats} ELSE @,
               !.plainIds = IF e.stat.t = "file" /\ e.stat.hl = <<>> THEN @ \cup {c.nStats} ELSE @,
               !.s2r = Append(@, [type |-> "STAT", end |-> FALSE])],
       IF c.realS THEN bad ELSE {}>>

SEnd(c, e) ==
  <<[c EXCEPT !.ended = TRUE, !.s2r = Append(@, [type |-> "STAT", end |-> TRUE])],
    IF c.realS THEN Cl(c.ended, "C06.endMarkerTwice") ELSE {}>>

\* requests delivered to the sender that must make the call fail
BadReqs(c) == \E i \in DOMAIN c.sReqLog :
                \/ c.sReqLog[i] >= c.nStats
                \/ c.sReqLog[i] \notin c.fileIds
                \/ \E j \in 1..(i - 1) : c.sReqLog[j] = c.sReqLog[i]

SReqIds(c) == {c.sReqLog[i] : i \in DOMAIN c.sReqLog}

SData(c, e) ==
  LET bad == Cl(e.id \notin SReqIds(c), "C06.dataForUnrequestedId")
             \cup Cl(e.id \in c.sFinished, "C06.dataAfterTerminator")
             \cup Cl(e.len > 0 /\ ~e.sliceOK, "C06.dataBytesNotFileSlice")
             \cup Cl(e.len = 0 /\ ~e.atEnd, "C06.terminatorBeforeAllBytes")
  IN <<[c EXCEPT !.sFinished = IF e.len = 0 THEN @ \cup {e.id} ELSE @,
               !.s2r = Append(@, [type |-> "DATA", id |-> e.id, len |-> e.len])],
       IF c.realS THEN bad ELSE {}>>

SFin(c, e) ==
  <<[c EXCEPT !.sFinEchoed = TRUE, !.s2r = Append(@, [type |-> "FIN"])],
    IF c.realS THEN Cl(~c.sFinSeen, "C06.finNotAnEcho") \cup Cl(c.sFinEchoed, "C06.finTwice") ELSE {}>>

SOther(c, e) == <<[c EXCEPT !.s2r = Append(@, [type |-> e.type])],
                  IF ~c.realS THEN {}
                  ELSE Cl(e.type = "REQ", "C06.senderSentRequest")
                       \* the sender reports an error of its own although nothing went wrong around it
                       \cup Cl(e.type = "ERR" /\ c.faults = 0 /\ ~BadReqs(c) /\ ~c.sErrSeen /\ ~c.sEofSeen /\ ~c.tornR /\ c.retR = "none",
                               "C06.failedWithoutCause")>>

\* ---- receiver emits --------------------------------------------------------
RReq(c, e) ==
  LET known == e.id < c.rStats
      bad == Cl(~known, "C07.requestForUnannouncedId")
             \cup Cl(e.id \in c.rReq, "C07.requestedTwice")
             \cup Cl(known /\ e.id \notin c.plainIds, "C07.requestForNonFileOrLink")
             \cup Cl(c.rFinSent, "C07.requestAfterFin")
  IN <<[c EXCEPT !.rReq = @ \cup {e.id}, !.r2s = Append(@, [type |-> "REQ", id |-> e.id])],
       IF c.realR THEN bad ELSE {}>>

RFin(c, e) ==
  LET bad == Cl(~c.rEnd, "C07.finBeforeEndMarker")
             \cup Cl(~(c.rReq \subseteq c.rTerm), "C07.finBeforeAllTerminators")
             \cup Cl(c.rFinSent, "C07.finTwice")
  IN <<[c EXCEPT !.rFinSent = TRUE, !.r2s = Append(@, [type |-> "FIN"])],
       IF c.realR THEN bad ELSE {}>>

ROther(c, e) == <<[c EXCEPT !.r2s = Append(@, [type |-> e.type])],
                  IF ~c.realR THEN {}
                  ELSE Cl(e.type \in {"STAT", "DATA"}, "C07.receiverSentStatOrData")
                       \* the receiver reports an error of its own although the stream so far was valid and nothing failed
                       \cup Cl(e.type = "ERR" /\ c.faults = 0 /\ ~c.rMustFail /\ ~c.rEof /\ ~c.tornS /\ c.retS = "none" /\ ~c.uncleanStat
                               /\ ~c.hostile, "C07.failedWithoutCause")>>

\* ---- deliveries --------------------------------------------------------------
DlvR(c, e) ==
  IF e.eof THEN <<[c EXCEPT !.rEof = TRUE, !.rMustFail = @ \/ ~c.rFinSent], {}>>
  ELSE IF c.s2r = <<>> THEN <<c, {"HARNESS.deliveryFromEmptyPipe"}>>
  ELSE LET m == Head(c.s2r)
           c1 == [c EXCEPT !.s2r = Tail(@)]
       IN CASE m.type = "STAT" /\ ~m.end -> <<[c1 EXCEPT !.rStats = @ + 1], {}>>
            [] m.type = "STAT" /\ m.end -> <<[c1 EXCEPT !.rEnd = TRUE], {}>>
            [] m.type = "DATA" -> <<[c1 EXCEPT !.rTerm = IF m.len = 0 THEN @ \cup {m.id} ELSE @,
                                                !.rMustFail = @ \/ (m.id \notin c.rReq) \/ (m.id \in c.rTerm)], {}>>
            [] m.type = "FIN" -> <<[c1 EXCEPT !.rEchoSeen = TRUE], {}>>
            [] OTHER -> <<[c1 EXCEPT !.rMustFail = @ \/ (m.type = "ERR")], {}>>

DlvS(c, e) ==
  IF e.eof THEN <<[c EXCEPT !.sEofSeen = TRUE], {}>>
  ELSE IF c.r2s = <<>> THEN <<c, {"HARNESS.deliveryFromEmptyPipe"}>>
  ELSE LET m == Head(c.r2s)
           c1 == [c EXCEPT !.r2s = Tail(@)]
       IN CASE m.type = "REQ" -> <<[c1 EXCEPT !.sReqLog = Append(@, m.id)], {}>>
            [] m.type = "FIN" -> <<[c1 EXCEPT !.sFinSeen = TRUE], {}>>
            [] OTHER -> <<[c1 EXCEPT !.sErrSeen = @ \/ (m.type = "ERR")], {}>>

\* ---- other events ------------------------------------------------------------
Prog(c, e) ==
  IF e.side # "S" THEN <<c, {}>>
  ELSE <<[c EXCEPT !.pS = [v |-> e.v, final |-> @.final \/ e.last]],
         IF c.realS THEN Cl(e.v < c.pS.v, "C06.progressDecreased") \cup Cl(c.pS.final, "C06.progressAfterFinalCall") ELSE {}>>

Ret(c, e) ==
  IF e.side = "S"
  THEN <<[c EXCEPT !.retS = IF e.ok THEN "ok" ELSE "err"],
         IF c.realS THEN Cl(e.ok /\ ~c.sFinEchoed, "C04.sendSuccessWithoutFin")
                         \cup Cl(~e.ok /\ c.faults = 0 /\ ~BadReqs(c) /\ ~c.sErrSeen /\ ~c.sEofSeen /\ ~c.tornR
                                 /\ c.retR = "none", "C06.failedWithoutCause")
                         \cup Cl(~c.pS.final /\ c.pS.v > 0, "C06.noFinalProgressCall") ELSE {}>>
  ELSE <<[c EXCEPT !.retR = IF e.ok THEN "ok" ELSE "err"],
         IF c.realR THEN Cl(e.ok /\ ~c.rFinSent, "C07.successWithoutFin")
                         \cup Cl(e.ok /\ ~c.rFinSent, "C04.receiveSuccessWithoutFin")
                         \cup Cl(~e.ok /\ c.faults = 0 /\ ~c.rMustFail /\ ~c.rEof /\ ~c.tornS /\ c.retS = "none"
                                 /\ ~c.uncleanStat, "C07.failedWithoutCause")
                         \cup Cl(e.ok /\ ~c.rEof, "C07.successBeforeEndOfStream")
                         \cup Cl(e.ok /\ c.rMustFail, "C07.successDespiteInvalidStream") ELSE {}>>

\* ---- end of case: outcome ------------------------------------------------------
\* the events of the current case, read back from the trace
CaseEvents(c, upto) == TLCEval(SubSeq(Trace, c.beginL, upto))
StatsOf(evs) == LET S == SelectSeq(evs, LAMBDA x : x.ev = "Pkt" /\ x.ep = "S" /\ x.type = "STAT" /\ ~x.end)
                IN TLCEval([i \in DOMAIN S |-> StatEntry(S[i])])
NotesOf(evs) == LET S == SelectSeq(evs, LAMBDA x : x.ev = "Notify")
                IN TLCEval([i \in DOMAIN S |-> [kind |-> S[i].kind, p |-> S[i].p, sh |-> S[i].sh, hdr |-> S[i].hdr,
                                                 bytes |-> S[i].bytes, dgOK |-> S[i].dgOK]])
\* TLCEval: function constructors are lazy in TLC; without it every view[i] re-evaluates the body
ViewOf(stats, vc) == TLCEval([i \in DOMAIN stats |-> [stats[i] EXCEPT !.c = vc[i]]])
ReqPaths(c, stats) == {stats[id + 1].p : id \in {x \in c.rReq : x < Len(stats)}}
ChangesOf(stats) == TLCEval([i \in DOMAIN stats |-> [raw |-> stats[i].raw, kind |-> "add", isDir |-> stats[i].t = "dir"]])
\* every entry type that can carry a hard-link name (the sender's walker names the first walked path of the inode
\* for every multi-link non-directory; symlinks use the field for their target)
Linkable(t) == t \notin {"dir", "symlink"}
LinksOK(stats) == \A i \in DOMAIN stats :
                    (Linkable(stats[i].t) /\ stats[i].hl # <<>>) =>
                      \E j \in 1..(i - 1) : stats[j].p = stats[i].hl /\ Linkable(stats[j].t) /\ stats[j].hl = <<>>

\* ---- receiver-side Filter -----------------------------------------------------
\* The harness's filters are pure functions of the stat; the destination must equal the
\* FILTERED view, identity is compared on the filtered stat, while notifications carry the
\* stat as sent (sh stays the hash of the unfiltered stat).
\* perm bits: clearing 0222 = the three write bits
ClearWrite(perm) == LET b(k) == (perm \div k) % 2 IN perm - 128 * b(128) - 16 * b(16) - 2 * b(2)
FilterEntry(e, f) ==
  IF f = "zeroOwner" THEN [e EXCEPT !.uid = 0, !.gid = 0]
  ELSE IF f = "stripWrite" THEN (IF e.t = "file" THEN [e EXCEPT !.perm = ClearWrite(e.perm)] ELSE e)
  ELSE e
\* a receiver Filter that REJECTS entries (returns false): every non-directory named "rj" - the incoming entry is not applied,
\* an existing destination entry of that path is neither compared nor deleted
RejName == <<114, 106>>
Rejected(f, p) == f = "rejectRJ" /\ p # <<>> /\ Last(p) = RejName
FilterView(view, f) == IF f = "" THEN view
                       ELSE IF f = "rejectRJ" THEN SelectSeq(view, LAMBDA x : ~Rejected(f, x.p))
                       ELSE TLCEval([i \in DOMAIN view |-> FilterEntry(view[i], f)])
\* a snapshot without the rejected paths (group labels are positions: re-based)
FilterTree(t, f) == IF f # "rejectRJ" THEN t
                    ELSE LET kept == SelectSeq(t, LAMBDA x : ~Rejected(f, x.p))
                             idxOf(g) == IF g = 0 THEN 0 ELSE Cardinality({k \in 1..g : ~Rejected(f, t[k].p)})
                         IN TLCEval([i \in DOMAIN kept |-> [kept[i] EXCEPT !.g = idxOf(@)]])
\* (a rejected destination entry below a directory that the transfer deletes or replaces goes with it)
RejectClauses(before, after, notes, reqs, f, view) ==
  IF f # "rejectRJ" THEN {}
  ELSE Cl(\E i \in DOMAIN before : Rejected(f, before[i].p) /\ (\A a \in Anc(before[i].p) : Has(view, a) /\ At(view, a).t = "dir") /\
             ~(Has(after, before[i].p) /\ At(after, before[i].p).ino = before[i].ino /\ At(after, before[i].p).c = before[i].c
               /\ At(after, before[i].p).t = before[i].t), "C01.rejectedDestinationEntryTouched")
       \* ... and a change of the destination that no notification accounts for
       \cup Cl(\E i \in DOMAIN before : Rejected(f, before[i].p) /\ (\A a \in Anc(before[i].p) : Has(view, a) /\ At(view, a).t = "dir")
                  /\ ~Has(after, before[i].p) /\ ~\E k \in DOMAIN notes : notes[k].p = before[i].p, "C05.applyEventsYieldsNewDest")
       \cup Cl(\E i \in DOMAIN after : Rejected(f, after[i].p) /\ ~Has(before, after[i].p), "C01.rejectedEntryApplied")
       \cup Cl(\E k \in DOMAIN notes : Rejected(f, notes[k].p), "C05.rejectedPathReported")
       \cup Cl(\E p \in reqs : Rejected(f, p), "C07.contentRequestSet")
FilterOf(begin) == IF "filter" \in DOMAIN begin THEN begin.filter ELSE ""

\* ---- C11: filtered views ----------------------------------------------------
\* src: snapshot of the unfiltered source (hard-link groups by inode); stats: what was sent.
\* Among the REPORTED members of a source inode group the first is sent as a plain file and
\* every later one as a link naming that first reported member.
SrcRoot(src, p) == IF Has(src, p) THEN RootOf(src, IdxOf(src, p)) ELSE p
HardlinkResetOK(stats, src) ==
  \A i \in DOMAIN stats :
    Linkable(stats[i].t) =>
      LET same == {j \in DOMAIN stats : Linkable(stats[j].t) /\ SrcRoot(src, stats[j].p) = SrcRoot(src, stats[i].p)}
          first == CHOOSE j \in same : \A k \in same : j <= k
      IN stats[i].hl = (IF i = first THEN <<>> ELSE stats[first].p)
OpensOf(evs) == SelectSeq(evs, LAMBDA x : x.ev = "Open")
FilteredClauses(c, begin, evs, stats) ==
  LET opens == OpensOf(evs)
      reportedFile(p) == \E i \in DOMAIN stats : stats[i].p = p /\ stats[i].t = "file"
      badOpen == {k \in DOMAIN opens : \/ opens[k].ok # reportedFile(opens[k].p)
                                        \/ (opens[k].ok /\ opens[k].c # opens[k].want)}
      sd == {begin.selDiff[k] : k \in DOMAIN begin.selDiff}
      \* explained: the mismatch sits at a path (or below a directory) where the library's
      \* incremental matcher and its plain matcher disagree
      explained(p) == p \in sd \/ \E a \in Anc(p) : a \in sd
      failedTransfer == c.faults = 0 /\ ~(c.retS = "ok" /\ c.retR = "ok")
      anyDiffReported == \E i \in DOMAIN stats : explained(stats[i].p)
  IN Cl(~HardlinkResetOK(stats, begin.src), "C11.hardlinkResetRule")
     \cup (IF ~begin.patternOnly \/ badOpen = {} THEN {}
           ELSE IF \A k \in badOpen : explained(opens[k].p) THEN {"C11.openDisagreesWithWalk/explainedByIncrementalMatcher"}
           ELSE {"C11.openDisagreesWithWalk"})
     \cup (IF ~failedTransfer THEN {}
           ELSE IF anyDiffReported THEN {"C11.filteredTransferFailed/explainedByIncrementalMatcher"}
           ELSE {"C11.filteredTransferFailed"})
     \* "exactly the filtered view": what is announced equals the naive evaluation of the (single) layer - matched
     \* entries and their ancestors; explained when it equals the library's incremental evaluation instead
     \cup (IF "naiveView" \notin DOMAIN begin \/ ~c.ended THEN {}
           ELSE LET got == {stats[i].p : i \in DOMAIN stats}
                    nv == {begin.naiveView[k] : k \in DOMAIN begin.naiveView}
                    iv == {begin.incrView[k] : k \in DOMAIN begin.incrView}
                IN IF got = nv THEN {}
                   ELSE IF got = iv THEN {"C11.viewDiffersFromNaiveReference/explainedByIncrementalMatcher"}
                   ELSE {"C11.viewDiffersFromNaiveReference"})

\* ---- C19: metadata-only transfers ---------------------------------------------
ListingName == << <<46, 102, 115, 117, 116, 105, 108, 45, 109, 101, 116, 97, 100, 97, 116, 97>> >>   \* ".fsutil-metadata"
\* the entries the destination must hold: the selected ones plus the ancestors they need
\* (the listing file's own name is never transferred)
Projection(view, selected) ==
  LET keep == {i \in DOMAIN view : /\ view[i].p # ListingName
                                   /\ (view[i].p \in selected \/ \E q \in selected : q # ListingName /\ Under(q, view[i].p))}
      RECURSIVE Asc(_)
      Asc(S) == IF S = {} THEN <<>> ELSE LET m == CHOOSE x \in S : \A y \in S : x <= y IN <<view[m]>> \o Asc(S \ {m})
  IN Asc(keep)
WithoutListing(t) == SelectSeq(t, LAMBDA x : x.p # ListingName)
\* snapshot group labels are positions: dropping the listing entry shifts them
Relabel(t) == LET idxOf(g) == IF g = 0 THEN 0 ELSE Cardinality({k \in 1..g : t[k].p # ListingName})
              IN [i \in DOMAIN WithoutListing(t) |-> [WithoutListing(t)[i] EXCEPT !.g = idxOf(@)]]
MetaClauses(c, begin, e, stats, view, notes) ==
  LET selected == {begin.selected[k] : k \in DOMAIN begin.selected}
      want == [i \in DOMAIN stats |-> stats[i].sh]
      listed == SelectSeq(want, LAMBDA x : TRUE)
      wantSh == LET S == SelectSeq(stats, LAMBDA x : x.p # ListingName) IN [i \in DOMAIN S |-> S[i].sh]
      proj == Projection(view, selected)
      before == TLCEval(Relabel(begin.before))
      after == TLCEval(Relabel(e.after))
      reqs == ReqPaths(c, stats)
      ok == c.retS = "ok" /\ c.retR = "ok"
      merge == c.mode = "merge"
  IN IF ~ok THEN Cl(c.faults = 0, "C19.metadataOnlyTransferFailed")
     ELSE Cl(~e.listing.present \/ ~e.listing.framingOK, "C19.listingFraming")
          \cup Cl(e.listing.recs # wantSh, "C19.listingRecordsEqualAnnouncedStats")
          \* the listing is a file of the destination: never written through a symlink of that name
          \cup (IF "listingOutsideTouched" \in DOMAIN e /\ e.listingOutsideTouched
                THEN {"C19.listingWrittenThroughSymlink", "C03.outsideTouched"} ELSE {})
          \cup (IF merge THEN Pfx("C19", OverlayClauses(proj, after, before)) ELSE Pfx("C19", ConvergedClauses(proj, after, before)))
          \cup Cl(~(reqs \subseteq {p \in selected : Has(view, p) /\ At(view, p).t = "file" /\ At(view, p).hl = <<>>}),
                  "C19.contentRequestedForUnselectedEntry")
          \cup Cl(~ReqOK(reqs, proj, before, c.differ, merge), "C19.contentRequestSet")
          \* conformance of the algorithm-layer model MetaStackMC (cases enumerated by TLC): the destination holds exactly
          \* what the model's run forwards and the ids on the wire are the ids the model's run records.  Not a verdict of a
          \* property (prefix MODEL): a disagreement without a violation makes the run inconclusive
          \cup Cl("metaModel" \in DOMAIN begin
                  /\ (PathsOf(after) # {begin.metaModel.fwd[k] : k \in DOMAIN begin.metaModel.fwd}
                      \/ c.rReq # {begin.metaModel.ids[k] : k \in DOMAIN begin.metaModel.ids}),
                  "MODEL.metaStackOutcomeDiffers")
          \* each selected entry / needed ancestor is applied once
          \cup (IF \E k1, k2 \in NonDelete(notes) : k1 # k2 /\ notes[k1].p = notes[k2].p
                THEN {"C19.entryAppliedTwice", "C05.reportedTwice"} ELSE {})

\* ---- C03: hostile sender ---------------------------------------------------
\* index of the first STAT that a receiver must reject: not a clean relative path strictly
\* inside the root, not strictly ascending, parent not a directory sent earlier, or a hard
\* link naming a path that was not sent earlier as a plain regular file; 0 if none
FirstBadLink(stats) ==
  LET B == {i \in DOMAIN stats : Linkable(stats[i].t) /\ stats[i].hl # <<>>
                                 /\ ~\E j \in 1..(i - 1) : stats[j].p = stats[i].hl /\ Linkable(stats[j].t) /\ stats[j].hl = <<>>}
  IN IF B = {} THEN 0 ELSE CHOOSE i \in B : \A j \in B : i <= j
MinNZ(a, b) == IF a = 0 THEN b ELSE IF b = 0 THEN a ELSE IF a < b THEN a ELSE b
HostileClauses(c, begin, e, stats) ==
  LET firstBad == MinNZ(VSFirstReject(ChangesOf(stats)), FirstBadLink(stats))
      before == begin.before
      after == e.after
      late == {i \in DOMAIN stats : i >= firstBad /\ CleanInside(stats[i].raw)
                                    /\ ~\E j \in 1..(firstBad - 1) : stats[j].p = stats[i].p}
      \* explanation test for a recorded finding: the receiver's own Filter rejected a directory of the stream whose path
      \* holds a symlink in the destination (so the link stayed), and an accepted entry of the stream lies below it
      rej == IF "rejectedPaths" \in DOMAIN begin THEN {begin.rejectedPaths[k] : k \in DOMAIN begin.rejectedPaths} ELSE {}
      belowRejectedLink == \E i \in DOMAIN stats : /\ CleanInside(stats[i].raw) /\ stats[i].p \notin rej
                                                    /\ \E a \in rej : /\ Len(a) < Len(stats[i].p) /\ SubSeq(stats[i].p, 1, Len(a)) = a
                                                                      /\ Has(before, a) /\ At(before, a).t = "symlink"
      touchedObs == begin.outsideBefore # e.outsideAfter \/ ("dstRootGone" \in DOMAIN e /\ e.dstRootGone)
  IN (IF touchedObs
      THEN (IF belowRejectedLink THEN {"C03.outsideTouched/explainedByEntryBelowRejectedDirectory"} ELSE {"C03.outsideTouched"})
      ELSE {})
     \* conformance of the algorithm-layer model ReceiveLinksMC (cases enumerated by TLC): the real call fails exactly where
     \* the model's run fails and touches the outside exactly where the model's does.  Not a verdict of any property
     \* (prefix MODEL): a disagreement without a violation makes the run inconclusive
     \cup Cl("linkModel" \in DOMAIN begin /\ ((c.retR # "ok") # begin.linkModel.fails \/ touchedObs # begin.linkModel.touched),
             "MODEL.receiveLinksOutcomeDiffers")
     \cup Cl((firstBad # 0 \/ c.rMustFail) /\ c.retR = "ok", "C03.invalidStreamAccepted")
     \* "applied" = the entry exists afterwards as a new or replaced inode.  A stale destination
     \* entry of that name that disappears is the (legitimate) effect of the valid prefix.
     \cup Cl(firstBad # 0 /\ \E i \in late :
                LET p == stats[i].p IN
                  Has(after, p) /\ (~Has(before, p) \/ At(after, p).ino # At(before, p).ino),
            "C03.offendingEntryApplied")

EndClauses(c, e) ==
  LET evs == CaseEvents(c, l)
      begin == evs[1]
      before == FilterTree(begin.before, FilterOf(begin))
      stats == StatsOf(evs)
      notes == NotesOf(evs)
      view == FilterView(ViewOf(stats, e.vc), FilterOf(begin))
      after == FilterTree(e.after, FilterOf(begin))
      merge == c.mode = "merge"
      bothOK == c.retS = "ok" /\ c.retR = "ok"
      reqs == ReqPaths(c, stats)
      vsOK == VSFirstReject(ChangesOf(stats)) = 0
      wf == SortedTree(after) /\ SortedTree(before)
      outcome ==
        IF ~wf THEN {"HARNESS.snapshotNotSorted"}
        ELSE IF c.metaOnly THEN {}
        ELSE Pfx("C01", IF merge THEN OverlayClauses(view, after, before) ELSE ConvergedClauses(view, after, before))
             \cup Pfx("C02", Cl(~ReqOK(reqs, view, before, c.differ, merge), "contentRequestSet")
                             \cup (IF merge \/ c.differ = "none" THEN {} ELSE KeptClauses(view, after, before))
                             \cup (IF merge THEN {} ELSE RewrittenClauses(view, after, before))
                             \* after the transfer a re-diff finds nothing: every identity difference was applied
                             \cup (IF merge THEN {} ELSE Cl(Len(after) = Len(view) /\ (Changed(view, after) # {} \/ Deleted(view, after) # {}),
                                                         "destinationStillDiffersAfterSync")))
             \cup Pfx("C02", Cl(~merge /\ c.differ = "metadata" /\ Changed(view, before) = {} /\ Deleted(view, before) = {}
                                /\ (notes # <<>> \/ c.rReq # {}), "resyncOfUnchangedSourceNotSilent"))
             \cup Pfx("C07", Cl(~ReqOK(reqs, view, before, c.differ, merge), "contentRequestSet"))
             \cup Pfx("C05", NotifyClauses(notes, view, before, after, reqs, c.differ, merge))
             \cup RejectClauses(begin.before, e.after, notes, reqs, FilterOf(begin), view)
  IN
  (IF c.retR = "ok" /\ c.realR /\ vsOK /\ LinksOK(stats) /\ ~c.rMustFail THEN outcome ELSE {})
  \cup (IF c.realS THEN Cl(~vsOK, "C11.streamNotValid") \cup Cl(~LinksOK(stats), "C11.hardlinkToUnsentEntry") ELSE {})
  \cup (IF c.realS /\ c.retS = "ok"
        THEN Cl(~(SReqIds(c) \subseteq c.sFinished), "C06.requestNotAnswered")
             \cup Cl(BadReqs(c), "C06.invalidRequestAccepted")
             \cup Cl(~c.ended, "C06.noEndMarker")
        ELSE {})
  \* a fault-free session with only valid requests and a FIN must succeed
  \cup Cl(c.realS /\ ~c.realR /\ c.faults = 0 /\ ~BadReqs(c) /\ c.sFinSeen /\ c.retS = "err", "C06.validSessionFailed")
  \* one STAT per entry of the (unfiltered, on-disk) view, in walk order, same type
  \cup Cl(c.realS /\ c.srcExact /\ c.ended
         /\ ~(Len(stats) = Len(begin.src) /\ \A i \in DOMAIN begin.src : stats[i].p = begin.src[i].p /\ stats[i].t = begin.src[i].t),
         "C06.statPerViewEntry")
  \cup (IF c.realS /\ c.realR /\ c.faults = 0 /\ ~bothOK
        THEN (IF "filtered" \in DOMAIN begin THEN {}
              \* a transfer the unchanged code completes: the outcome properties' antecedent ("both return success") has
              \* become unreachable for this input, which is reported rather than passed over in silence
              ELSE {"C11.faultFreeTransferFailed", "C01.faultFreeTransferFailed", "C02.faultFreeTransferFailed", "C05.faultFreeTransferFailed"})
             \cup {"C08.outcomeDependsOnSchedule"} ELSE {})
  \cup (IF "hostile" \in DOMAIN begin /\ c.realR THEN HostileClauses(c, begin, e, stats) ELSE {})
  \cup (IF "filtered" \in DOMAIN begin THEN FilteredClauses(c, begin, evs, stats) ELSE {})
  \cup (IF c.metaOnly /\ c.realR /\ "selected" \in DOMAIN begin /\ "listing" \in DOMAIN e THEN MetaClauses(c, begin, e, stats, view, notes) ELSE {})
  \* conformance of the algorithm-layer model DiffMergeMC (pairs enumerated by TLC): the receiver notifies exactly the
  \* (kind, path) changes the ALGORITHM model of the merge loop emits, each once.  Not a verdict of a property (prefix
  \* MODEL): a disagreement without a violation makes the run inconclusive
  \* (deletes BELOW a deleted path are left out on both sides: the destination walker runs concurrently with the writer and
  \* may or may not still find the children of a directory that has just been removed - C05 permits either)
  \cup (IF "diffModel" \in DOMAIN begin /\ bothOK
        THEN LET real == {<<notes[k].kind, notes[k].p>> : k \in DOMAIN notes}
                 mdl == {<<begin.diffModel[k].k, begin.diffModel[k].p>> : k \in DOMAIN begin.diffModel}
                 Top(S) == {x \in S : ~(x[1] = "delete" /\ \E y \in S : y[1] = "delete" /\ Under(x[2], y[2]))}
             IN Cl(Top(real) # Top(mdl) \/ ~(real \subseteq mdl)
                   \/ \E k1, k2 \in DOMAIN notes : k1 # k2 /\ notes[k1].kind = notes[k2].kind /\ notes[k1].p = notes[k2].p,
                   "MODEL.diffMergeChangesDiffer")
        ELSE {})
  \cup Cl(c.retS = "none" \/ c.retR = "none", "C04.callDidNotReturn")
  \* the harness's own snapshot of an on-disk, unfiltered source: device numbers arrive as they are on disk (the view
  \* the STATs describe is the sender's reading of them)
  \cup (IF "src" \in DOMAIN begin /\ "filtered" \notin DOMAIN begin /\ c.retR = "ok" /\ c.realR /\ c.realS /\ ~merge /\ ~c.metaOnly
           /\ Len(e.after) = Len(begin.src)
           /\ \E i \in DOMAIN begin.src : e.after[i].p = begin.src[i].p /\ begin.src[i].t \in {"chr", "blk"}
                                          /\ e.after[i].t = begin.src[i].t /\ e.after[i].dev # begin.src[i].dev
        THEN {"C01.deviceNumbersDifferFromSource", "C02.destinationStillDiffersAfterSync"} ELSE {})
  \* whatever happened on the way: Receive reports success only with the whole source view in place (on-disk source,
  \* the harness's own snapshot of it)
  \cup Cl("srcFull" \in DOMAIN begin /\ c.retR = "ok" /\ c.realR /\ c.realS /\ ~merge
          /\ PathsOf(e.after) # PathsOf(begin.srcFull), "C04.receiveSuccessWithPartialTree")

\* explanation test for a recorded finding: a receiver without CAP_DAC_OVERRIDE opens a read-only file for its content by
\* changing the mode for a moment (lazyFileWriter); two names of one inode can be written at the same time (the hard-link
\* exception of C02), and then the two writers race on the inode's mode: one finds the file read-only again (the transfer
\* fails), or saves the other's temporary mode as "the" mode and restores that.  Matched: the case ran unprivileged, the
\* view holds a read-only regular file with several names, and the clause is one this race can produce
UnprivLinkRace(c, e) ==
  LET evs == CaseEvents(c, l)
      begin == evs[1]
      stats == StatsOf(evs)
  IN "unpriv" \in DOMAIN begin /\ begin.unpriv
     /\ \E i \in DOMAIN stats : /\ stats[i].t = "file" /\ (stats[i].perm \div 128) % 2 = 0
                                 /\ (stats[i].hl # <<>> \/ \E j \in DOMAIN stats : stats[j].hl = stats[i].p)
UnprivAffected == {"C01.entryAttributes", "C01.faultFreeTransferFailed", "C02.faultFreeTransferFailed", "C05.faultFreeTransferFailed",
                   "C11.faultFreeTransferFailed", "C08.outcomeDependsOnSchedule", "C02.destinationStillDiffersAfterSync"}
UnprivRename(c, e, S) ==
  IF S \cap UnprivAffected = {} THEN S
  ELSE IF UnprivLinkRace(c, e) THEN {IF x \in UnprivAffected THEN x \o "/explainedByUnprivilegedLinkWriters" ELSE x : x \in S}
  ELSE S

EndDetail(c, e) ==
  LET evs == CaseEvents(c, l)
      before == FilterTree(evs[1].before, FilterOf(evs[1]))
      stats == StatsOf(evs)
      view == FilterView(ViewOf(stats, e.vc), FilterOf(evs[1])) IN
  ToString([notify |-> NotifyDetail(NotesOf(evs), view, before, c.differ, c.mode = "merge"),
            reqs |-> ReqPaths(c, stats), needed |-> Needed(view, before),
            changed |-> Changed(view, before), exception |-> Exception(view, before)])

\* ---- the step ---------------------------------------------------------------
\* SIGKILL of the receiving process (one self-contained event): Send must return, and it must not
\* report success unless the receiver had already acknowledged completion
KilledClauses(e) ==
  Cl(e.hang \/ ~e.sendReturned, "C04.hang")
  \cup Cl(e.sendOK /\ ~e.finSeenBySender, "C04.sendSuccessWithoutFin")

\* a write fault while the listing is written (the receiving process cannot write the whole listing): one self-contained event
ListingFaultClauses(e) ==
  Cl(~e.childReturned, "C19.receiveDidNotReturnAfterListingWriteFault")
  \cup Cl(e.recvOK /\ ~e.listingComplete, "C19.successWithIncompleteListing")

Consume(c, e) ==
  IF e.ev = "Killed" THEN <<c, KilledClauses(e)>>
  ELSE IF e.ev = "ListingFault" THEN <<c, ListingFaultClauses(e)>>
  ELSE IF e.ev = "Begin" THEN <<NewCase(e), IF c.active THEN {"HARNESS.beginInsideCase"} ELSE {}>>
  ELSE IF ~c.active THEN <<c, {"HARNESS.eventOutsideCase"}>>
  ELSE CASE e.ev = "Pkt" /\ e.ep = "S" ->
              (CASE e.type = "STAT" /\ ~e.end -> SStat(c, e)
                 [] e.type = "STAT" /\ e.end -> SEnd(c, e)
                 [] e.type = "DATA" -> SData(c, e)
                 [] e.type = "FIN" -> SFin(c, e)
                 [] OTHER -> SOther(c, e))
         [] e.ev = "Pkt" /\ e.ep = "R" ->
              (CASE e.type = "REQ" -> RReq(c, e)
                 [] e.type = "FIN" -> RFin(c, e)
                 [] OTHER -> ROther(c, e))
         [] e.ev = "Dlv" /\ e.ep = "R" -> DlvR(c, e)
         [] e.ev = "Dlv" /\ e.ep = "S" -> DlvS(c, e)
         [] e.ev = "Progress" -> Prog(c, e)
         [] e.ev = "Return" -> Ret(c, e)
         [] e.ev = "Notify" -> <<c, {}>>
         [] e.ev = "Open" -> <<c, {}>>
         [] e.ev = "Fault" -> <<[c EXCEPT !.faults = @ + 1], {}>>
         [] e.ev = "Break" -> <<[c EXCEPT !.faults = @ + 1], {}>>
         [] e.ev = "TearDown" -> <<IF e.ep = "S" THEN [c EXCEPT !.tornS = TRUE] ELSE [c EXCEPT !.tornR = TRUE], {}>>
         [] e.ev = "Overlap" -> <<c, {"C08.concurrentStreamCalls"}>>
         [] e.ev = "Race" -> <<c, {"C08.dataRace"}>>
         [] e.ev = "Hang" -> <<c, {"C04.hang"}>>
         [] e.ev = "Stall" -> <<c, {"HARNESS.stall"}>>
         \* nothing moved and a call had not returned; the environment then tore the stream down.
         \* After a fault this is allowed (C04 only demands termination once the stream is torn
         \* down); without any fault it means the two conforming peers deadlocked.
         [] e.ev = "Quiesce" -> <<[c EXCEPT !.faults = @ + 1],
                                  Cl(c.faults = 0 /\ c.realS /\ ~e.sReturned, "C06.senderStuckWithConformingPeer")
                                  \cup Cl(c.faults = 0 /\ c.realR /\ ~e.rReturned, "C07.receiverStuckWithConformingPeer")
                                  \cup (IF c.faults = 0 /\ c.realS /\ c.realR THEN {"C11.faultFreeTransferStuck", "C08.transferStuckUnderSchedule"} ELSE {})>>
         [] e.ev = "EnvTearDown" -> <<c, {}>>
         [] e.ev = "Leak" -> <<c, {"C04.goroutineLeak"}>>
         [] e.ev = "End" -> <<NoCase, UnprivRename(c, e, EndClauses(c, e))>>
         [] OTHER -> <<c, {"HARNESS.unknownEvent"}>>

Init == l = 1 /\ failed = <<>> /\ cs = NoCase
Step == /\ l <= Len(Trace)
        /\ LET e == Trace[l]
               r == Consume(cs, e)
           IN /\ cs' = r[1]
              /\ failed' = IF r[2] = {} \/ Full(failed, r[2]) THEN failed
                           ELSE Append(failed, [case |-> e.case, line |-> l, clauses |-> r[2],
                                                detail |-> IF e.ev = "End" /\ cs.active THEN EndDetail(cs, e) ELSE ""])
        /\ l' = l + 1
Spec == Init /\ [][Step]_vars

Emit == (l = Len(Trace) + 1) =>
          ndJsonSerialize(IOEnv.VERIF_OUT, <<[consumed |-> l - 1, failed |-> failed, drift |-> <<>>]>>)
=============================================================================
