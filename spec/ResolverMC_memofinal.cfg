SPECIFICATION Spec
CONSTANTS
  Scope = "quick"
  MemoFinalOnly = TRUE
  DedupeNeighbour = FALSE
  LexicalClean = FALSE
  MaxSteps = 40
CHECK_DEADLOCK FALSE
INVARIANT Terminates
