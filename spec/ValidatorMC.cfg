SPECIFICATION Spec
CONSTANTS MaxLen = 6
 RejectDots = TRUE
INVARIANTS Agree StackShape
CHECK_DEADLOCK FALSE
