SPECIFICATION Spec
CONSTANTS TrackCreated = TRUE
 TrackRejected = TRUE
 RefuseBelow = FALSE
INVARIANT Contained
CHECK_DEADLOCK FALSE
