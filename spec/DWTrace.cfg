SPECIFICATION Spec
INVARIANT Emit
CHECK_DEADLOCK FALSE
