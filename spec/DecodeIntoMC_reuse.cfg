SPECIFICATION Spec
CONSTANTS MaxMsgs = 3
 Loop = "reuse"
 StreamResets = FALSE
INVARIANT Faithful
CHECK_DEADLOCK FALSE
