SPECIFICATION Spec
CONSTANTS
  N = 4
  ResetOverwrites = TRUE
  NoReset = FALSE
INVARIANTS ResetRule
CHECK_DEADLOCK FALSE
