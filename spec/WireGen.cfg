SPECIFICATION Spec
CONSTANT MaxTokens = 3
