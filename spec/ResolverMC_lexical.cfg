SPECIFICATION Spec
CONSTANTS
  Scope = "thorough"
  MemoFinalOnly = FALSE
  DedupeNeighbour = FALSE
  LexicalClean = TRUE
  MaxSteps = 60
CHECK_DEADLOCK FALSE
INVARIANT ResultOK
