------------------------------- MODULE CopyRef -------------------------------
(***************************************************************************)
(* PROPERTY LAYER for C13 / C14 / C15 / C16: cp -a style copy as a function *)
(* on trees.  Trees are functions path -> entry here (the overlay updates   *)
(* them), built from the sorted snapshot sequences.                         *)
(*                                                                         *)
(* A request is [sp  source path (<<>> = the source root itself),           *)
(*               dp  destination path argument (<<>> = destination root),   *)
(*               slash   the destination argument ended in a separator,     *)
(*               contents / replace   CopyDirContents / AlwaysReplace...,   *)
(*               uid,gid (-1 = keep), mode (-1 = keep), sym ("" = none),    *)
(*               utime ("" = keep)]                                         *)
(* The reference says ok(tree) or err.  Where the statements are silent    *)
(* (metadata of a pre-existing directory that merges, atime, permission of  *)
(* directories created above the target) nothing is compared.               *)
(***************************************************************************)
EXTENDS Trees, TLC

Fn(t) == [p \in PathsOf(t) |-> At(t, p)]
DropTree(D, p) == [q \in {x \in DOMAIN D : x # p /\ ~Under(x, p)} |-> D[q]]
Put(D, p, e) == [q \in (DOMAIN D) \cup {p} |-> IF q = p THEN e ELSE D[q]]
KidsOf(S, sp) == {q \in DOMAIN S : Len(q) = Len(sp) + 1 /\ IsPrefix(sp, q)}
MinPath(P) == CHOOSE p \in P : \A q \in P : p = q \/ LessComponentwise(p, q)

(* ---- permission bits as sets {0..11}: 0..2 other, 3..5 group, 6..8 user, 9 sticky, 10 sgid, 11 suid *)
BitsOf(perm) == {k \in 0..11 : (perm \div (2 ^ k)) % 2 = 1}
RECURSIVE SumBits(_)
SumBits(B) == IF B = {} THEN 0 ELSE LET k == CHOOSE x \in B : TRUE IN 2 ^ k + SumBits(B \ {k})
BR == {2, 5, 8}  BW == {1, 4, 7}  BX == {0, 3, 6}
BU == {6, 7, 8}  BG == {3, 4, 5}  BO == {0, 1, 2}
\* the symbolic expressions the drivers use (chmod(1) semantics, umask 0)
SymApply(expr, perm, isDir) ==
  LET b == BitsOf(perm)
      anyX == (b \cap BX) # {}
      res == CASE expr = "u+x" -> b \cup {6}
               [] expr = "go-w" -> b \ {1, 4}
               [] expr = "a+X" -> IF isDir \/ anyX THEN b \cup BX ELSE b
               [] expr = "a=rX" -> (b \ (BU \cup BG \cup BO)) \cup BR \cup (IF isDir \/ anyX THEN BX ELSE {})
               [] expr = "o-w" -> b \ {1}
               [] expr = "u=rwx,go=rx" -> (b \ (BU \cup BG \cup BO)) \cup BU \cup {3, 5, 0, 2}
               [] OTHER -> b
  IN SumBits(res)

\* what a copied entry must look like; created: attributes the copy is responsible for
Image(s, r) ==
  [s EXCEPT !.uid = IF r.uid >= 0 THEN r.uid ELSE @,
            !.gid = IF r.gid >= 0 THEN r.gid ELSE @,
            !.perm = IF s.t = "symlink" THEN @
                     ELSE IF r.sym # "" THEN SymApply(r.sym, @, s.t = "dir")
                     ELSE IF r.mode >= 0 THEN r.mode ELSE @,
            !.mt = IF r.utime # "" THEN r.utime ELSE @]
Mark(e, how) == [e |-> e, how |-> how]      \* how: "copied" | "kept" | "merged" | "parent"

\* ---- recursive overlay ------------------------------------------------------------
\* S: source tree function (unmarked entries), D: destination function of marked entries
RECURSIVE CopyNode(_, _, _, _, _, _)
RECURSIVE CopyKids(_, _, _, _, _, _)
CopyKids(S, kids, D, sp, dp, r) ==
  IF kids = {} THEN [ok |-> TRUE, D |-> D]
  ELSE LET k == MinPath(kids)
           one == CopyNode(S, k, S[k], D, Append(dp, Last(k)), r)
       IN IF ~one.ok THEN one ELSE CopyKids(S, kids \ {k}, one.D, sp, dp, r)
\* sp: path of the source node (<<>> for the source root), s: its entry
CopyNode(S, sp, s, D, dp, r) ==
  LET there == dp \in DOMAIN D IN
  IF s.t = "dir" THEN
    IF there /\ D[dp].e.t # "dir" /\ ~r.replace THEN [ok |-> FALSE, D |-> D, obstacle |-> dp]
    ELSE LET D0 == IF there /\ D[dp].e.t # "dir" THEN DropTree(D, dp) ELSE D
             D1 == IF dp = <<>> THEN D0
                   ELSE IF dp \in DOMAIN D0 THEN Put(D0, dp, Mark(D0[dp].e, "merged"))
                   ELSE Put(D0, dp, Mark(Image(s, r), "copied"))
         IN CopyKids(S, KidsOf(S, sp), D1, sp, dp, r)
  ELSE
    IF there /\ D[dp].e.t = "dir" /\ ~r.replace THEN [ok |-> FALSE, D |-> D, obstacle |-> dp]
    ELSE [ok |-> TRUE, D |-> Put(DropTree(D, dp), dp, Mark(Image(s, r), "copied"))]

\* directories created above the final target (only owner and timestamp are specified)
RECURSIVE MkParents(_, _, _, _)
MkParents(D, p, k, r) ==
  IF k > Len(p) THEN [ok |-> TRUE, D |-> D]
  ELSE LET q == SubSeq(p, 1, k) IN
       IF q \in DOMAIN D THEN (IF D[q].e.t = "dir" THEN MkParents(D, p, k + 1, r) ELSE [ok |-> FALSE, D |-> D, obstacle |-> q])
       ELSE MkParents(Put(D, q, Mark([p |-> q, lnb |-> <<>>, t |-> "dir", perm |-> 0, uid |-> IF r.uid >= 0 THEN r.uid ELSE 0,
                                      gid |-> IF r.gid >= 0 THEN r.gid ELSE 0, size |-> "0", mt |-> r.utime, c |-> "", ln |-> "",
                                      dev |-> "0:0", x |-> "", g |-> 0, ino |-> ""], "parent")), p, k + 1, r)

\* one source (no wildcard).  srcTop: the entry of the source node (the root directory's own
\* attributes when sp = <<>>).
EntriesOf(D) == [p \in DOMAIN D |-> D[p].e]
\* r.dp is the destination argument after resolution
CopyOneResolved(S, sp, srcTop, D, r) ==
  LET srcDir == srcTop.t = "dir"
      \* a destination argument with a trailing separator (or naming the root) is created as a directory first
      pre == IF r.slash THEN MkParents(D, r.dp, 1, r) ELSE [ok |-> TRUE, D |-> D]
  IN IF ~pre.ok THEN pre ELSE
     LET D0 == pre.D
         destExists == r.dp = <<>> \/ r.dp \in DOMAIN D0
         destIsDir == r.dp = <<>> \/ (destExists /\ D0[r.dp].e.t = "dir")
         \* a source lands inside the destination only if that is a directory (a directory source only when
         \* directory-contents mode is off); any other entry there is an obstacle (conflict, or replaced)
         inside == destIsDir /\ (~r.contents \/ ~srcDir)
         final == IF inside /\ sp # <<>> THEN Append(r.dp, Last(sp)) ELSE r.dp
         \* parents of the final path (for a new directory that receives the contents: the path itself)
         upto == IF r.contents /\ srcDir /\ ~destExists THEN final ELSE Parent(final)
         par == MkParents(D0, upto, 1, r)
     IN IF ~par.ok THEN par ELSE CopyNode(S, sp, srcTop, par.D, final, r)
CopyOne(S, sp, srcTop, D, r0) ==
  \* symlinks in the destination path argument are resolved as if the destination root were "/"
  \* (every component, the last one included) - once, when the call starts
  LET res == ResolvePath(EntriesOf(D), r0.dp) IN
  IF ~res.ok THEN [ok |-> FALSE, D |-> D, obstacle |-> <<>>]
  ELSE CopyOneResolved(S, sp, srcTop, D, [r0 EXCEPT !.dp = res.p])

\* The one shape whose repetition is a different request by the statement's own placement rule:
\* a source directory copied (not in contents mode) to a destination that does not exist yet (or
\* holds a non-directory that always-replace removes) creates it; the next call finds an existing
\* directory and lands inside it.
PlacementFlips(srcTop, D, r0) ==
  LET res == ResolvePath(EntriesOf(D), r0.dp) IN
  res.ok /\ srcTop.t = "dir" /\ ~r0.contents /\ ~(res.p = <<>> \/ (res.p \in DOMAIN D /\ D[res.p].e.t = "dir"))

\* wildcard sources: the union of the matches, applied in walk order
RECURSIVE CopyManyResolved(_, _, _, _)
CopyManyResolved(S, sps, D, r) ==
  IF sps = {} THEN [ok |-> TRUE, D |-> D]
  ELSE LET sp == MinPath(sps)
           one == CopyOneResolved(S, sp, S[sp], D, r)
       IN IF ~one.ok THEN one ELSE CopyManyResolved(S, sps \ {sp}, one.D, r)
\* the destination argument is resolved once for the whole call, not once per match
CopyMany(S, sps, D, r0) ==
  LET res == ResolvePath(EntriesOf(D), r0.dp) IN
  IF ~res.ok THEN [ok |-> FALSE, D |-> D, obstacle |-> <<>>]
  ELSE CopyManyResolved(S, sps, D, [r0 EXCEPT !.dp = res.p])

\* ---- comparing the real outcome with the reference ------------------------------------
StartMarks(before) == [p \in PathsOf(before) |-> Mark(At(before, p), "kept")]

\* after: snapshot sequence after the call; W: the reference's marked function
\* chmod(1) leaves it open whether an "=" expression clears setuid/setgid/sticky: only the nine
\* permission bits are compared for such expressions
PermEq(a, w, eqOnly) == IF eqOnly THEN a % 512 = w % 512 ELSE a = w
\* mtFree: directories whose modification time is left open (a directory that one wildcard match created and a later
\* match then wrote into)
OutcomeClauses(W, after, before, src, eqOnly, mtFree) ==
  LET A == Fn(after)
      B == Fn(before)
  IN (IF DOMAIN A = DOMAIN W THEN {} ELSE {"pathSet"})
     \cup (IF DOMAIN A # DOMAIN W THEN {} ELSE
           (IF \A p \in DOMAIN W : A[p].t = W[p].e.t THEN {} ELSE {"entryType"})
           \cup (IF \A p \in DOMAIN W : W[p].how = "copied" =>
                     LET w == W[p].e a == A[p] IN
                       /\ a.t = w.t /\ (w.t = "file" => a.c = w.c) /\ (w.t = "symlink" => a.ln = w.ln)
                       /\ (w.t \in {"chr", "blk"} => a.dev = w.dev)
                       /\ a.uid = w.uid /\ a.gid = w.gid /\ (w.t # "symlink" => PermEq(a.perm, w.perm, eqOnly))
                       /\ (a.mt = w.mt \/ (w.t = "dir" /\ p \in mtFree)) /\ a.x = w.x
                 THEN {} ELSE {"copiedEntryAttributes"})
           \cup (IF \A p \in DOMAIN W : W[p].how = "parent" =>
                     A[p].t = "dir" /\ A[p].uid = W[p].e.uid /\ A[p].gid = W[p].e.gid /\ (W[p].e.mt # "" => A[p].mt = W[p].e.mt)
                 THEN {} ELSE {"createdParentOwnerOrTime"})
           \cup (IF \A p \in DOMAIN W : W[p].how = "kept" =>
                     p \in DOMAIN B /\ A[p].ino = B[p].ino /\ A[p].c = B[p].c /\ A[p].perm = B[p].perm /\ A[p].uid = B[p].uid
                     /\ A[p].ln = B[p].ln /\ (A[p].t # "dir" => A[p].mt = B[p].mt)
                 THEN {} ELSE {"unrelatedEntryTouched"})
           \* files that share an inode in the source share one in the copy (among copied regular files)
           \cup (IF \A p, q \in DOMAIN W :
                     (W[p].how = "copied" /\ W[q].how = "copied" /\ W[p].e.t = "file" /\ W[q].e.t = "file" /\ p # q)
                       => ((W[p].e.ino = W[q].e.ino) <=> (A[p].ino = A[q].ino))
                 THEN {} ELSE {"hardlinkGroups"}))

\* diagnostic detail (not part of any verdict)
OutcomeDetail(W, after) ==
  LET A == Fn(after)
      both == DOMAIN A \cap DOMAIN W
  IN [missing |-> DOMAIN W \ DOMAIN A, extra |-> DOMAIN A \ DOMAIN W,
      typeDiff |-> {<<p, W[p].e.t, A[p].t>> : p \in {q \in both : A[q].t # W[q].e.t}},
      attr |-> {<<p, W[p].how,
                  IF A[p].uid # W[p].e.uid \/ A[p].gid # W[p].e.gid THEN "owner" ELSE "",
                  IF W[p].e.t # "symlink" /\ A[p].perm # W[p].e.perm THEN <<"perm", W[p].e.perm, A[p].perm>> ELSE <<>>,
                  IF A[p].mt # W[p].e.mt THEN "mtime" ELSE "",
                  IF A[p].x # W[p].e.x THEN "xattr" ELSE "",
                  IF W[p].e.t = "file" /\ A[p].c # W[p].e.c THEN "content" ELSE "">> :
                p \in {q \in both : W[q].how = "copied" /\ A[q].t = W[q].e.t /\
                         (A[q].uid # W[q].e.uid \/ A[q].gid # W[q].e.gid \/ (W[q].e.t # "symlink" /\ A[q].perm # W[q].e.perm)
                          \/ A[q].mt # W[q].e.mt \/ A[q].x # W[q].e.x \/ (W[q].e.t = "file" /\ A[q].c # W[q].e.c))}}]

\* abstract equality used for idempotence: repeating a successful copy changes nothing
SameAbstract(a1, a2) ==
  /\ Len(a1) = Len(a2)
  /\ \A i \in DOMAIN a1 : LET x == a1[i] y == a2[i] IN
       x.p = y.p /\ x.t = y.t /\ x.c = y.c /\ x.ln = y.ln /\ x.dev = y.dev /\ x.uid = y.uid /\ x.gid = y.gid
       /\ (x.t # "symlink" => x.perm = y.perm) /\ (x.t # "dir" => x.mt = y.mt) /\ x.x = y.x
=============================================================================
