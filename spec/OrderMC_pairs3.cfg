SPECIFICATION Spec
CONSTANTS Alphabet = {45, 48, 97}
 MaxNameLen = 2
 MaxDepth = 3
 Triples = FALSE
INVARIANTS Agree Irreflexive Total Asymmetric
CHECK_DEADLOCK FALSE
