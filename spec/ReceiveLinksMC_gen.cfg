SPECIFICATION Spec
CONSTANTS TrackCreated = TRUE
 TrackRejected = TRUE
 RefuseBelow = FALSE
INVARIANT GenCases
CHECK_DEADLOCK FALSE
