SPECIFICATION Spec
CONSTANTS MaxPatLen = 2
 MaxList = 2
 Mode = "exc"
 StripBoth = FALSE
INVARIANT GenCases
CHECK_DEADLOCK FALSE
