SPECIFICATION Spec
CONSTANTS
  DeviceBeforeLink = FALSE
  StatFollows = TRUE
INVARIANTS Arrived
CHECK_DEADLOCK FALSE
