SPECIFICATION Spec
CONSTANT ByPrefix = TRUE
INVARIANT OpenRoundTrip
CHECK_DEADLOCK FALSE
