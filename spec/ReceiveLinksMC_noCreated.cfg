SPECIFICATION Spec
CONSTANTS TrackCreated = FALSE
 TrackRejected = TRUE
 RefuseBelow = FALSE
INVARIANT ContainedButKnown
CHECK_DEADLOCK FALSE
