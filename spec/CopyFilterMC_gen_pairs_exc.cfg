SPECIFICATION Spec
CONSTANTS MaxPatLen = 2
 MaxList = 2
 Mode = "exc"
 StripBoth = FALSE
 ExistingCountsAsIncluded = FALSE
INVARIANT GenCopyCases
CHECK_DEADLOCK FALSE
