SPECIFICATION Spec
CONSTANTS MaxMsgs = 3
 Loop = "fresh"
 StreamResets = FALSE
INVARIANT Faithful
CHECK_DEADLOCK FALSE
