SPECIFICATION Spec
CONSTANTS
  Scope = "thorough"
  MemoFinalOnly = FALSE
  DedupeNeighbour = FALSE
  MaxSteps = 60
CHECK_DEADLOCK FALSE
INVARIANT NeverLexExplained
