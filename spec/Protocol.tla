------------------------------ MODULE Protocol ------------------------------
(***************************************************************************)
(* ALGORITHM LAYER of the transfer protocol: send.go (walk goroutine, four  *)
(* workers ranging over the bounded pipeline, request loop with queue())    *)
(* and receive.go (receive loop, dynamicWalker queue, diff goroutine, one   *)
(* writer per requested file, FIN handshake) as processes over two bounded  *)
(* FIFO channels, with the errgroup cancellation of each side, the teardown *)
(* rule "when a call returns its end of the stream is closed", a source     *)
(* read fault, and the ENVIRONMENT action that tears the stream down at any *)
(* time (network loss + cancellation) -- the precondition under which C04   *)
(* demands termination.                                                      *)
(*                                                                          *)
(* TLC checks (scaled-down constants: N files, K chunks, W workers,         *)
(* pipeline / network / walker-queue capacities):                            *)
(*   - no deadlock: before the teardown EnvTearDown is always enabled, so a *)
(*     deadlock is a state AFTER teardown in which a call never returns     *)
(*   - Receive returns ok only with every needed file complete,             *)
(*     Send returns ok only after the FIN handshake                         *)
(* FixQueueCtx / FixWorkerErr = FALSE model the pinned upstream code        *)
(* (queue() is a bare channel send; a failing worker sends no ERR).          *)
(***************************************************************************)
EXTENDS Integers, Sequences, FiniteSets, TLC
CONSTANTS N,        \* number of entries in the sender's view
          NeedsData,\* subset of 0..N-1: regular files the receiver will request
          K,        \* chunks per file
          W,        \* sender workers
          PC,       \* pipeline capacity
          NC,       \* network capacity per direction
          QC,       \* receiver walk queue capacity
          ReadErrAllowed, FixWorkerErr, FixQueueCtx,
          WriterLimit \* 0 = unbounded (the code as it is); n > 0 = a seeded variant: errgroup.SetLimit(n) on the async writers, so the
                      \* diff goroutine blocks in eg.Go while n requested files wait for their data

Ids == 0..(N-1)
Workers == 1..W

VARIABLES s2r, r2s,            \* FIFO channels
          sWalk,               \* next index to announce; N = send end marker; N+1 = done
          sFiles,              \* requestable ids
          sPipe, sPipeClosed,
          sWk,                 \* worker state: [st, id, k]
          sRecv,               \* "run" | "ok" | "err"
          sCancelled, sRet,    \* sRet: "none"|"ok"|"err"
          rI, rFiles, rQ, rQClosed, rDiff, \* rDiff: "run"|"wait"|"fin"|"err"
          rWr,                 \* writer per id: "none"|"start"|"wait"|"done"
          rPipes,              \* ids with open pipe
          rGot,                \* chunks written per id
          rRecv,               \* "run"|"drain"|"ok"|"err"
          rCancelled, rRet,
          faults,
          sHeld,               \* id the request loop holds while blocked in queue() (-1 = none)
          torn                 \* the environment has torn the stream down

vars == <<s2r, r2s, sWalk, sFiles, sPipe, sPipeClosed, sWk, sRecv, sCancelled, sRet,
          rI, rFiles, rQ, rQClosed, rDiff, rWr, rPipes, rGot, rRecv, rCancelled, rRet, faults, sHeld, torn>>

Init == /\ s2r = <<>> /\ r2s = <<>>
        /\ sWalk = 0 /\ sFiles = {} /\ sPipe = <<>> /\ sPipeClosed = FALSE
        /\ sWk = [w \in Workers |-> [st |-> "idle", id |-> 0, k |-> 0]]
        /\ sRecv = "run" /\ sCancelled = FALSE /\ sRet = "none"
        /\ rI = 0 /\ rFiles = {} /\ rQ = <<>> /\ rQClosed = FALSE /\ rDiff = "run"
        /\ rWr = [i \in Ids |-> "none"] /\ rPipes = {} /\ rGot = [i \in Ids |-> 0]
        /\ rRecv = "run" /\ rCancelled = FALSE /\ rRet = "none"
        /\ faults = 0 /\ sHeld = -1 /\ torn = FALSE

\* stream: sender side usable while receiver has not returned and vice versa
SCanSend == ~torn /\ rRet = "none" /\ Len(s2r) < NC
SSendFails == torn \/ rRet # "none"
RCanSend == ~torn /\ sRet = "none" /\ Len(r2s) < NC
RSendFails == torn \/ sRet # "none"

\* ---------------- sender ----------------
SWalkStat == /\ sWalk < N /\ ~sCancelled /\ SCanSend
             /\ s2r' = Append(s2r, [t |-> "STAT", i |-> sWalk])
             /\ sFiles' = sFiles \cup {sWalk}     \* all entries are regular files in this proto
             /\ sWalk' = sWalk + 1
             /\ UNCHANGED <<r2s, sPipe, sPipeClosed, sWk, sRecv, sCancelled, sRet, rI, rFiles, rQ, rQClosed, rDiff, rWr, rPipes, rGot, rRecv, rCancelled, rRet, faults, sHeld, torn>>
SWalkEnd == /\ sWalk = N /\ ~sCancelled /\ SCanSend
            /\ s2r' = Append(s2r, [t |-> "END"])
            /\ sWalk' = N + 1
            /\ UNCHANGED <<r2s, sFiles, sPipe, sPipeClosed, sWk, sRecv, sCancelled, sRet, rI, rFiles, rQ, rQClosed, rDiff, rWr, rPipes, rGot, rRecv, rCancelled, rRet, faults, sHeld, torn>>
SWalkAbort == /\ sWalk <= N /\ (sCancelled \/ SSendFails)
              /\ sWalk' = N + 1 /\ sCancelled' = TRUE
              /\ UNCHANGED <<s2r, r2s, sFiles, sPipe, sPipeClosed, sWk, sRecv, sRet, rI, rFiles, rQ, rQClosed, rDiff, rWr, rPipes, rGot, rRecv, rCancelled, rRet, faults, sHeld, torn>>

SRecvMsg == /\ sRecv = "run" /\ r2s # <<>> /\ ~torn
            /\ LET m == Head(r2s) IN
               /\ r2s' = Tail(r2s)
               /\ CASE m.t = "REQ" ->
                        \* queue(): look the id up, delete it, then send on the bounded pipeline
                        IF m.id \notin sFiles
                        THEN sRecv' = "err" /\ sCancelled' = TRUE /\ sPipeClosed' = TRUE /\ UNCHANGED <<sFiles, sPipe, s2r, sHeld>>
                        ELSE IF Len(sPipe) < PC
                        THEN sFiles' = sFiles \ {m.id} /\ sPipe' = Append(sPipe, m.id) /\ UNCHANGED <<sRecv, sCancelled, sPipeClosed, s2r, sHeld>>
                        ELSE \* pipeline full: the request loop holds the id and blocks in the channel send
                             sFiles' = sFiles \ {m.id} /\ sRecv' = "queue" /\ sHeld' = m.id /\ UNCHANGED <<sPipe, sCancelled, sPipeClosed, s2r>>
                    [] m.t = "FIN" ->
                        /\ SCanSend
                        /\ s2r' = Append(s2r, [t |-> "FIN"])
                        /\ sRecv' = "ok" /\ sPipeClosed' = TRUE /\ UNCHANGED <<sFiles, sPipe, sCancelled, sHeld>>
                    [] m.t = "ERR" ->
                        sRecv' = "err" /\ sCancelled' = TRUE /\ sPipeClosed' = TRUE /\ UNCHANGED <<sFiles, sPipe, s2r, sHeld>>
            /\ UNCHANGED <<sWalk, sWk, sRet, rI, rFiles, rQ, rQClosed, rDiff, rWr, rPipes, rGot, rRecv, rCancelled, rRet, faults, torn>>
\* the request loop blocked in queue(): a worker made room, or (repaired code only) the errgroup context is done
SQueue == /\ sRecv = "queue"
          /\ \/ /\ Len(sPipe) < PC
                /\ sPipe' = Append(sPipe, sHeld) /\ sRecv' = "run" /\ sHeld' = -1 /\ UNCHANGED <<sCancelled, sPipeClosed>>
             \/ /\ FixQueueCtx /\ sCancelled
                /\ sRecv' = "err" /\ sHeld' = -1 /\ sPipeClosed' = TRUE /\ UNCHANGED <<sPipe, sCancelled>>
          /\ UNCHANGED <<s2r, r2s, sWalk, sFiles, sWk, sRet, rI, rFiles, rQ, rQClosed, rDiff, rWr, rPipes, rGot, rRecv, rCancelled, rRet, faults, torn>>
\* RecvMsg fails once the receiver has returned and the channel is drained
SRecvEOF == /\ sRecv = "run" /\ (torn \/ (r2s = <<>> /\ rRet # "none"))
            /\ sRecv' = "err" /\ sCancelled' = TRUE /\ sPipeClosed' = TRUE
            /\ UNCHANGED <<s2r, r2s, sWalk, sFiles, sPipe, sWk, sRet, rI, rFiles, rQ, rQClosed, rDiff, rWr, rPipes, rGot, rRecv, rCancelled, rRet, faults, sHeld, torn>>

SWorkerTake(w) == /\ sWk[w].st = "idle" /\ sPipe # <<>>
                  /\ IF sCancelled
                     THEN sWk' = [sWk EXCEPT ![w] = [st |-> "exit", id |-> 0, k |-> 0]] /\ UNCHANGED sPipe
                     ELSE sWk' = [sWk EXCEPT ![w] = [st |-> "send", id |-> Head(sPipe), k |-> 0]] /\ sPipe' = Tail(sPipe)
                  /\ UNCHANGED <<s2r, r2s, sWalk, sFiles, sPipeClosed, sRecv, sCancelled, sRet, rI, rFiles, rQ, rQClosed, rDiff, rWr, rPipes, rGot, rRecv, rCancelled, rRet, faults, sHeld, torn>>
SWorkerExit(w) == /\ sWk[w].st = "idle" /\ sPipe = <<>> /\ sPipeClosed
                  /\ sWk' = [sWk EXCEPT ![w] = [st |-> "exit", id |-> 0, k |-> 0]]
                  /\ UNCHANGED <<s2r, r2s, sWalk, sFiles, sPipe, sPipeClosed, sRecv, sCancelled, sRet, rI, rFiles, rQ, rQClosed, rDiff, rWr, rPipes, rGot, rRecv, rCancelled, rRet, faults, sHeld, torn>>
SWorkerSend(w) == /\ sWk[w].st = "send" /\ SCanSend
                  /\ IF sWk[w].k < K
                     THEN /\ s2r' = Append(s2r, [t |-> "DATA", id |-> sWk[w].id, last |-> FALSE])
                          /\ sWk' = [sWk EXCEPT ![w].k = @ + 1]
                     ELSE /\ s2r' = Append(s2r, [t |-> "DATA", id |-> sWk[w].id, last |-> TRUE])
                          /\ sWk' = [sWk EXCEPT ![w] = [st |-> "idle", id |-> 0, k |-> 0]]
                  /\ UNCHANGED <<r2s, sWalk, sFiles, sPipe, sPipeClosed, sRecv, sCancelled, sRet, rI, rFiles, rQ, rQClosed, rDiff, rWr, rPipes, rGot, rRecv, rCancelled, rRet, faults, sHeld, torn>>
SWorkerSendFail(w) == /\ sWk[w].st = "send" /\ SSendFails
                      /\ sWk' = [sWk EXCEPT ![w] = [st |-> "exit", id |-> 0, k |-> 0]] /\ sCancelled' = TRUE
                      /\ UNCHANGED <<s2r, r2s, sWalk, sFiles, sPipe, sPipeClosed, sRecv, sRet, rI, rFiles, rQ, rQClosed, rDiff, rWr, rPipes, rGot, rRecv, rCancelled, rRet, faults, sHeld, torn>>
\* fault: reading the source file fails mid-file
SWorkerReadErr(w) == /\ ReadErrAllowed /\ faults = 0 /\ sWk[w].st = "send" /\ sWk[w].k < K
                     /\ faults' = 1
                     /\ sWk' = [sWk EXCEPT ![w] = [st |-> IF FixWorkerErr THEN "errsend" ELSE "exit", id |-> 0, k |-> 0]] /\ sCancelled' = TRUE
                     /\ UNCHANGED <<s2r, r2s, sWalk, sFiles, sPipe, sPipeClosed, sRecv, sRet, rI, rFiles, rQ, rQClosed, rDiff, rWr, rPipes, rGot, rRecv, rCancelled, rRet, sHeld, torn>>
SWorkerErrSend(w) == /\ sWk[w].st = "errsend" /\ (SCanSend \/ SSendFails)
                     /\ IF SCanSend THEN s2r' = Append(s2r, [t |-> "ERR"]) ELSE UNCHANGED s2r
                     /\ sWk' = [sWk EXCEPT ![w].st = "exit"]
                     /\ UNCHANGED <<r2s, sWalk, sFiles, sPipe, sPipeClosed, sRecv, sCancelled, sRet, rI, rFiles, rQ, rQClosed, rDiff, rWr, rPipes, rGot, rRecv, rCancelled, rRet, faults, sHeld, torn>>

SReturn == /\ sRet = "none" /\ sWalk = N + 1 /\ sRecv \notin {"run", "queue"} /\ \A w \in Workers : sWk[w].st = "exit"
           /\ sRet' = IF sRecv = "ok" /\ ~sCancelled THEN "ok" ELSE "err"
           /\ UNCHANGED <<s2r, r2s, sWalk, sFiles, sPipe, sPipeClosed, sWk, sRecv, sCancelled, rI, rFiles, rQ, rQClosed, rDiff, rWr, rPipes, rGot, rRecv, rCancelled, rRet, faults, sHeld, torn>>

\* ---------------- receiver ----------------
RFail == rRecv' = "err" /\ rCancelled' = TRUE
RRecvMsg == /\ rRecv \in {"run", "drain"} /\ s2r # <<>> /\ ~torn
            /\ LET m == Head(s2r) IN
               /\ CASE rRecv = "drain" -> s2r' = Tail(s2r) /\ UNCHANGED <<rI, rFiles, rQ, rQClosed, rPipes, rGot, rWr, rRecv, rCancelled, sHeld, torn>>
                    [] rRecv = "run" /\ m.t = "STAT" ->
                          /\ Len(rQ) < QC \/ rCancelled
                          /\ s2r' = Tail(s2r)
                          /\ IF rCancelled THEN RFail /\ UNCHANGED <<rI, rFiles, rQ>>
                             ELSE /\ rFiles' = rFiles \cup {m.i} /\ rI' = rI + 1 /\ rQ' = Append(rQ, m.i) /\ UNCHANGED <<rRecv, rCancelled>>
                          /\ UNCHANGED <<rQClosed, rPipes, rGot, rWr>>
                    [] rRecv = "run" /\ m.t = "END" ->
                          s2r' = Tail(s2r) /\ rQClosed' = TRUE /\ UNCHANGED <<rI, rFiles, rQ, rPipes, rGot, rWr, rRecv, rCancelled, sHeld, torn>>
                    [] rRecv = "run" /\ m.t = "DATA" ->
                          /\ s2r' = Tail(s2r)
                          /\ IF m.id \notin rPipes THEN RFail /\ UNCHANGED <<rGot, rWr, rPipes>>
                             ELSE IF m.last THEN rWr' = [rWr EXCEPT ![m.id] = "closed"] /\ UNCHANGED <<rGot, rPipes, rRecv, rCancelled>>
                                  ELSE rGot' = [rGot EXCEPT ![m.id] = @ + 1] /\ UNCHANGED <<rWr, rPipes, rRecv, rCancelled>>
                          /\ UNCHANGED <<rI, rFiles, rQ, rQClosed>>
                    [] rRecv = "run" /\ m.t = "FIN" ->
                          s2r' = Tail(s2r) /\ rRecv' = "drain" /\ UNCHANGED <<rI, rFiles, rQ, rQClosed, rPipes, rGot, rWr, rCancelled, sHeld, torn>>
                    [] rRecv = "run" /\ m.t = "ERR" ->
                          s2r' = Tail(s2r) /\ RFail /\ UNCHANGED <<rI, rFiles, rQ, rQClosed, rPipes, rGot, rWr>>
            /\ UNCHANGED <<r2s, sWalk, sFiles, sPipe, sPipeClosed, sWk, sRecv, sCancelled, sRet, rDiff, rRet, faults, sHeld, torn>>
REOF == /\ rRecv \in {"run", "drain"} /\ (torn \/ (s2r = <<>> /\ sRet # "none"))
        /\ IF rRecv = "drain" /\ ~torn THEN rRecv' = "ok" /\ UNCHANGED rCancelled ELSE RFail
        /\ UNCHANGED <<s2r, r2s, sWalk, sFiles, sPipe, sPipeClosed, sWk, sRecv, sCancelled, sRet, rI, rFiles, rQ, rQClosed, rDiff, rWr, rPipes, rGot, rRet, faults, sHeld, torn>>

\* diff goroutine: takes next entry; spawns a writer if it needs data
ActiveWriters == Cardinality({i \in Ids : rWr[i] \in {"start", "wait", "closed"}})
RDiffStep == /\ rDiff = "run" /\ rQ # <<>> /\ ~rCancelled
             /\ (WriterLimit = 0 \/ Head(rQ) \notin NeedsData \/ ActiveWriters < WriterLimit)
             /\ LET i == Head(rQ) IN
                /\ rQ' = Tail(rQ)
                /\ IF i \in NeedsData THEN rWr' = [rWr EXCEPT ![i] = "start"] ELSE UNCHANGED rWr
             /\ UNCHANGED <<s2r, r2s, sWalk, sFiles, sPipe, sPipeClosed, sWk, sRecv, sCancelled, sRet, rI, rFiles, rQClosed, rDiff, rPipes, rGot, rRecv, rCancelled, rRet, faults, sHeld, torn>>
RDiffEnd == /\ rDiff = "run" /\ rQ = <<>> /\ rQClosed /\ ~rCancelled
            /\ rDiff' = "wait"
            /\ UNCHANGED <<s2r, r2s, sWalk, sFiles, sPipe, sPipeClosed, sWk, sRecv, sCancelled, sRet, rI, rFiles, rQ, rQClosed, rWr, rPipes, rGot, rRecv, rCancelled, rRet, faults, sHeld, torn>>
RDiffFin == /\ rDiff = "wait" /\ \A i \in Ids : rWr[i] \in {"none", "done"} /\ ~rCancelled
            /\ IF RCanSend THEN r2s' = Append(r2s, [t |-> "FIN"]) /\ rDiff' = "fin"
               ELSE IF RSendFails THEN UNCHANGED r2s /\ rDiff' = "fin" ELSE FALSE
            /\ UNCHANGED <<s2r, sWalk, sFiles, sPipe, sPipeClosed, sWk, sRecv, sCancelled, sRet, rI, rFiles, rQ, rQClosed, rWr, rPipes, rGot, rRecv, rCancelled, rRet, faults, sHeld, torn>>
RDiffAbort == /\ rDiff \in {"run", "wait"} /\ rCancelled
              /\ rDiff' = "err"
              /\ IF RCanSend THEN r2s' = Append(r2s, [t |-> "ERR"]) ELSE UNCHANGED r2s
              /\ UNCHANGED <<s2r, sWalk, sFiles, sPipe, sPipeClosed, sWk, sRecv, sCancelled, sRet, rI, rFiles, rQ, rQClosed, rWr, rPipes, rGot, rRecv, rCancelled, rRet, faults, sHeld, torn>>

RWriterReq(i) == /\ rWr[i] = "start" /\ ~rCancelled
                 /\ i \in rFiles
                 /\ RCanSend
                 /\ rFiles' = rFiles \ {i} /\ rPipes' = rPipes \cup {i}
                 /\ r2s' = Append(r2s, [t |-> "REQ", id |-> i])
                 /\ rWr' = [rWr EXCEPT ![i] = "wait"]
                 /\ UNCHANGED <<s2r, sWalk, sFiles, sPipe, sPipeClosed, sWk, sRecv, sCancelled, sRet, rI, rQ, rQClosed, rDiff, rGot, rRecv, rCancelled, rRet, faults, sHeld, torn>>
RWriterDone(i) == /\ rWr[i] = "closed"
                  /\ rWr' = [rWr EXCEPT ![i] = "done"] /\ rPipes' = rPipes \ {i}
                  /\ UNCHANGED <<s2r, r2s, sWalk, sFiles, sPipe, sPipeClosed, sWk, sRecv, sCancelled, sRet, rI, rFiles, rQ, rQClosed, rDiff, rGot, rRecv, rCancelled, rRet, faults, sHeld, torn>>
RWriterAbort(i) == /\ rWr[i] \in {"start", "wait"} /\ (rCancelled \/ (rWr[i] = "start" /\ RSendFails))
                   /\ rWr' = [rWr EXCEPT ![i] = "done"] /\ rCancelled' = TRUE
                   /\ UNCHANGED <<s2r, r2s, sWalk, sFiles, sPipe, sPipeClosed, sWk, sRecv, sCancelled, sRet, rI, rFiles, rQ, rQClosed, rDiff, rPipes, rGot, rRecv, rRet, faults, sHeld, torn>>

RReturn == /\ rRet = "none" /\ rRecv \in {"ok", "err"} /\ rDiff \in {"fin", "err"}
           /\ \A i \in Ids : rWr[i] \in {"none", "done"}
           /\ rRet' = IF rRecv = "ok" /\ rDiff = "fin" /\ ~rCancelled THEN "ok" ELSE "err"
           /\ UNCHANGED <<s2r, r2s, sWalk, sFiles, sPipe, sPipeClosed, sWk, sRecv, sCancelled, sRet, rI, rFiles, rQ, rQClosed, rDiff, rWr, rPipes, rGot, rRecv, rCancelled, faults, sHeld, torn>>
\* the errgroup: when recv loop failed, the diff side sees ctx cancelled and vice versa (already via rCancelled)

\* the environment tears the stream down (network loss, both call contexts cancelled); possible at any time
EnvTearDown == /\ ~torn /\ torn' = TRUE /\ sCancelled' = TRUE /\ rCancelled' = TRUE
               /\ UNCHANGED <<s2r, r2s, sWalk, sFiles, sPipe, sPipeClosed, sWk, sRecv, sRet, rI, rFiles, rQ, rQClosed, rDiff, rWr, rPipes, rGot, rRecv, rRet, faults, sHeld>>

Done == sRet # "none" /\ rRet # "none"
Terminated == Done /\ UNCHANGED vars

Next == \/ SWalkStat \/ SWalkEnd \/ SWalkAbort \/ SRecvMsg \/ SQueue \/ SRecvEOF \/ SReturn \/ EnvTearDown
        \/ \E w \in Workers : SWorkerTake(w) \/ SWorkerExit(w) \/ SWorkerSend(w) \/ SWorkerSendFail(w) \/ SWorkerReadErr(w) \/ SWorkerErrSend(w)
        \/ RRecvMsg \/ REOF \/ RDiffStep \/ RDiffEnd \/ RDiffFin \/ RDiffAbort \/ RReturn
        \/ \E i \in Ids : RWriterReq(i) \/ RWriterDone(i) \/ RWriterAbort(i)
        \/ Terminated

\* everything except the environment's teardown and the final stuttering
NextNoEnv == \/ SWalkStat \/ SWalkEnd \/ SWalkAbort \/ SRecvMsg \/ SQueue \/ SRecvEOF \/ SReturn
             \/ \E w \in Workers : SWorkerTake(w) \/ SWorkerExit(w) \/ SWorkerSend(w) \/ SWorkerSendFail(w) \/ SWorkerReadErr(w) \/ SWorkerErrSend(w)
             \/ RRecvMsg \/ REOF \/ RDiffStep \/ RDiffEnd \/ RDiffFin \/ RDiffAbort \/ RReturn
             \/ \E i \in Ids : RWriterReq(i) \/ RWriterDone(i) \/ RWriterAbort(i)

Spec == Init /\ [][Next]_vars /\ WF_vars(Next)

\* ---- properties ----
RecvOKImpliesComplete == rRet = "ok" => \A i \in NeedsData : rGot[i] = K /\ rWr[i] = "done"
SendOKImpliesFin == sRet = "ok" => rDiff = "fin"
NoDataOverrun == \A i \in Ids : rGot[i] <= K
BothTerminate == <>Done
\* after the teardown nobody may stay blocked: expressed as deadlock freedom (EnvTearDown is enabled in every earlier state)
\* two conforming peers never get stuck on their own: while the stream is intact and no call has returned with the other
\* still running, something other than the environment can always move (C08 / C11: no schedule needs the teardown)
ProgressWithoutEnvironment == (~torn /\ ~Done) => ENABLED NextNoEnv
TypeOK == sHeld \in -1..(N - 1) /\ torn \in BOOLEAN
====
