SPECIFICATION Spec
CONSTANTS TrackCreated = FALSE
 TrackRejected = FALSE
 RefuseBelow = FALSE
INVARIANT ContainedButKnown
CHECK_DEADLOCK FALSE
