"""C15  Copy onto existing content follows overlay rules and is idempotent."""
import copyfam

ASSUME = [
    "shared name universe {x, y} so that every type pair collides: each name absent / file / symlink / empty dir / dir with file / dir with dir, on both sides; request shapes: same name, same name with dir-contents, into root, whole tree, wildcard, trailing separator, nested missing destination, file onto other name, into existing name with separator, nested source; x always-replace",
    "symlinks in the destination path ARGUMENT are resolved within the destination root before placement (C14's rule); symlinks met inside the destination tree are replaced or conflict",
    "idempotence is not asserted for the two shapes where the statement's own placement rules make the repetition a different request: a source directory copied (not contents mode) to a destination that did not exist, and a symlink placed exactly at the destination argument",
    "when the reference says error only three things are judged: an error was returned, the obstacle is still in place with identity and bytes, nothing outside the destination root changed",
    "metadata of pre-existing directories that merge with a source directory is not compared (the statement is silent)",
]
PFX = {"C15"}


def _accept_conflict(evs):
    for e in evs:
        if e["kind"] == "overlay" and not e["ok"] and "cannot" in e.get("err", ""):
            e["ok"] = True
            return [e]
    return None


def _lose_unrelated(evs):
    for e in evs:
        if e["kind"] == "overlay" and e["ok"] and len(e["after"]) >= 2 and e["before"]:
            bp = {tuple(map(tuple, x["p"])): x for x in e["before"]}
            for x in e["after"]:
                k = tuple(map(tuple, x["p"]))
                if k in bp and bp[k]["ino"] == x["ino"] and x["t"] != "dir":
                    x["ino"] = "99"
                    return [e]
    return None


def _second_differs(evs):
    for e in evs:
        if e["kind"] == "overlay" and e["ok"] and e["second"]["ok"] and e["srcTop"]["t"] == "file":
            fs = [x for x in e["second"]["after"] if x["t"] == "file"]
            if fs:
                fs[0]["c"] = "0000000000000000:2"
                return [e]
    return None


def check(run):
    return copyfam.run(run, "C15", ["overlay"], PFX, ASSUME, [
        ("turn a reported dir-vs-non-dir conflict into success", _accept_conflict, 0),
        ("give an untouched unrelated destination entry another inode", _lose_unrelated, 0),
        ("change a file's bytes in the snapshot after the repeated copy", _second_differs, 0)])


def replay(run, path):
    return copyfam.replay(run, "C15", path, PFX, ASSUME)
