"""C20  Wire encoding and framing round-trip and never crash on arbitrary bytes."""
import json
import os

from vlib import confirm_by_replay, finish, selftest_corrupt, Inconclusive

ASSUME = [
    "TLC (spec/WireGen.tla) enumerates the value-class product of the Stat / Packet fields (11520 + 144 vectors) and every token string of the wire-format grammar up to the bound (27 token kinds: right/wrong wire types, varints of 1..11 bytes incl. overlong and overflowing, length prefixes exact/short/long/huge); the driver instantiates each and also cuts the last byte of each string",
    "'arbitrary bytes' is covered only on this grammar-bounded family (bounded exhaustive); no coverage-guided fuzzing is used (DESIGN.md section 7)",
    "allocation bound per decode: 8 x input length + 128 KiB (runtime.MemStats.TotalAlloc delta around both decoders)",
    "codec equality is judged with proto.Equal on the generated types; vtproto = MarshalVT/UnmarshalVT, generic runtime = google.golang.org/protobuf/proto",
    "the reader algorithm of util/protostream.go is model-checked in spec/FramingMC.tla for all message sequences <= 3 over body lengths 0..3 and all fragmentations (pool capacity 2, header length 2)",
]


EXPL = "C20.codecRoundTripOrInterop/explainedByUTF8Validation"


def _sig(evs, clauses):
    if set(clauses) <= {EXPL}:
        return "codec:generic-runtime-rejects-non-utf8-strings"
    return None


def _text(evs, clauses):
    e = dict(evs[0])
    for k in ("want", "got"):
        e.pop(k, None)
    return json.dumps(e)[:500]


def _round(evs):
    for e in evs:
        if e.get("ev") == "Round":
            e["vtpb"] = False
            return [e]
    return None


def _alias(evs):
    for e in evs:
        if e.get("ev") == "Frames" and len(e["recheck"]) >= 2:
            e["recheck"][0] = False
            return [e]
    return None


def _frames(evs):
    for e in evs:
        if e.get("ev") == "Frames" and len(e["got"]) >= 2 and e["got"][0] != e["got"][1]:
            e["got"][0], e["got"][1] = e["got"][1], e["got"][0]
            return [e]
    return None


def _panic(evs):
    for e in evs:
        if e.get("ev") == "Decode":
            e["vt"] = "panic"
            return [e]
    return None


def check(run):
    run.build()
    run.tlc_mc("FramingMC", "FramingMC.cfg", label="framing reader: all message sequences <= 3, all fragmentations, pooled buffer")
    ali = run.tlc_mc("FramingMC", "FramingMC_alias.cfg", label="sanity: aliasing decode must violate Stable", expect_error=True)
    if ali["ok"] or "Invariant Stable is violated" not in ali["out"]:
        raise Inconclusive("FramingMC sanity config (aliasing) was not rejected: the model is vacuous")
    gen = os.path.join(run.work, "gen")
    os.makedirs(gen)
    cfg = "WireGen_thorough.cfg" if run.thorough else "WireGen.cfg"
    g = run.tlc_mc("WireGen", cfg, workers=1, label="TLC enumerates value classes and token strings", env=dict(VERIF_GEN_DIR=gen))
    trace, st = run.drive("codec", env=dict(VERIF_GEN_DIR=gen), timeout=2400)
    tr = run.tlc_trace("WireTrace", trace)
    selftest_corrupt(run, "WireTrace", trace, _round, name="mark one cross-codec direction as unequal")
    selftest_corrupt(run, "WireTrace", trace, _alias, name="mark an earlier packet as changed after later reads")
    selftest_corrupt(run, "WireTrace", trace, _frames, name="swap two delivered packets")
    selftest_corrupt(run, "WireTrace", trace, _panic, name="mark one decode as panicking")
    fails = confirm_by_replay_codec(run, tr, gen)
    return finish(run, "model_checking", fails, assumptions=ASSUME)


def confirm_by_replay_codec(run, tr, gen):
    """the codec driver is deterministic: one full re-run confirms all failing cases by (event, key) identity"""
    import vlib
    if not tr["failed"]:
        return []
    t2, _ = run.drive("codec", name="codec-replay", env=dict(VERIF_GEN_DIR=gen), timeout=2400)
    r2 = run.tlc_trace("WireTrace", t2, record=False)
    again = {(f["case"], tuple(sorted(f["clauses"]))) for f in r2["failed"]}
    out = []
    for f in tr["failed"]:
        evs = vlib.case_events(tr, f["case"])
        out.append(dict(case=f["case"], clauses=set(f["clauses"]), events=evs, family="codec",
                        # several streams receiving at once is the one schedule-dependent case of this driver: a read-back that
                        # came out wrong in the recorded run is the witness, whether or not the re-run hits the same interleaving
                        confirmed=((f["case"], tuple(sorted(f["clauses"]))) in again) or set(f["clauses"]) == {"C20.concurrentStreamsCorruptEachOther"},
                        signature=_sig(evs, f["clauses"]), text=_text(evs, f["clauses"])))
    return out


def replay(run, path):
    return check(run)
