"""C13  Copy preserves the tree like cp -a, under every option combination."""
import copyfam

ASSUME = [
    "copy.Copy runs in a re-exec'd child chroot'ed into a throw-away jail (/srcroot, /dstroot, /outside), umask 0, as root on ext4",
    "symbolic modes are drawn from {u+x, go-w, a+X, a=rX, o-w, u=rwx,go=rx}; their reference semantics is spec/CopyRef!SymApply (chmod(1), umask 0); for '=' expressions only the nine permission bits are compared (whether they clear setuid/setgid/sticky is left open)",
    "permission bits of directories created above the target are not compared (only owner and timestamp are specified); atime is never compared",
    "the notifier may also be called for directories; it must be called exactly once for every non-directory written and never for a path that was not written",
]
PFX = {"C13"}


def _perm(evs):
    for e in evs:
        if e["kind"] == "fidelity" and e["ok"]:
            fs = [x for x in e["after"] if x["t"] == "file"]
            if fs:
                fs[0]["perm"] ^= 0o40
                return [e]
    return None


def _drop_note(evs):
    for e in evs:
        if e["kind"] == "fidelity" and e["ok"] and len(e["notes"]) >= 2:
            nd = {tuple(map(tuple, x["p"])) for x in e["after"] if x["t"] != "dir"}
            for i, n in enumerate(e["notes"]):
                if tuple(map(tuple, n)) in nd:
                    del e["notes"][i]
                    return [e]
    return None


def _split_group(evs):
    for e in evs:
        if e["kind"] == "fidelity" and e["ok"]:
            g = [x for x in e["after"] if x["t"] == "file" and x["g"] != 0]
            if len(g) >= 2:
                g[-1]["ino"] = "424242"
                return [e]
    return None


def check(run):
    return copyfam.run(run, "C13", ["fidelity"], PFX, ASSUME, [
        ("flip a permission bit of a copied file", _perm, 0),
        ("drop the notifier call of a copied non-directory", _drop_note, 0),
        ("give one member of a copied hard-link group its own inode", _split_group, 0)])


def replay(run, path):
    return copyfam.replay(run, "C13", path, PFX, ASSUME)
