"""C05  Change notifications mirror exactly what changed in dest, with true digests."""
import syncfam
from vlib import finish

ASSUME = [
    "model -> code conformance: the 28561 (old destination, source) pairs of spec/DiffMergeMC.tla are written by TLC with the changes the algorithm model emits and run as real transfers (quick: every 7th); the receiver must notify exactly those (kind, path) pairs - a regular file is always announced as add, deletes below a deleted path are optional",
    "ContentHasher is the harness's transparent recorder: its digest encodes (hash of the stat it was created for, length and hash of the bytes fed)",
    "histories as in C02 plus the (source, prior destination) cases of C01; seeded by VERIF_SEED",
    "deletes below an already reported deleted directory are permitted, only top-most deletes are required",
]


def _drop_note(evs):
    cur = []
    for e in evs:
        cur.append(e)
        if e["ev"] == "End":
            ns = [x for x in cur if x["ev"] == "Notify" and x["kind"] != "delete"]
            if ns and cur[0]["differ"] == "metadata" and cur[0]["mode"] == "dirty":
                cur.remove(ns[0])
                return cur
            cur = []
    return None


def _wrong_digest(evs):
    cur = []
    for e in evs:
        cur.append(e)
        if e["ev"] == "End":
            ns = [x for x in cur if x["ev"] == "Notify" and x["kind"] != "delete" and not x["bytes"].endswith(":0")]
            if ns:
                ns[0]["bytes"] = "0000000000000000:3"
                return cur
            cur = []
    return None


def _drop_delete(evs):
    cur = []
    for e in evs:
        cur.append(e)
        if e["ev"] == "End":
            ns = [x for x in cur if x["ev"] == "Notify" and x["kind"] == "delete"]
            if len(ns) == 1:
                cur.remove(ns[0])
                return cur
            cur = []
    return None


def check(run):
    run.build()
    from vlib import Inconclusive
    run.tlc_mc("DiffMergeMC", "DiffMergeMC.cfg", label="alg/doubleWalkDiff merge loop satisfies N1 N1fs N2 N4 N6 on all 28561 (old destination, source) pairs over names a, a-b (kinds: two files, directory, symlink to the sibling)")
    for cfg, inv, what in (("DiffMergeMC_nosep.cfg", "N1", "rmdir register without separator must be rejected"),
                           ("DiffMergeMC_rmdirfile.cfg", "N1fs", "rmdir register armed only for file replacements must delete through the new symlink")):
        r = run.tlc_mc("DiffMergeMC", cfg, label="sanity: " + what, expect_error=True)
        if "Invariant %s is violated" % inv not in r["out"]:
            raise Inconclusive("DiffMergeMC sanity configuration %s was not rejected: the model is vacuous" % cfg)
    # model -> code: TLC writes every (old destination, source) pair of the model with the changes the ALGORITHM model emits
    import os
    from vlib import model_disagreements, gate_model
    gen = os.path.join(run.work, "gen-diff")
    os.makedirs(gen, exist_ok=True)
    run.tlc_mc("DiffMergeMC", "DiffMergeMC_gen.cfg", workers=1, label="TLC enumerates the 28561 (old destination, source) pairs of DiffMergeMC with the changes the algorithm model emits (quick tier runs every 7th as a real transfer, thorough all)", env=dict(VERIF_GEN_DIR=gen), timeout=1800)
    n = len([f for f in os.listdir(gen) if f.startswith("diffcase_")])
    if n != 28561:
        raise Inconclusive("DiffMergeMC case generation wrote %d files, 28561 expected" % n)
    t1, _ = run.drive("sync", name="sync-hist", extra=["-what", "hist"])
    t2, _ = run.drive("sync", name="sync-pairs")
    # metadata-only transfers notify too: each selected entry / needed ancestor exactly once
    t3, _ = run.drive("sync", name="sync-metasmall", extra=["-what", "metasmall"])
    t4, _ = run.drive("sync", name="sync-diffmodel", extra=["-what", "diffmodel"], env=dict(VERIF_GEN_DIR=gen), timeout=3000)
    fails = []
    md = []
    for fam_extra, trace in ((["-what", "hist"], t1), (None, t2), (["-what", "metasmall"], t3), (["-what", "diffmodel"], t4)):
        tr_all = run.tlc_trace("SyncTrace", trace)
        md += model_disagreements(tr_all)
        if syncfam.harness_failures(tr_all):
            from vlib import Inconclusive
            raise Inconclusive("harness-level inconsistency: %s" % syncfam.harness_failures(tr_all)[:2])
        tr = syncfam.filter_prefix(tr_all, {"C05"})
        fails += syncfam.confirm_by_replay_prefixed(run, "sync", "SyncTrace", tr, {"C05"}, _sig, syncfam.text_default, fam_extra, witness=True)
    # binding self-tests corrupt an ACCEPTED trace; with violations on record the trace is not one (a corruption may even
    # repair the case it lands on), and the verdict does not need them
    if not any(f.get("signature") is None for f in fails):
        for nm, fn in (("drop one add/modify notification", _drop_note), ("corrupt the byte part of one digest", _wrong_digest),
                       ("drop the only delete notification of a case", _drop_delete)):
            syncfam.selftest_corrupt_prefixed(run, "SyncTrace", t1, fn, nm, {"C05"})
    gate_model(md, fails)
    return finish(run, "model_checking", fails, assumptions=ASSUME)


def _sig(evs, clauses):
    return syncfam.sig_default(evs, clauses)


def replay(run, path):
    run.build()
    import json
    d = json.load(open(path))
    ev0 = (d.get("events") or [d])[0]
    extra = ["-what", "metasmall"] if ev0.get("metaOnly") else (["-what", "hist"] if "step" in ev0 else None)
    t, _ = run.drive("sync", replay=path, extra=extra)
    tr = syncfam.filter_prefix(run.tlc_trace("SyncTrace", t, shards=1), {"C05"})
    fails = syncfam.confirm_by_replay_prefixed(run, "sync", "SyncTrace", tr, {"C05"}, _sig, syncfam.text_default, None)
    return finish(run, "model_checking", fails, assumptions=ASSUME)
