"""C16  Copy include/exclude selects exactly the reference set and creates no extra dirs."""
import copyfam

ASSUME = [
    "model -> code conformance: the pattern lists of spec/CopyFilterMC.tla (quick: the 580 single-pattern lists, thorough: all 7308) are written by TLC with the algorithm model's written set; the real copy into an empty destination must write exactly that set",
    "three-way comparison per case: paths written by copy.Copy (destination minus pre-existing entries) = naive reference filter of spec/FilterRef.tla over library hit matrices = paths reported by fsutil.Walk with the same patterns",
    "explanation test for the known finding as in C10: a copied set that equals the reference built from the library's incremental matcher is classified 'explainedByIncrementalMatcher'",
    "ancestors created on demand (not selected themselves) must carry the source directory's mode, owner and xattrs",
]
PFX = {"C16"}
EXPL = "C16.copiedSetDiffersFromReference/explainedByIncrementalMatcher"


def _sig(evs, clauses):
    if set(clauses) <= {EXPL}:
        return "copy-filter:incremental-matcher-differs-from-naive-verdict"
    return None


def _extra_dir(evs):
    for e in evs:
        if e["kind"] == "filter" and e["ok"] and 0 < len(e["after"]) and not e["before"]:
            x = dict(e["after"][-1])
            x["p"] = [[122, 122]]
            x["t"] = "dir"
            e["after"].append(x)
            return [e]
    return None


def _parent_mode(evs):
    for e in evs:
        if e["kind"] == "filter" and e["ok"] and not e["before"]:
            ds = [x for x in e["after"] if x["t"] == "dir"]
            if ds:
                ds[0]["perm"] = 0o755 if ds[0]["perm"] != 0o755 else 0o700
                # only meaningful if that directory was created on demand; try anyway, else next
                return [e]
    return None


def _mc(run):
    """algorithm layer: copy.go's per-entry decision with deferred parent directories, against the reference and the filtered walk"""
    from vlib import Inconclusive
    for cfg, lab in (("CopyFilterMC.cfg", "single patterns <= 3 segments, include list"), ("CopyFilterMC_exc.cfg", "single patterns <= 3 segments, exclude list"),
                     ("CopyFilterMC_pairs.cfg", "all lists of <= 2 patterns of <= 2 segments, include list"),
                     ("CopyFilterMC_pairs_exc.cfg", "all lists of <= 2 patterns of <= 2 segments, exclude list")):
        run.tlc_mc("CopyFilterMC", cfg, label="alg/copy with include / exclude: written set = reference (naive verdicts), only the matcher diverges, written set = filtered walk algorithm, "
                   "deferred directories only on demand, existing destination directories left alone; " + lab)
    r = run.tlc_mc("CopyFilterMC", "CopyFilterMC_existing.cfg", label="sanity: a deferred directory that already exists in the destination counts as included (seeded variant) must be rejected", expect_error=True)
    if "Invariant ExistingLeftAlone is violated" not in r["out"]:
        raise Inconclusive("CopyFilterMC sanity configuration was not rejected: the model is vacuous")
    # model -> code: TLC writes the pattern lists of the model (on the model's own tree) with the ALGORITHM model's written set
    import os
    gen = os.path.join(run.work, "gen-copy")
    os.makedirs(gen, exist_ok=True)
    cfgs = ["CopyFilterMC_gen.cfg", "CopyFilterMC_gen_exc.cfg"] + (["CopyFilterMC_gen_pairs.cfg", "CopyFilterMC_gen_pairs_exc.cfg"] if run.thorough else [])
    for cfg in cfgs:
        run.tlc_mc("CopyFilterMC", cfg, workers=1, label="TLC enumerates the pattern lists of CopyFilterMC with the algorithm model's written set (%s)" % cfg, env=dict(VERIF_GEN_DIR=gen))
    n = len([f for f in os.listdir(gen) if f.startswith("copycase_")])
    want = 7308 if run.thorough else 580
    if n != want:
        raise Inconclusive("CopyFilterMC case generation wrote %d files, %d expected" % (n, want))
    run.gen_copy = gen


def check(run):
    run.build()
    _mc(run)
    return copyfam.run(run, "C16", ["filter"], PFX, ASSUME, [
        ("add a directory that neither matches nor has a selected descendant", _extra_dir, 0)], sig=_sig, env=dict(VERIF_GEN_DIR=run.gen_copy))


def replay(run, path):
    return copyfam.replay(run, "C16", path, PFX, ASSUME, sig=_sig)
