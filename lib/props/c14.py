"""C14  Copy never writes outside the destination root nor reads outside the source root."""
import copyfam

ASSUME = [
    "jail layout /{srcroot, dstroot, outside/{o, od/x}}; the outside snapshot covers identity, mode, owner, mtime, ctime, xattrs and bytes of everything below /outside, the three top-level entries themselves (times of /dstroot excepted) and the names in the jail root",
    "symlink shapes: absolute to an outside file / directory, '..'-laden to an outside file / directory, dangling into outside, into a missing path below an outside directory, self-loop; positions: source tree, destination tree at the position of a source entry, source argument (as last and as middle component), destination argument (last component, middle component, with trailing separator), x follow-links x always-replace",
    "content provenance: no regular file in the destination root may carry the bytes of an outside sentinel",
    "the overlay and fidelity cases of C13/C15/C16 run in the same jail and are also judged by the C14 clauses",
]
PFX = {"C14"}


def _touch(evs):
    for e in evs:
        if e["outsideAfter"]:
            e["outsideAfter"][0]["ct"] = "7"
            return [e]
    return None


def _leak(evs):
    for e in evs:
        fs = [x for x in e["after"] if x["t"] == "file"]
        if fs:
            fs[0]["c"] = e["secrets"][0]
            return [e]
    return None


def check(run):
    return copyfam.run(run, "C14", ["contain", "overlay"], PFX, ASSUME, [
        ("change the ctime of an outside entry in the after-snapshot", _touch, 0),
        ("give a copied file the bytes of an outside sentinel", _leak, 0)])


def replay(run, path):
    return copyfam.replay(run, "C14", path, PFX, ASSUME)
