"""C17  Tar export round-trips the filesystem view."""
import json
import os

from vlib import confirm_by_replay, finish, selftest_corrupt

ASSUME = [
    "the view is what the walk of the same FS reports (C09 binds that to the disk); the bytes a member must carry are read from the materialised tree on disk, not through the view's own Open",
    "views assembled by SubDirFS over mount names that are string prefixes of one another (a, ab, a-b; the state space of spec/MountRouteMC.tla) are part of the fixed cases",
    "archive/tar is the trusted reader for parsed members (must reach EOF cleanly); a strict 512-byte block walk written in the harness (trusting every size field) must see the same member names and end in two zero blocks",
    "mtime 'to the second': the archive may hold floor or floor+1 (archive/tar rounds to the nearest second)",
    "extraction: GNU tar 1.34 -xp --xattrs --same-owner --numeric-owner as root on ext4, snapshot compared with the view (directory mtimes excluded, they change during extraction)",
]


def _text(evs, clauses):
    e = evs[0]
    try:
        i = json.loads(e["input"])
        return "tree=%s include=%s exclude=%s err=%s" % ([x["Type"][:3] + ":" + x["Path"][:24] for x in i["tree"]][:14], i.get("inc"), i.get("exc"), e.get("err"))
    except Exception:
        return ""


def _link_size(evs):
    for e in evs:
        if e.get("ev") == "Tar":
            ls = [m for m in e["members"] if m["flag"] == "1"]
            if ls:
                ls[0]["rawSize"] = "7"
                return [e]
    return None


def _no_slash(evs):
    for e in evs:
        if e.get("ev") == "Tar":
            ds = [m for m in e["members"] if m["flag"] == "5"]
            if ds:
                ds[0]["name"] = ds[0]["name"][:-1]
                return [e]
    return None


def _mtime(evs):
    for e in evs:
        if e.get("ev") == "Tar" and e["members"]:
            e["members"][0]["mtsec"] += 2
            return [e]
    return None


def _extract_bytes(evs):
    for e in evs:
        if e.get("ev") == "Tar" and e["extractedOK"]:
            fs = [x for x in e["extracted"] if x["t"] == "file" and x["c"] != "e3b0c44298fc1c14:0"]
            if fs:
                fs[0]["c"] = "0000000000000000:1"
                return [e]
    return None


def _mc(run):
    """algorithm layer: SubDirFS (mount names that are string prefixes of one another): Walk / Open agreement, link names"""
    from vlib import Inconclusive
    run.tlc_mc("MountRouteMC", "MountRouteMC.cfg", label="alg/SubDirFS: every reported file opens to exactly that file, hidden paths stay hidden, link names closed (all mount sets over a, ab, a-b, b x inner trees over x, b/x, -b/x)")
    r = run.tlc_mc("MountRouteMC", "MountRouteMC_byPrefix.cfg", label="sanity: routing Open by string prefix of the mount name (seeded variant) must be rejected", expect_error=True)
    if "Invariant OpenRoundTrip is violated" not in r["out"]:
        raise Inconclusive("MountRouteMC sanity configuration was not rejected: the model is vacuous")


def check(run):
    run.build()
    _mc(run)
    trace, st = run.drive("tar")
    tr = run.tlc_trace("WalkTrace", trace)
    tr["failed"] = [f for f in tr["failed"] if any(c.startswith("C17.") for c in f["clauses"])]
    selftest_corrupt(run, "WalkTrace", trace, _link_size, name="give a hard-link member a non-zero raw size field")
    selftest_corrupt(run, "WalkTrace", trace, _no_slash, name="drop the trailing slash of a directory member")
    selftest_corrupt(run, "WalkTrace", trace, _mtime, name="shift a member's mtime by two seconds")
    selftest_corrupt(run, "WalkTrace", trace, _extract_bytes, name="change the bytes of an extracted file")
    fails = confirm_by_replay(run, "tar", "WalkTrace", tr, text_fn=_text)
    return finish(run, "model_checking", fails, assumptions=ASSUME)


def replay(run, path):
    run.build()
    d = json.load(open(path))
    evs = d.get("events") or [d]
    rp = os.path.join(run.work, "rp.json")
    json.dump(evs[0], open(rp, "w"))
    t, _ = run.drive("tar", replay=rp)
    tr = run.tlc_trace("WalkTrace", t, shards=1)
    fails = confirm_by_replay(run, "tar", "WalkTrace", tr, text_fn=_text)
    return finish(run, "model_checking", fails, assumptions=ASSUME)
