"""C09  Walk lists every entry once, parents first, in protocol path order, true stats."""
import json
import os

from vlib import confirm_by_replay, finish, selftest_corrupt

ASSUME = [
    "trees are materialised on ext4 as root; the reference listing is the harness's own lstat/readlink/llistxattr snapshot sorted component-wise (TLC re-checks sortedness and parent-closure)",
    "sockets are outside the generators' domain; sizes are compared for regular files and symlinks, directories must report size 0",
    "SubDirFS: each sub-root gets the same tree; expected = sub-root entry followed by the prefixed sub-walk, absolute symlink targets re-rooted",
]


def _sig(evs, clauses):
    return None


def _text(evs, clauses):
    e = evs[0]
    return "api=%s err=%s entries=%d calls=%d" % (e.get("api"), e.get("err"), len(e.get("tree", [])), len(e.get("calls", [])))


def _swap(evs):
    for e in evs:
        if e.get("ev") == "Walk" and len(e["calls"]) >= 3 and not e["walkErr"]:
            e["calls"][0], e["calls"][1] = e["calls"][1], e["calls"][0]
            return [e]
    return None


def _wrong_link(evs):
    for e in evs:
        if e.get("ev") == "Walk" and not e["walkErr"]:
            ls = [c for c in e["calls"] if c["hl"]]
            if ls:
                ls[-1]["hl"] = ls[-1]["raw"]
                return [e]
    return None


def _mtime(evs):
    for e in evs:
        if e.get("ev") == "Walk" and e["calls"] and not e["walkErr"]:
            e["calls"][-1]["mt"] = "1"
            return [e]
    return None


def check(run):
    run.build()
    run.tlc_mc("OrderMC", "OrderMC.cfg", label="walk order = separator-lowest order = component-wise order; directory contents contiguous (triples, depth 2)")
    trace, st = run.drive("walk")
    tr = run.tlc_trace("WalkTrace", trace)
    tr["failed"] = [f for f in tr["failed"] if any(c.startswith("C09.") for c in f["clauses"])]
    selftest_corrupt(run, "WalkTrace", trace, _swap, name="swap the first two callbacks")
    selftest_corrupt(run, "WalkTrace", trace, _wrong_link, name="make a hard-link callback name itself instead of the first member")
    selftest_corrupt(run, "WalkTrace", trace, _mtime, name="change the mtime of one reported stat")
    fails = confirm_by_replay(run, "walk", "WalkTrace", tr, signature_fn=_sig, text_fn=_text)
    return finish(run, "model_checking", fails, assumptions=ASSUME)


def replay(run, path):
    run.build()
    d = json.load(open(path))
    evs = d.get("events") or [d]
    rp = os.path.join(run.work, "rp.json")
    json.dump(evs[0], open(rp, "w"))
    t, _ = run.drive("walk", replay=rp)
    tr = run.tlc_trace("WalkTrace", t, shards=1)
    fails = confirm_by_replay(run, "walk", "WalkTrace", tr, signature_fn=_sig, text_fn=_text)
    return finish(run, "model_checking", fails, assumptions=ASSUME)
