"""One module per property; each exposes check(run) and replay(run, path)."""
import importlib
import pkgutil

PROPS = {}
for m in pkgutil.iter_modules(__path__):
    if m.name.startswith("c") and m.name[1:].isdigit():
        PROPS[m.name.upper()] = importlib.import_module("props." + m.name)
