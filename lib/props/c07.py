"""C07  Receiver speaks the documented wire protocol to any conforming sender."""
import syncfam
from vlib import finish

ASSUME = [
    "the reference sender (harness/drivers/puppet.go) announces a synthetic view and answers requests with scripted chunking (1 byte .. 1 MiB), id interleaving, DATA racing the STAT stream, late end marker and early end of stream at a scripted position",
    "the content a view entry stands for is the concatenation of the payloads the reference sender emits for its id",
]
PFX = {"C07"}


def _unannounced(evs):
    cur = []
    for e in evs:
        cur.append(e)
        if e["ev"] == "End":
            rq = [x for x in cur if x["ev"] == "Pkt" and x.get("type") == "REQ"]
            if rq:
                rq[0]["id"] = 99999
                return cur
            cur = []
    return None


def _ok_after_early_eof(evs):
    cur = []
    for e in evs:
        cur.append(e)
        if e["ev"] == "End":
            rets = [x for x in cur if x["ev"] == "Return" and x["side"] == "R" and not x["ok"]]
            eofs = [x for x in cur if x["ev"] == "Dlv" and x["ep"] == "R" and x["eof"]]
            fins = [x for x in cur if x["ev"] == "Pkt" and x["ep"] == "R" and x.get("type") == "FIN"]
            if rets and eofs and not fins:
                rets[0]["ok"] = True
                return cur
            cur = []
    return None


def _stored_bytes(evs):
    cur = []
    for e in evs:
        cur.append(e)
        if e["ev"] == "End":
            rq = [x for x in cur if x["ev"] == "Pkt" and x.get("type") == "REQ"]
            oks = [x for x in cur if x["ev"] == "Return" and x["ok"]]
            if rq and len(oks) == 2 and cur[0]["mode"] == "dirty":
                for i, v in enumerate(e["vc"]):
                    if v != "none":
                        e["vc"][i] = "ffffffffffffffff:9"
                return cur
            cur = []
    return None


def check(run):
    return syncfam.run_family(run, "C07", "wire", PFX | {"C01"}, extra=["-what", "receiver"], name="wire-receiver", assumptions=ASSUME, witness=True, selftests=[
        ("relabel one REQ with an id that was never announced", _unannounced),
        ("turn the error return after an early end of stream into success", _ok_after_early_eof),
        ("claim different bytes for the payloads that were sent", _stored_bytes)])


def replay(run, path):
    run.build()
    t, _ = run.drive("wire", replay=path)
    tr = syncfam.filter_prefix(run.tlc_trace("SyncTrace", t, shards=1), PFX | {"C01"})
    fails = syncfam.confirm_by_replay_prefixed(run, "wire", "SyncTrace", tr, PFX | {"C01"}, syncfam.sig_default, syncfam.text_default, None)
    return finish(run, "model_checking", fails, assumptions=ASSUME)
