"""C12  Stream validator accepts exactly ordered, parent-closed, contained sequences."""
import json

from vlib import confirm_by_replay, finish, selftest_corrupt

ASSUME = [
    "paths are byte strings without NUL; names never contain '/'",
    "TLC bounded universes as stated in spec/OrderMC*.cfg and spec/ValidatorMC*.cfg",
    "random sequences are seeded by VERIF_SEED",
]


def _sig(evs, clauses):
    e = evs[0]
    if e.get("ev") == "Seq":
        raws = ["".join(chr(b) for b in c["raw"]) for c in e["changes"]]
        k = e["impl"]
        return "validator:impl=%d:first=%r" % (k, raws[0] if raws else "")
    return "order"


def _text(evs, clauses):
    e = evs[0]
    if e.get("ev") == "Seq":
        raws = ["".join(chr(b) for b in c["raw"]) + ("/" if c["isDir"] else "") + ":" + c["kind"] for c in e["changes"]]
        return "Validator first-reject index %d differs from the specification on %s" % (e["impl"], raws)
    return "ComparePath disagrees with the component-wise order"


def _corrupt(evs):
    # flip the recorded verdict of one non-trivial sequence
    for e in evs:
        if e.get("ev") == "Seq" and len(e["changes"]) >= 2 and e["impl"] == 0:
            e["impl"] = len(e["changes"])
            return [e]
    return None


def _corrupt_cmp(evs):
    for e in evs:
        if e.get("ev") == "Cmp" and e["sign"] == -1:
            e["sign"] = 1
            return [e]
    return None


def check(run):
    run.build()
    run.tlc_mc("OrderMC", "OrderMC.cfg", label="order axioms, triples, depth 2")
    run.tlc_mc("ValidatorMC", "ValidatorMC.cfg", label="alg/Validator implements abs/ValidStream, len<=6")
    if run.thorough:
        run.tlc_mc("OrderMC", "OrderMC_pairs3.cfg", label="order agreement, pairs, depth 3")
        run.tlc_mc("ValidatorMC", "ValidatorMC_thorough.cfg", label="alg/Validator implements abs/ValidStream, len<=8", timeout=1500)
    trace, st = run.drive("validator")
    tr = run.tlc_trace("ValidatorTrace", trace)
    selftest_corrupt(run, "ValidatorTrace", trace, _corrupt, name="flip the recorded verdict of an accepted sequence")
    selftest_corrupt(run, "ValidatorTrace", trace, _corrupt_cmp, name="flip the sign of one recorded ComparePath result")
    fails = confirm_by_replay(run, "validator", "ValidatorTrace", tr, signature_fn=_sig, text_fn=_text)
    return finish(run, "model_checking", fails, assumptions=ASSUME)


def replay(run, path):
    run.build()
    d = json.load(open(path))
    evs = d.get("events") or [d]
    import os
    rp = os.path.join(run.work, "rp.json")
    json.dump(evs[0], open(rp, "w"))
    t, _ = run.drive("validator", replay=rp)
    tr = run.tlc_trace("ValidatorTrace", t, shards=1)
    fails = confirm_by_replay(run, "validator", "ValidatorTrace", tr, signature_fn=_sig, text_fn=_text)
    return finish(run, "model_checking", fails, assumptions=ASSUME)
