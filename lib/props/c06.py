"""C06  Sender speaks the documented wire protocol to any conforming receiver."""
import syncfam
from vlib import finish

ASSUME = [
    "the reference receiver (harness/drivers/puppet.go) is written from the protocol description in receive.go's header; it always reads while it sends (as any real receiver does)",
    "requests for ids of hard-link members are not scripted as 'invalid' (the statement leaves them open)",
    "the stream endpoints decode into the message the caller passes without clearing it first (like the repository's test connection and the vtproto gRPC codec): fields the wire omits keep their previous value",
    "id numbering is judged against the STAT positions observed on the wire; DATA payloads against the bytes of the materialised source file at the running offset",
]
PFX = {"C06"}


def _bad_slice(evs):
    cur = []
    for e in evs:
        cur.append(e)
        if e["ev"] == "End":
            ds = [x for x in cur if x["ev"] == "Pkt" and x.get("type") == "DATA" and x["len"] > 0]
            if ds:
                ds[0]["sliceOK"] = False
                return cur
            cur = []
    return None


def _unrequested(evs):
    cur = []
    for e in evs:
        cur.append(e)
        if e["ev"] == "End":
            ds = [x for x in cur if x["ev"] == "Pkt" and x.get("type") == "DATA"]
            if ds:
                ds[0]["id"] = 987654
                return cur
            cur = []
    return None


def _no_end_marker(evs):
    cur = []
    for e in evs:
        cur.append(e)
        if e["ev"] == "End":
            ends = [x for x in cur if x["ev"] == "Pkt" and x.get("type") == "STAT" and x.get("end")]
            rets = [x for x in cur if x["ev"] == "Return" and x["side"] == "S" and x["ok"]]
            if ends and rets:
                i = cur.index(ends[0])
                # drop the end marker and its delivery (the first delivery to R after it)
                out = cur[:i] + cur[i + 1:]
                n_before = len([x for x in cur[:i] if x["ev"] == "Pkt" and x["ep"] == "S"])
                seen = 0
                for j, x in enumerate(out):
                    if x["ev"] == "Dlv" and x["ep"] == "R" and not x["eof"]:
                        if seen == n_before:
                            del out[j]
                            break
                        seen += 1
                return out
            cur = []
    return None


def _mc(run):
    """algorithm layer: the packet loops against a stream that decodes into the caller's message without clearing it"""
    from vlib import Inconclusive
    run.tlc_mc("DecodeIntoMC", "DecodeIntoMC.cfg", label="alg/packet loop of send.go (fresh packet per iteration) sees exactly what was sent, all message sequences <= 3 over type, id in 0..2")
    run.tlc_mc("DecodeIntoMC", "DecodeIntoMC_callerResets.cfg", label="alg/packet loop of receive.go (one packet, reset by the loop)")
    r = run.tlc_mc("DecodeIntoMC", "DecodeIntoMC_reuse.cfg", label="sanity: a loop that reuses its packet without resetting it (seeded variant) must be rejected", expect_error=True)
    if "Invariant Faithful is violated" not in r["out"]:
        raise Inconclusive("DecodeIntoMC sanity configuration was not rejected: the model is vacuous")
    run.tlc_mc("DecodeIntoMC", "DecodeIntoMC_reuseResettingStream.cfg", label="alg: the same loop behind a stream that clears the message passes - hence the harness endpoints do not clear it")


def check(run):
    return syncfam.run_family(run, "C06", "wire", PFX, extra=["-what", "sender"], name="wire-sender", assumptions=ASSUME, witness=True, mc=_mc, selftests=[
        ("mark one DATA payload as not matching the file slice", _bad_slice),
        ("relabel one DATA packet with an id that was never requested", _unrequested),
        ("remove the end-of-stats marker from a successful session", _no_end_marker)])


def replay(run, path):
    run.build()
    t, _ = run.drive("wire", replay=path)
    tr = syncfam.filter_prefix(run.tlc_trace("SyncTrace", t, shards=1), PFX)
    fails = syncfam.confirm_by_replay_prefixed(run, "wire", "SyncTrace", tr, PFX, syncfam.sig_default, syncfam.text_default, None)
    return finish(run, "model_checking", fails, assumptions=ASSUME)
