"""C18  Following links yields a terminating, closed, minimal include set."""
import json
import os

from vlib import confirm_by_replay, finish, selftest_corrupt

ASSUME = [
    "model -> code conformance: the 48600 (tree, request list) cases of spec/ResolverMC.tla (quick scope) are written by TLC with the algorithm model's result; the real FollowLinks must return exactly that list (quick tier: every 6th case)",
    "requests are clean relative paths (or the root); '..' is exercised in symlink targets, as the statement quantifies it",
    "the returned elements are include patterns: for request lists containing wildcards only termination, sortedness and containment among literal elements are judged",
    "'sorted' is accepted in byte order of the joined strings or in walk order",
    "FollowLinks runs in a child process with a 4 s watchdog and a 64 MiB stack limit: a timeout or a crash of the child (stack overflow) counts as non-termination of the case in flight",
    "end to end: a real transfer with the requests as follow-paths; every literal request that resolves inside the source must resolve to the same path, entry type and bytes in the destination (chroot-style resolver of spec/Trees.tla on both snapshots)",
    "explanation test for the known finding: a final location that is not covered although the request traverses a symlink that an earlier request already traversed is classified 'explainedByLinkMemoisation'",
]
EXPL = {"C18.finalLocationNotCovered/explainedByLinkMemoisation", "C18.rootReachedButListNotEmpty/explainedByLinkMemoisation",
        "C18.traversedSymlinkNotCovered/explainedByLinkMemoisation", "C18.requestResolvesDifferentlyAfterTransfer",
        "C18.wildcardExpansionResolvesDifferentlyAfterTransfer/explainedByLinkMemoisation"}
OVERDIR = "C18.wildcardExpansionResolvesDifferentlyAfterTransfer/explainedByWildcardOverDirectory"


def _sig(evs, clauses):
    cl = set(clauses)
    if cl == {OVERDIR}:
        return "follow:wildcard-over-directory-keeps-pattern"
    if cl - {OVERDIR} <= EXPL and any("explainedByLinkMemoisation" in c for c in cl):
        return "follow:link-memoisation-drops-final-location"
    return None


def _text(evs, clauses):
    e = evs[0]
    try:
        i = json.loads(e["input"])
        tr = [x["Type"][:3] + ":" + x["Path"] + ("->" + x["Link"] if x["Type"] == "symlink" else "") for x in i["tree"]]
        return "tree=%s requests=%s result=%s hang=%s crash=%s" % (tr[:16], i["reqs"], e.get("resultStr"), e.get("hang"), e.get("crash", "")[:100])
    except Exception:
        return ""


def _drop(evs):
    for e in evs:
        if e.get("ev") == "Follow" and len(e["result"]) >= 2 and all(not r["wild"] for r in e["reqs"]) and not e["hang"] and not e["isNil"]:
            r = e["result"]
            if any(a != b and a == b[:len(a)] for a in r for b in r):
                continue
            e["result"] = r[1:]
            e["resWild"] = e["resWild"][1:]
            return [e]
    return None


def _nested(evs):
    for e in evs:
        if e.get("ev") == "Follow" and e["result"] and not e["hang"] and not e["resWild"][0]:
            e["result"].insert(1, e["result"][0] + [[113]])
            e["resWild"].insert(1, False)
            return [e]
    return None


def _hang(evs):
    for e in evs:
        if e.get("ev") == "Follow" and not e["hang"]:
            e["hang"] = True
            return [e]
    return None


def _mc(run):
    """algorithm layer: the resolver loop + dedupePaths as a state machine over every tree x request list in scope,
    judged by the same FollowRef clauses as the recorded executions"""
    from vlib import Inconclusive
    cfg = "ResolverMC_thorough.cfg" if run.thorough else "ResolverMC.cfg"
    run.tlc_mc("ResolverMC", cfg, label="alg/Resolver (current code): terminates within the step bound; result satisfies FollowRef up to the recorded memoisation finding",
               timeout=2400, xmx="12g", xss="256m")
    run.tlc_mc("ResolverMC", "ResolverMC_dedupe.cfg", label="alg/Resolver dedupe scope (names a, a-b, a/b): no element inside another", xss="256m")
    for cfg, inv, what in (("ResolverMC_memofinal.cfg", "Terminates", "visited set consulted for the last component only (seeded variant) must not terminate"),
                           ("ResolverMC_dedupe_pinned.cfg", "ResultOK", "pinned dedupePaths (neighbour comparison) must leave a/b next to a"),
                           ("ResolverMC_witness.cfg", "NeverExplained", "the memoisation finding must exist at model level (non-vacuity of the explanation test)")):
        r = run.tlc_mc("ResolverMC", cfg, label="sanity: " + what, expect_error=True, xss="256m")
        if inv + " is violated" not in r["out"]:
            raise Inconclusive("ResolverMC sanity configuration %s was not rejected: the model is vacuous" % cfg)
    if run.thorough:
        # the pinned resolver cleaned paths as strings; the thorough scope has a target (a/../b) on which that must fail
        r = run.tlc_mc("ResolverMC", "ResolverMC_lexical.cfg", label="sanity: the pinned resolver (request, link name and joined path cleaned as strings) must be rejected in the thorough scope",
                       expect_error=True, timeout=2400, xmx="12g", xss="256m")
        if "ResultOK is violated" not in r["out"]:
            raise Inconclusive("ResolverMC_lexical.cfg was not rejected: the thorough scope no longer distinguishes lexical cleaning")


def check(run):
    run.build()
    _mc(run)
    # model -> code: TLC writes every (tree, request list) of the model with the result of the ALGORITHM model's run
    from vlib import Inconclusive, model_disagreements, gate_model, strip_model
    gen = os.path.join(run.work, "gen-follow")
    os.makedirs(gen, exist_ok=True)
    run.tlc_mc("ResolverMC", "ResolverMC_gen.cfg", workers=1, label="TLC enumerates the 48600 (tree, request list) cases of ResolverMC with the algorithm model's result (quick tier runs every 6th on the real FollowLinks, thorough all)", env=dict(VERIF_GEN_DIR=gen), timeout=1800)
    n = len([f for f in os.listdir(gen) if f.startswith("followcase_")])
    if n != 48600:
        raise Inconclusive("ResolverMC case generation wrote %d files, 48600 expected" % n)
    trace, st = run.drive("follow", env=dict(VERIF_GEN_DIR=gen), timeout=3000)
    tr = run.tlc_trace("WalkTrace", trace)
    md = model_disagreements(tr)
    tr["failed"] = strip_model(tr, "C18.")
    selftest_corrupt(run, "WalkTrace", trace, _drop, name="drop the last element of a returned list")
    selftest_corrupt(run, "WalkTrace", trace, _nested, name="insert an element that lies inside the first one")
    selftest_corrupt(run, "WalkTrace", trace, _hang, name="mark a case as not terminating")
    fails = confirm_by_replay(run, "follow", "WalkTrace", tr, signature_fn=_sig, text_fn=_text)
    gate_model(md, fails)
    return finish(run, "model_checking", fails, assumptions=ASSUME)


def replay(run, path):
    run.build()
    d = json.load(open(path))
    evs = d.get("events") or [d]
    rp = os.path.join(run.work, "rp.json")
    json.dump(evs[0], open(rp, "w"))
    t, _ = run.drive("follow", replay=rp)
    tr = run.tlc_trace("WalkTrace", t, shards=1)
    fails = confirm_by_replay(run, "follow", "WalkTrace", tr, signature_fn=_sig, text_fn=_text)
    return finish(run, "model_checking", fails, assumptions=ASSUME)
