"""C03  Receiver containment: an untrusted sender cannot touch anything outside dest."""
import json

import syncfam
from vlib import finish

ASSUME = [
    "the real Receive runs in a re-exec'd child chroot'ed into a throw-away jail /{outside/{o,od/x}, parent/{sibling, dest}}; the snapshot of everything "
    "outside dest covers inode, type, mode, owner, mtime, ctime, xattrs and bytes (for dest's own entry: everything but the times)",
    "hostile alphabet and prior destinations as listed in harness/drivers/hostile.go; all sequences up to the length bound plus seeded mutated walks",
    "'applied at or after the first offending element' is judged on clean paths that no earlier accepted element of the stream names",
    "a hostile sender that merely stalls the receiver (early FIN, withheld data) is outside C03 (containment), such cases end by the environment's teardown",
]
PFX = {"C03"}


EXPL = "C03.outsideTouched/explainedByEntryBelowRejectedDirectory"


def _sig(evs, clauses):
    if set(clauses) <= {EXPL}:
        return "filter:entry-below-rejected-directory-written-through-preexisting-symlink"
    return None


def _text(evs, clauses):
    b = evs[0]
    try:
        i = json.loads(b["input"])
        sc = [(p["t"], p.get("path"), p.get("kind"), p.get("link"), p.get("xattrs")) for p in i["script"]]
        dst = [x["Path"] + ("->" + x["Link"] if x.get("Link") else "") for x in (i["dst"] or [])]
    except Exception:
        sc, dst = "?", "?"
    rets = [(e["side"], e["ok"], e["err"][:60]) for e in evs if e["ev"] == "Return"]
    return "hostile script=%s priorDest=%s returns=%s" % (sc, dst, rets)


def _touch_outside(evs):
    cur = []
    for e in evs:
        cur.append(e)
        if e["ev"] == "End":
            if e.get("outsideAfter"):
                e["outsideAfter"][1]["ct"] = "1"
                return cur
            cur = []
    return None


def _accept_invalid(evs):
    cur = []
    for e in evs:
        cur.append(e)
        if e["ev"] == "End":
            st = [x for x in cur if x["ev"] == "Pkt" and x.get("type") == "STAT" and not x.get("end")]
            rets = [x for x in cur if x["ev"] == "Return" and x["side"] == "R" and not x["ok"]]
            if rets and st and any("".join(chr(b) for b in x["stat"]["raw"]) == ".." for x in st):
                rets[0]["ok"] = True
                return cur
            cur = []
    return None


META = ("sync", ["-what", "metasmall"], "sync-metasmall")


def _mc(run):
    """algorithm layer: which entries a hard link may name when the receiver does not create everything that is announced"""
    import os
    from vlib import Inconclusive
    run.tlc_mc("ReceiveLinksMC", "ReceiveLinksMC.cfg", label="alg/receive+diskwriter, hard links over listed-only / filter-rejected entries: contained but for the recorded finding (how x keep x merge x prior)")
    run.tlc_mc("ReceiveLinksMC", "ReceiveLinksMC_full.cfg", label="alg: with a DiskWriter that refuses to write below a skipped path (not in the tree) containment holds without exception")
    for cfg, inv, what in (("ReceiveLinksMC_asBuiltStrict.cfg", "Contained", "as built, strict containment: the recorded finding must show"),
                           ("ReceiveLinksMC_pinned.cfg", "ContainedButKnown", "pinned tree (neither repair)"),
                           ("ReceiveLinksMC_noCreated.cfg", "ContainedButKnown", "without the created-entries validator (77441fc)"),
                           ("ReceiveLinksMC_noRejected.cfg", "ContainedButKnown", "without the rejected-path check of DiskWriter (857f1db)")):
        r = run.tlc_mc("ReceiveLinksMC", cfg, label="sanity: " + what, expect_error=True)
        if "Invariant %s is violated" % inv not in r["out"]:
            raise Inconclusive("ReceiveLinksMC sanity configuration %s was not rejected: the model is vacuous" % cfg)
    gen = os.path.join(run.work, "gen")
    os.makedirs(gen, exist_ok=True)
    run.tlc_mc("ReceiveLinksMC", "ReceiveLinksMC_gen.cfg", workers=1, label="TLC enumerates the cases of ReceiveLinksMC for the hostile driver", env=dict(VERIF_GEN_DIR=gen))
    if len([f for f in os.listdir(gen) if f.startswith("linkcase_")]) != 102:
        raise Inconclusive("ReceiveLinksMC case generation wrote %d files, 102 expected" % len(os.listdir(gen)))
    run.gen_dir = gen


def check(run):
    # also: metadata-only transfers into destinations whose listing name is a symlink to a file outside (the listing is
    # the one file the receiver writes that no STAT announces)
    run.build()
    _mc(run)
    return syncfam.run_family(run, "C03", "hostile", PFX, sig=_sig, text=_text, assumptions=ASSUME, also=[META], env=dict(VERIF_GEN_DIR=run.gen_dir), selftests=[
        ("change the ctime of an outside file in the after-snapshot", _touch_outside),
        ("turn the rejection of a stream containing '..' into success", _accept_invalid)])


def replay(run, path):
    run.build()
    import json
    d = json.load(open(path))
    ev0 = (d.get("events") or [d])[0]
    if ev0.get("metaOnly"):
        t, _ = run.drive("sync", replay=path, extra=META[1])
        tr = syncfam.filter_prefix(run.tlc_trace("SyncTrace", t, shards=1), PFX)
        fails = syncfam.confirm_by_replay_prefixed(run, "sync", "SyncTrace", tr, PFX, _sig, _text, META[1])
        return finish(run, "model_checking", fails, assumptions=ASSUME)
    t, _ = run.drive("hostile", replay=path)
    tr = syncfam.filter_prefix(run.tlc_trace("SyncTrace", t, shards=1), PFX)
    fails = syncfam.confirm_by_replay_prefixed(run, "hostile", "SyncTrace", tr, PFX, _sig, _text, None)
    return finish(run, "model_checking", fails, assumptions=ASSUME)
