"""C19  Metadata-only transfer: full listing recorded, only selected files materialised."""
import json

import syncfam
from vlib import finish

ASSUME = [
    "model -> code conformance: the 387 (stream, selector) cases of spec/MetaStackMC.tla are written by TLC with the forwarded paths and recorded ids of the model's run; after the real transfer the destination holds exactly those paths and the ids on the wire are exactly those ids",
    "the selector is a path table closed under hard-link sources (the statement's precondition)",
    "the listing file is decoded by the harness (4-byte little-endian length + stat encoding, repeated, no trailing bytes) and each record is identified by a canonical hash of all stat fields; TLC compares the record sequence with the STAT log minus the top-level entry named .fsutil-metadata",
    "a single stat larger than a 32 KiB buffer chunk cannot be materialised on ext4 (xattr size limit): it is announced by the synthetic reference sender and left unselected",
]
PFX = {"C19"}


def _text(evs, clauses):
    b = evs[0]
    try:
        i = json.loads(b["input"])
        return "origin=%s puppet=%s selected=%s source=%s" % (i["origin"], i["puppet"], [p[:24] for p in i["selected"]][:10], [x["Path"][:24] for x in i["src"]][:14])
    except Exception:
        return ""


def _drop_record(evs):
    cur = []
    for e in evs:
        cur.append(e)
        if e["ev"] == "End":
            if e.get("listing") and len(e["listing"]["recs"]) >= 2 and all(x["ok"] for x in cur if x["ev"] == "Return"):
                e["listing"]["recs"] = e["listing"]["recs"][1:]
                return cur
            cur = []
    return None


def _swap_records(evs):
    cur = []
    for e in evs:
        cur.append(e)
        if e["ev"] == "End":
            r = (e.get("listing") or {}).get("recs") or []
            if len(r) >= 2 and r[0] != r[1] and all(x["ok"] for x in cur if x["ev"] == "Return"):
                r[0], r[1] = r[1], r[0]
                return cur
            cur = []
    return None


def _extra_entry(evs):
    # an unselected regular file shows up in the destination
    cur = []
    for e in evs:
        cur.append(e)
        if e["ev"] == "End":
            if e["after"] and all(x["ok"] for x in cur if x["ev"] == "Return"):
                x = dict(e["after"][-1])
                x["p"] = [[122, 122, 122, 122]]
                x["g"] = 0
                e["after"].append(x)
                return cur
            cur = []
    return None


def _mc(run):
    from vlib import Inconclusive
    run.tlc_mc("MetaStackMC", "MetaStackMC.cfg", label="alg/metadata-only replay logic: forwarded = projection (each once, in order), ids = STAT positions; all closed trees over six paths x all selectors")
    for cfg, inv in (("MetaStackMC_pinnedId.cfg", "IdsAreStatPositions"), ("MetaStackMC_pinnedFwd.cfg", "ForwardedIsProjection")):
        r = run.tlc_mc("MetaStackMC", cfg, label="sanity: pinned-tree defect must be rejected (%s)" % inv, expect_error=True)
        if inv + " is violated" not in r["out"]:
            raise Inconclusive("MetaStackMC sanity configuration %s was not rejected: the model is vacuous" % cfg)
    # model -> code: TLC writes every (stream, selector) of the model with what its run forwards and records
    import os
    gen = os.path.join(run.work, "gen-meta")
    os.makedirs(gen, exist_ok=True)
    run.tlc_mc("MetaStackMC", "MetaStackMC_gen.cfg", workers=1, label="TLC enumerates the 387 (stream, selector) cases of MetaStackMC for the metadata-only driver", env=dict(VERIF_GEN_DIR=gen))
    n = len([f for f in os.listdir(gen) if f.startswith("metacase_")])
    if n != 387:
        raise Inconclusive("MetaStackMC case generation wrote %d files, 387 expected" % n)
    run.gen_meta = gen


def check(run):
    run.build()
    _mc(run)
    return syncfam.run_family(run, "C19", "sync", PFX, env=dict(VERIF_GEN_DIR=run.gen_meta), extra=["-what", "meta"], name="sync-meta", text=_text, assumptions=ASSUME, selftests=[
        ("drop the first record of a decoded listing", _drop_record),
        ("swap the first two records of a decoded listing", _swap_records),
        ("add an unselected entry to the destination snapshot", _extra_entry)])


def replay(run, path):
    run.build()
    t, _ = run.drive("sync", replay=path, extra=["-what", "meta"])
    tr = syncfam.filter_prefix(run.tlc_trace("SyncTrace", t, shards=1), PFX)
    fails = syncfam.confirm_by_replay_prefixed(run, "sync", "SyncTrace", tr, PFX, syncfam.sig_default, _text, ["-what", "meta"])
    return finish(run, "model_checking", fails, assumptions=ASSUME)
