"""C01  Sync convergence: after a successful transfer dest equals the source view."""
import syncfam

ASSUME = [
    "receiver runs as root on ext4 (xattrs user./trusted., mknod, chown available)",
    "sockets, device majors >= 4096 and non-regular hard-link groups are outside the generators' domain",
    "two generated file versions with different bytes never share (size, mtime) (the metadata differ cannot tell them apart by design)",
    "model -> code conformance: the 42 (destination entry, incoming stat) pairs of spec/DiskWriterMC.tla are written by TLC with the outcome of the model's run and performed on the real DiskWriter (spec/DWTrace.tla compares)",
    "bounded universe: 49 trees over names a, a-b; random trees <= 40 entries, seeded by VERIF_SEED",
]


def _corrupt_after(evs):
    # flip one permission bit in the after-snapshot of a successful case
    cur = []
    for e in evs:
        cur.append(e)
        if e["ev"] == "End":
            if e["after"] and any(x["t"] == "file" for x in e["after"]) and cur[0].get("mode") == "dirty":
                for x in e["after"]:
                    if x["t"] == "file":
                        x["perm"] ^= 0o100
                        break
                return cur
            cur = []
    return None


def _corrupt_content(evs):
    cur = []
    for e in evs:
        cur.append(e)
        if e["ev"] == "End":
            fs = [x for x in e["after"] if x["t"] == "file"]
            if fs and cur[0].get("mode") == "dirty":
                fs[-1]["c"] = "0000000000000000:1"
                return cur
            cur = []
    return None


def _drop_entry(evs):
    cur = []
    for e in evs:
        cur.append(e)
        if e["ev"] == "End":
            if len(e["after"]) >= 2 and cur[0].get("mode") == "dirty" and e["after"][-1]["t"] != "dir":
                e["after"] = e["after"][:-1]
                return cur
            cur = []
    return None


def _mc(run):
    """algorithm layer: DiskWriter.HandleChange as a sequence of system calls, every (old entry, incoming stat) pair, every crash point"""
    from vlib import Inconclusive
    run.tlc_mc("DiskWriterMC", "DiskWriterMC.cfg", label="alg/DiskWriter.HandleChange: arrived, grouped, children gone, merged directory kept, nothing outside touched (in every intermediate state), no temporary left")
    for cfg, inv, what in (("DiskWriterMC_pinnedOrder.cfg", "Grouped", "pinned order of the type switch (device / fifo before the link name) must lose the group of a hard-linked fifo"),
                           ("DiskWriterMC_statFollows.cfg", "Arrived", "os.Stat instead of os.Lstat on the destination path (seeded variant) must be rejected")):
        r = run.tlc_mc("DiskWriterMC", cfg, label="sanity: " + what, expect_error=True)
        if "Invariant %s is violated" % inv not in r["out"]:
            raise Inconclusive("DiskWriterMC sanity configuration %s was not rejected: the model is vacuous" % cfg)


LOCAL = ("faults", ["-what", "local"], "faults-local")


def _dwcases(run):
    """model -> code: TLC writes every (destination entry, incoming stat) pair of DiskWriterMC with the model's outcome; the driver
    runs the real DiskWriter.HandleChange on each; DWTrace compares (and evaluates the model's invariants on the real outcome)"""
    import os
    from vlib import Inconclusive, confirm_by_replay
    gen = os.path.join(run.work, "gen-dw")
    os.makedirs(gen, exist_ok=True)
    run.tlc_mc("DiskWriterMC", "DiskWriterMC_gen.cfg", workers=1, label="TLC enumerates the 42 (old entry, incoming stat) pairs of DiskWriterMC with the outcome of the model's run", env=dict(VERIF_GEN_DIR=gen))
    n = len([f for f in os.listdir(gen) if f.startswith("dwcase_")])
    if n != 42:
        raise Inconclusive("DiskWriterMC case generation wrote %d files, 42 expected" % n)
    t, _ = run.drive("dwcases", env=dict(VERIF_GEN_DIR=gen))
    tr = run.tlc_trace("DWTrace", t, shards=1)
    if tr["lines"] != 42:
        raise Inconclusive("dwcases produced %d events, 42 expected" % tr["lines"])
    md = syncfam.model_disagreements(tr)
    tr = syncfam.filter_prefix(tr, {"C01"})
    fails = confirm_by_replay(run, "dwcases", "DWTrace", tr, text_fn=lambda evs, cl: "DiskWriter.HandleChange old=%s new=%s obs=%s" % (evs[0]["old"], evs[0]["new"], evs[0]["obs"]))
    return fails, md


def check(run):
    # also: small transfers with one fault that leaves the stream intact - success must still mean "equal to the source"
    return syncfam.run_family(run, "C01", "sync", {"C01"}, mc=_mc, assumptions=ASSUME, also=[LOCAL], witness=False, more=_dwcases, selftests=[
        ("flip a permission bit in the after-snapshot", _corrupt_after),
        ("change the content id of a stored file", _corrupt_content),
        ("drop the last entry of the after-snapshot", _drop_entry)])


def replay(run, path):
    import json, os
    from vlib import finish
    run.build()
    d = json.load(open(path))
    ev0 = (d.get("events") or [d])[0]
    if ev0.get("ev") == "DWCase":
        from vlib import confirm_by_replay
        t, _ = run.drive("dwcases", replay=path)
        tr = syncfam.filter_prefix(run.tlc_trace("DWTrace", t, shards=1), {"C01"})
        fails = confirm_by_replay(run, "dwcases", "DWTrace", tr)
        return finish(run, "model_checking", fails, assumptions=ASSUME)
    if "fault" in ev0:
        t, _ = run.drive("faults", replay=path, extra=LOCAL[1])
    else:
        t, _ = run.drive("sync", replay=path)
    tr = syncfam.filter_prefix(run.tlc_trace("SyncTrace", t, shards=1), {"C01"})
    fails = syncfam.confirm_by_replay_prefixed(run, "sync", "SyncTrace", tr, {"C01"}, syncfam.sig_default, syncfam.text_default, None)
    return finish(run, "model_checking", fails, assumptions=ASSUME)
