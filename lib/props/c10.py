"""C10  Filtered walk equals the unpruned reference filter; pruning is unobservable."""
import json
import os

from vlib import confirm_by_replay, finish, selftest_corrupt

ASSUME = [
    "model -> code conformance: the 7308 pattern lists of spec/FilterWalkMC.tla (single patterns <= 3 segments, lists of <= 2 patterns of <= 2 segments, as include and as exclude list, on the full depth-3 tree over a, ab) are written by TLC with the ALGORITHM model's output; the real walk must report exactly that",
    "single-pattern glob semantics are taken from moby/patternmatcher (outside the system under test) as a hit matrix 'pattern k alone, de-negated, matches entry i or an ancestor'; everything fsutil adds is specified in spec/FilterRef.tla",
    "map functions are pure functions of the path; decisions on directories are only generated without patterns (no lazily emitted ancestors), decisions on files and stat rewriting with any patterns",
    "explanation test for the known finding: a walk that differs from the naive reference but equals the reference built from the library's own incremental matcher (MatchesUsingParentResults chained over the FULL tree, no pruning) is classified 'explainedByIncrementalMatcher'; any other difference is a plain violation",
]
EXPL = "C10.walkDiffersFromNaiveReference/explainedByIncrementalMatcher"


def _sig(evs, clauses):
    if EXPL in clauses and len(clauses) == 1:
        return "filter:incremental-matcher-differs-from-naive-verdict"
    return None


def _text(evs, clauses):
    e = evs[0]
    calls = ["".join(chr(b) for b in c["raw"]) for c in e.get("calls", [])]
    return "include=%s exclude=%s reported=%s" % (e.get("incPats"), e.get("excPats"), calls[:20])


def _drop(evs):
    for e in evs:
        if e.get("ev") == "Filter" and len(e["calls"]) >= 2 and (e["incPats"] or e["excPats"]):
            e["calls"] = e["calls"][:-1]
            return [e]
    return None


def _extra(evs):
    # report an entry the filter hides
    for e in evs:
        if e.get("ev") == "Filter" and e["excPats"] and 0 < len(e["calls"]) < len(e["tree"]) and e["rewriteUid"] == 0:
            reported = {tuple(c["raw"]) for c in e["calls"]}
            for t in e["tree"]:
                raw = []
                for i, n in enumerate(t["p"]):
                    raw += ([47] if i else []) + n
                if tuple(raw) not in reported and len(t["p"]) == 1:
                    e["calls"].append(dict(raw=raw, uid=0))
                    e["calls"].sort(key=lambda c: [x if x != 47 else -1 for x in c["raw"]])
                    return [e]
    return None


def _no_rewrite(evs):
    for e in evs:
        if e.get("ev") == "Filter" and e["rewriteUid"] != 0 and e["calls"]:
            e["calls"][0]["uid"] = 0
            return [e]
    return None


def check(run):
    run.build()
    from vlib import Inconclusive
    for cfg, lab in (("FilterWalkMC.cfg", "single patterns <= 3 segments, include list"), ("FilterWalkMC_exc.cfg", "single patterns <= 3 segments, exclude list"),
                     ("FilterWalkMC_pairs.cfg", "all 3422 lists of <= 2 patterns of <= 2 segments, include list"),
                     ("FilterWalkMC_pairs_exc.cfg", "all 3422 lists of <= 2 patterns of <= 2 segments, exclude list")):
        run.tlc_mc("FilterWalkMC", cfg, label="alg/filterFS.Walk vs reference: pruning unobservable, only the matcher diverges; " + lab)
    r = run.tlc_mc("FilterWalkMC", "FilterWalkMC_pinned.cfg", label="sanity: pinned patternWithoutTrailingGlob (strips /** and /*) must be rejected", expect_error=True)
    if "PruningUnobservable is violated" not in r["out"]:
        raise Inconclusive("FilterWalkMC sanity configuration was not rejected: the model is vacuous")
    # model -> code: TLC writes every pattern list of the model (on the model's own tree) with the ALGORITHM model's output
    from vlib import model_disagreements, gate_model, strip_model
    gen = os.path.join(run.work, "gen-filter")
    os.makedirs(gen, exist_ok=True)
    for cfg in ("FilterWalkMC_gen.cfg", "FilterWalkMC_gen_exc.cfg", "FilterWalkMC_gen_pairs.cfg", "FilterWalkMC_gen_pairs_exc.cfg"):
        run.tlc_mc("FilterWalkMC", cfg, workers=1, label="TLC enumerates the pattern lists of FilterWalkMC with the algorithm model's output (%s)" % cfg, env=dict(VERIF_GEN_DIR=gen))
    n = len([f for f in os.listdir(gen) if f.startswith("filtercase_")])
    if n != 7308:
        raise Inconclusive("FilterWalkMC case generation wrote %d files, 7308 expected" % n)
    trace, st = run.drive("filter", env=dict(VERIF_GEN_DIR=gen))
    tr = run.tlc_trace("WalkTrace", trace)
    md = model_disagreements(tr)
    tr["failed"] = strip_model(tr, "C10.")
    selftest_corrupt(run, "WalkTrace", trace, _drop, name="drop the last reported entry of a filtered walk")
    selftest_corrupt(run, "WalkTrace", trace, _extra, name="report a hidden top-level entry")
    selftest_corrupt(run, "WalkTrace", trace, _no_rewrite, name="report an entry without the map function's stat rewrite")
    fails = confirm_by_replay(run, "filter", "WalkTrace", tr, signature_fn=_sig, text_fn=_text)
    gate_model(md, fails)
    return finish(run, "model_checking", fails, assumptions=ASSUME)


def replay(run, path):
    run.build()
    d = json.load(open(path))
    evs = d.get("events") or [d]
    rp = os.path.join(run.work, "rp.json")
    json.dump(evs[0], open(rp, "w"))
    t, _ = run.drive("filter", replay=rp)
    tr = run.tlc_trace("WalkTrace", t, shards=1)
    fails = confirm_by_replay(run, "filter", "WalkTrace", tr, signature_fn=_sig, text_fn=_text)
    return finish(run, "model_checking", fails, assumptions=ASSUME)
