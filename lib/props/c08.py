"""C08  Outcome is schedule-independent; stream calls are never made concurrently."""
import glob
import json
import os
import re

import syncfam
from vlib import finish, Inconclusive

ASSUME = [
    "schedules are induced by stream capacities 0..64, seeded per-operation delays before and after every stream operation, GOMAXPROCS in {1,2,4,16}; >= 12 multi-chunk files in flight",
    "outcome equality across schedules is decided by validating every schedule's execution against the same deterministic property-layer outcome (SyncOutcome/Notify), which leaves freedom only on the hard-link exception set",
    "the overlap detector sits inside the harness stream, behind fsutil's own syncStream lock",
    "'no data race' is a Go memory-model judgement: the specification supplies the schedules, the verdict for this clause comes from the Go race detector (reports with fsutil frames are injected as Race events)",
]
PFX = {"C08", "C01", "C02", "C05"}


def _overlap(evs):
    cur = []
    for e in evs:
        cur.append(e)
        if e["ev"] == "End":
            ds = [x for x in cur if x["ev"] == "Pkt" and x.get("type") == "DATA"]
            if ds:
                i = cur.index(ds[0])
                cur.insert(i, dict(ev="Overlap", ep="S", op="send", case=ds[0]["case"], seq=0))
                return cur
            cur = []
    return None


def _other_outcome(evs):
    # one schedule ends with different stored bytes
    cur = []
    for e in evs:
        cur.append(e)
        if e["ev"] == "End":
            fs = [x for x in e["after"] if x["t"] == "file" and x["c"] != "e3b0c44298fc1c14:0"]
            if fs:
                fs[0]["c"] = "1111111111111111:5"
                return cur
            cur = []
    return None


def _race_cases(run, logglob, first_case):
    """turn race detector reports that involve fsutil code into synthetic cases"""
    lines = []
    n = 0
    for f in glob.glob(logglob):
        txt = open(f, errors="replace").read()
        for blk in txt.split("=================="):
            if "DATA RACE" not in blk:
                continue
            if "github.com/tonistiigi/fsutil" not in blk:
                continue
            frames = [l.strip() for l in blk.splitlines() if "github.com/tonistiigi/fsutil" in l and "(" in l][:6]
            n += 1
            case = first_case + n
            lines.append(dict(ev="Begin", case=case, mode="dirty", differ="metadata", realS=True, realR=True, before=[], metaOnly=False,
                              origin="race-detector", input=json.dumps(dict(race=frames))))
            lines.append(dict(ev="Race", case=case, frames=frames))
            lines.append(dict(ev="End", case=case, after=[], vc=[]))
    return lines, n


def check(run):
    run.build()
    # all interleavings of the scaled-down protocol model: the success invariants hold under every schedule
    run.tlc_mc("Protocol", "Protocol.cfg" if run.thorough else "Protocol_quick.cfg", timeout=1500, xmx="12g",
               label="alg/Protocol: every interleaving of walk, workers, request loop, receive loop, diff, writers; recv ok => every needed file complete; two conforming peers never need the environment's teardown (ProgressWithoutEnvironment)")
    from vlib import Inconclusive
    r = run.tlc_mc("Protocol", "Protocol_writerlimit.cfg", expect_error=True,
                   label="sanity: a bound on the async writers (seeded variant) must get two conforming peers stuck under some schedule")
    if "Invariant ProgressWithoutEnvironment is violated" not in r["out"]:
        raise Inconclusive("Protocol_writerlimit.cfg was not rejected: the progress invariant is vacuous")
    race = run.build(race=True)
    racelog = os.path.join(run.work, "racelog")
    try:
        trace, st = run.drive("sync", name="sync-sched", extra=["-what", "sched"])
        t2, st2 = run.drive("sync", name="sync-sched-race", extra=["-what", "sched"], exe=race,
                            env=dict(VERIF_RACE="1", GORACE="log_path=%s halt_on_error=0 exitcode=0" % racelog), timeout=2400)
    except Inconclusive as ex:
        # the Go runtime aborts the whole process on an unsynchronised map access ("fatal error: concurrent map writes"):
        # with library frames on the faulting goroutine's stack that IS the data race, witnessed by the runtime itself
        err = getattr(ex, "stderr", "") or ""
        m = re.search(r"fatal error: concurrent map[^\n]*\n(?:.*\n){0,40}", err)
        if not m or "github.com/tonistiigi/fsutil." not in m.group(0):
            raise
        frames = [l.strip() for l in m.group(0).splitlines() if "tonistiigi/fsutil" in l][:6]
        tpath = os.path.join(run.work, "runtime-fatal.ndjson")
        evs = [dict(ev="Begin", case=1, mode="dirty", differ="metadata", realS=True, realR=True, before=[], metaOnly=False,
                    origin="runtime-fatal", input=json.dumps(dict(fatal=m.group(0).splitlines()[0], frames=frames))),
               dict(ev="Race", case=1, frames=frames), dict(ev="End", case=1, after=[], vc=[])]
        with open(tpath, "w") as fh:
            fh.write("\n".join(json.dumps(x, separators=(",", ":")) for x in evs) + "\n")
        tr = syncfam.filter_prefix(run.tlc_trace("SyncTrace", tpath, shards=1), PFX)
        run.notes.append("the driver process was aborted by the Go runtime: %s" % m.group(0).splitlines()[0])
        fails = [dict(case=f["case"], clauses=sorted(f["clauses"]), events=evs, confirmed=True, signature=None,
                      text="runtime abort: %s; library frames: %s" % (m.group(0).splitlines()[0], frames)) for f in tr["failed"]]
        return finish(run, "model_checking", fails, assumptions=ASSUME)
    # merge: renumber the race run's cases after the first run's
    l1 = open(trace).read().splitlines()
    maxcase = max(int(m) for m in re.findall(r'"case":(\d+)', "\n".join(l1[-50:]) or '"case":0'))
    l2 = []
    for ln in open(t2).read().splitlines():
        e = json.loads(ln)
        e["case"] += maxcase
        l2.append(json.dumps(e, separators=(",", ":")))
    maxcase2 = maxcase + (json.loads(l2[-1])["case"] - maxcase if l2 else 0)
    rl, nrace = _race_cases(run, racelog + ".*", maxcase2)
    merged = trace + ".merged"
    with open(merged, "w") as fh:
        fh.write("\n".join(l1 + l2 + [json.dumps(x, separators=(",", ":")) for x in rl]) + "\n")
    run.notes.append("race detector build: %d schedules executed, %d report(s) involving fsutil frames" % (st2.get("evaluations", 0), nrace))
    tr_all = run.tlc_trace("SyncTrace", merged)
    if syncfam.harness_failures(tr_all):
        raise Inconclusive("harness-level inconsistency: %s" % syncfam.harness_failures(tr_all)[:2])
    tr = syncfam.filter_prefix(tr_all, PFX)
    syncfam.selftest_corrupt_prefixed(run, "SyncTrace", trace, _overlap, "insert an Overlap event (two SendMsg in flight)", PFX)
    syncfam.selftest_corrupt_prefixed(run, "SyncTrace", trace, _other_outcome, "make one schedule end with different stored bytes", PFX)
    fails = syncfam.confirm_by_replay_prefixed(run, "sync", "SyncTrace", tr, PFX, syncfam.sig_default, syncfam.text_default, None, witness=True)
    return finish(run, "model_checking", fails, assumptions=ASSUME,
                  coverage_extra=dict(race_detector_reports_with_fsutil_frames=nrace))


def replay(run, path):
    run.build()
    t, _ = run.drive("sync", replay=path)
    tr = syncfam.filter_prefix(run.tlc_trace("SyncTrace", t, shards=1), PFX)
    fails = syncfam.confirm_by_replay_prefixed(run, "sync", "SyncTrace", tr, PFX, syncfam.sig_default, syncfam.text_default, None, witness=True)
    return finish(run, "model_checking", fails, assumptions=ASSUME)
