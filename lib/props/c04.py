"""C04  Faults: both ends terminate, success is never reported for a partial tree."""
import syncfam
from vlib import finish

ASSUME = [
    "termination is demanded once the stream is torn down (the statement's precondition): when nothing has moved for 2.5 s and a call has not "
    "returned, the harness tears the stream down (break + cancellation of stream and call contexts) and then demands return within another "
    "2.5 s of inactivity; a hang is confirmed by two goroutine dumps 1.5 s apart showing the same fsutil frames",
    "stream operation faults break the whole stream (both directions) from that operation on; cancellation cancels the call's context and the stream's context of that side",
    "SIGKILL: the receiver runs as a child process over real pipes (util.NewProtoStream) and is killed after the sender's k-th SendMsg; the packet-level monitor does not see inside that run, only its outcome (Killed event) and the follow-up transfer",
]
PFX = {"C04", "C01"}


def _sig(evs, clauses):
    b = evs[0]
    if "C04.hang" in clauses:
        hs = [e for e in evs if e["ev"] == "Hang"]
        fr = " | ".join(sorted({f.split(" < ")[0] + "<" + (f.split(" < ")[1] if " < " in f else "") for h in hs for f in h.get("frames", [])}))
        return "hang:%s" % fr
    return None


def _text(evs, clauses):
    b = evs[0]
    rets = [(e["side"], e["ok"], e["err"][:80]) for e in evs if e["ev"] == "Return"]
    hs = [f for e in evs if e["ev"] == "Hang" for f in e.get("frames", [])][:4]
    return "scenario=%s fault=%s@%s returns=%s hangFrames=%s" % (b.get("origin"), b.get("fault"), b.get("k"), rets, hs)


def _ok_without_fin(evs):
    cur = []
    for e in evs:
        cur.append(e)
        if e["ev"] == "End":
            rets = [x for x in cur if x["ev"] == "Return" and x["side"] == "S" and not x["ok"]]
            if rets and cur[0].get("fault") not in (None, "none"):
                rets[0]["ok"] = True
                return cur
            cur = []
    return None


def _recv_ok_partial(evs):
    cur = []
    for e in evs:
        cur.append(e)
        if e["ev"] == "End":
            rets = [x for x in cur if x["ev"] == "Return" and x["side"] == "R" and not x["ok"]]
            fins = [x for x in cur if x["ev"] == "Pkt" and x["ep"] == "R" and x.get("type") == "FIN"]
            if rets and not fins and cur[0].get("fault") not in (None, "none"):
                rets[0]["ok"] = True
                return cur
            cur = []
    return None


def _mc(run):
    """algorithm-layer protocol model: deadlock freedom after teardown + success invariants, all interleavings"""
    from vlib import Inconclusive
    cfg = "Protocol.cfg" if run.thorough else "Protocol_quick.cfg"
    run.tlc_mc("Protocol", cfg, label="alg/Protocol (current code): no deadlock after environment teardown; recv ok => complete; send ok => FIN", timeout=1500, xmx="12g")
    r = run.tlc_mc("Protocol", "Protocol_pinned.cfg", label="sanity: pinned queue() without ctx must deadlock in state queue", expect_error=True)
    if "Deadlock reached" not in r["out"] or 'sRecv = "queue"' not in r["out"]:
        raise Inconclusive("Protocol_pinned.cfg did not produce the queue deadlock: the protocol model is vacuous")


def check(run):
    return syncfam.run_family(run, "C04", "faults", PFX, mc=_mc, sig=_sig, text=_text, assumptions=ASSUME, level="fault_enumeration", witness=True,
                              drive_timeout=2400, selftests=[
        ("turn a failed Send after a fault into success", _ok_without_fin),
        ("turn a failed Receive without FIN into success", _recv_ok_partial)])


def replay(run, path):
    run.build()
    t, _ = run.drive("faults", replay=path)
    tr = syncfam.filter_prefix(run.tlc_trace("SyncTrace", t, shards=1), PFX)
    fails = syncfam.confirm_by_replay_prefixed(run, "faults", "SyncTrace", tr, PFX, _sig, _text, None)
    return finish(run, "fault_enumeration", fails, assumptions=ASSUME)
