"""C02  Incremental minimality: only entries whose identity changed are re-transferred."""
import syncfam
from vlib import finish

ASSUME = [
    "histories: random initial tree (<= 25 entries) and 1..3 random source mutations per step, a sync after each step into the same destination; seeded by VERIF_SEED",
    "identity = (type, mode, uid, gid, link target / hard-link name, device numbers) plus (size, mtime) for non-directories",
    "the hard-link timing exception of the statement is modelled as an explicit set (SyncOutcome!Exception); both outcomes are accepted for its members",
]


def _drop_req(evs):
    # remove one REQ (and nothing else) from a case that requested at least two files:
    # the request set is then smaller than Needed
    cur = []
    for e in evs:
        cur.append(e)
        if e["ev"] == "End":
            reqs = [x for x in cur if x["ev"] == "Pkt" and x.get("type") == "REQ"]
            rets = [x for x in cur if x["ev"] == "Return" and x["ok"]]
            if len(reqs) >= 2 and len(rets) == 2 and cur[0]["differ"] == "metadata":
                victim = reqs[-1]
                out, dropped_dlv = [], False
                nS = 0
                for x in cur:
                    if x is victim:
                        continue
                    out.append(x)
                # drop the last delivery to S so that pipe bookkeeping stays consistent
                for i in range(len(out) - 1, -1, -1):
                    if out[i]["ev"] == "Dlv" and out[i]["ep"] == "S" and not out[i]["eof"]:
                        del out[i]
                        break
                return out
            cur = []
    return None


def _fake_inode(evs):
    cur = []
    for e in evs:
        cur.append(e)
        if e["ev"] == "End":
            b = {tuple(map(tuple, x["p"])): x for x in cur[0]["before"]}
            for x in e["after"]:
                k = tuple(map(tuple, x["p"]))
                if k in b and b[k]["ino"] == x["ino"] and x["t"] == "file" and cur[0]["differ"] == "metadata":
                    x["ino"] = "1"
                    return cur
            cur = []
    return None


def check(run):
    return syncfam.run_family(run, "C02", "sync", {"C02"}, extra=["-what", "hist"], name="sync-hist", assumptions=ASSUME, selftests=[
        ("drop one content request from the packet log", _drop_req),
        ("change the inode of an untouched file in the after-snapshot", _fake_inode)])


def replay(run, path):
    run.build()
    t, _ = run.drive("sync", replay=path)
    tr = syncfam.filter_prefix(run.tlc_trace("SyncTrace", t, shards=1), {"C02"})
    fails = syncfam.confirm_by_replay_prefixed(run, "sync", "SyncTrace", tr, {"C02"}, syncfam.sig_default, syncfam.text_default, None)
    return finish(run, "model_checking", fails, assumptions=ASSUME)
