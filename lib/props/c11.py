"""C11  A filtered view transfers as a self-contained tree."""
import json

import syncfam
from vlib import finish

ASSUME = [
    "model -> code conformance: the 12636 (inode partition of 5 files, reported / hidden / pruned vector) cases of spec/HardlinkMC.tla are written by TLC with the stream of the model's run; NewFS -> NewFilterFS -> WithHardlinkReset is walked over real files for each and must name exactly those links",
    "filter stacks: 1-2 NewFilterFS layers (include, exclude, follow-paths) over NewFS of a materialised tree with hard-link groups spread over directories; real Send -> real Receive into an empty destination",
    "Open is probed through the same filtered view for every regular file of the unfiltered tree (pattern-only stacks): it must succeed with the file's bytes exactly for the reported regular files",
    "explanation test for the known finding: a mismatch at a path where (or below a directory where) the library's incremental and plain matchers disagree is classified 'explainedByIncrementalMatcher'",
]
PFX = {"C11", "C01"}
EXPL = {"C11.openDisagreesWithWalk/explainedByIncrementalMatcher", "C11.filteredTransferFailed/explainedByIncrementalMatcher",
        "C11.viewDiffersFromNaiveReference/explainedByIncrementalMatcher"}


def _sig(evs, clauses):
    if set(clauses) <= EXPL:
        return "filtered:incremental-matcher-differs-from-naive-verdict"
    return None


def _text(evs, clauses):
    b = evs[0]
    try:
        i = json.loads(b["input"])
        return "stack=%s tree=%s" % (i["stack"], [x["Path"] for x in i["src"]][:20])
    except Exception:
        return ""


def _link_to_self(evs):
    cur = []
    for e in evs:
        cur.append(e)
        if e["ev"] == "End":
            ls = [x for x in cur if x["ev"] == "Pkt" and x.get("type") == "STAT" and not x.get("end") and x["stat"]["hl"]]
            if ls:
                ls[0]["stat"]["hl"] = [122, 122, 122]
                return cur
            cur = []
    return None


def _open_hidden(evs):
    cur = []
    for e in evs:
        cur.append(e)
        if e["ev"] == "End":
            os_ = [x for x in cur if x["ev"] == "Open" and not x["ok"]]
            if os_ and cur[0].get("patternOnly") and not cur[0].get("selDiff"):
                os_[0]["ok"] = True
                os_[0]["c"] = os_[0]["want"]
                return cur
            cur = []
    return None


def _promoted_keeps_link(evs):
    # a reported first member of a straddling group still carries a link name
    cur = []
    for e in evs:
        cur.append(e)
        if e["ev"] == "End":
            st = [x for x in cur if x["ev"] == "Pkt" and x.get("type") == "STAT" and not x.get("end")]
            src = {tuple(map(tuple, x["p"])): x for x in cur[0].get("src", [])}
            for x in st:
                raw = x["stat"]["raw"]
                key, curc = [], []
                for b in raw:
                    if b == 47:
                        key.append(tuple(curc)); curc = []
                    else:
                        curc.append(b)
                key.append(tuple(curc))
                s = src.get(tuple(key))
                if s and s["t"] == "file" and s["g"] != 0 and not x["stat"]["hl"]:
                    x["stat"]["hl"] = [113]
                    return cur
            cur = []
    return None


def _mc(run):
    """algorithm layer: link names through walker -> filter -> WithHardlinkReset -> receiver's Hardlinks validator"""
    from vlib import Inconclusive
    run.tlc_mc("HardlinkMC", "HardlinkMC_thorough.cfg" if run.thorough else "HardlinkMC.cfg",
               label="alg/hard-link names: reset rule + validator acceptance for every inode partition of N files x {reported, hidden, pruned}^N")
    for cfg, inv, what in (("HardlinkMC_overwrite.cfg", "ResetRule", "map entry rewritten on every member (seeded variant) must break the reset rule"),
                           ("HardlinkMC_noreset.cfg", "ValidatorAccepts", "a filtered stack without WithHardlinkReset must produce a stream the validator rejects")):
        r = run.tlc_mc("HardlinkMC", cfg, label="sanity: " + what, expect_error=True)
        if "Invariant %s is violated" % inv not in r["out"]:
            raise Inconclusive("HardlinkMC sanity configuration %s was not rejected: the model is vacuous" % cfg)


def _hlcases(run):
    """model -> code: TLC writes every (inode partition, status vector) of HardlinkMC with the stream the algorithm model ends in; the
    driver walks NewFS -> NewFilterFS -> WithHardlinkReset over real files; WalkTrace judges the reset rule and compares"""
    import os
    from vlib import Inconclusive, confirm_by_replay, model_disagreements, strip_model
    gen = os.path.join(run.work, "gen-hl")
    os.makedirs(gen, exist_ok=True)
    run.tlc_mc("HardlinkMC", "HardlinkMC_gen.cfg", workers=1, label="TLC enumerates the 12636 (inode partition, status vector) cases of HardlinkMC (N = 5) with the stream of the model's run", env=dict(VERIF_GEN_DIR=gen))
    n = len([f for f in os.listdir(gen) if f.startswith("hlcase_")])
    if n != 12636:
        raise Inconclusive("HardlinkMC case generation wrote %d files, 12636 expected" % n)
    t, _ = run.drive("hlcases", env=dict(VERIF_GEN_DIR=gen))
    tr = run.tlc_trace("WalkTrace", t)
    if tr["lines"] != 12636:
        raise Inconclusive("hlcases produced %d events, 12636 expected" % tr["lines"])
    md = model_disagreements(tr)
    tr["failed"] = strip_model(tr, "C11.")
    fails = confirm_by_replay(run, "hlcases", "WalkTrace", tr, text_fn=lambda evs, cl: "hard-link names grp=%s st=%s real=%s" % (evs[0]["grp"], evs[0]["st"], evs[0]["real"]))
    return fails, md


def check(run):
    return syncfam.run_family(run, "C11", "sync", PFX, mc=_mc, extra=["-what", "filtered"], name="sync-filtered", sig=_sig, text=_text, more=_hlcases,
                              assumptions=ASSUME, selftests=[
        ("make a link entry name a path that was never sent", _link_to_self),
        ("let Open succeed for a file the filter hides", _open_hidden),
        ("give the first reported member of a hard-link group a link name", _promoted_keeps_link)])


def replay(run, path):
    run.build()
    import json as _json
    d0 = _json.load(open(path))
    if ((d0.get("events") or [d0])[0]).get("ev") == "HLCase":
        from vlib import confirm_by_replay, strip_model
        t, _ = run.drive("hlcases", replay=path)
        tr = run.tlc_trace("WalkTrace", t, shards=1)
        tr["failed"] = strip_model(tr, "C11.")
        return finish(run, "model_checking", confirm_by_replay(run, "hlcases", "WalkTrace", tr), assumptions=ASSUME)
    t, _ = run.drive("sync", replay=path, extra=["-what", "filtered"])
    tr = syncfam.filter_prefix(run.tlc_trace("SyncTrace", t, shards=1), PFX)
    fails = syncfam.confirm_by_replay_prefixed(run, "sync", "SyncTrace", tr, PFX, _sig, _text, ["-what", "filtered"])
    return finish(run, "model_checking", fails, assumptions=ASSUME)
