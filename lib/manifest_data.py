"""Source of MANIFEST.json (bin/mkmanifest).  Only properties whose quick and
thorough checks pass on the unchanged tree with several seeds are CLAIMED."""

HOOK_COMMITS = []
NOTES = ("Model-based verification with explicit TLA+ specifications (spec/*.tla). Every verdict is issued by TLC: "
         "bounded-exhaustive model checking of the property/algorithm layers, plus validation of executions recorded "
         "from the real code (harness/cmd/vdrive, built from /repo's working tree with -tags verif) against the "
         "property layer. See DESIGN.md. known_findings.json lists fixed and known genuine defects.")
DEFAULT_NA = "check not built yet in this round (planned in DESIGN.md section 6); not claimed until its quick and thorough commands pass on the unchanged tree"
NOT_APPLICABLE = {}


_SYNC_NOTE = ("Trusted: TLC; the harness stream (hstream) and snapshotter (own lstat/readlink/llistxattr code); ext4 as root; "
              "generators' domain (no sockets; device numbers up to 12-bit majors and 20-bit minors; hard-link groups of regular files, "
              "fifos and device nodes; xattrs user.*, trusted.*, security.capability; short-read and slow sources; rewriting and rejecting "
              "receiver Filters); bounded universes and seeded random cases.")

CLAIMED = {
    "C01": dict(
        text="Real Send and Receive are run against each other over an instrumented in-memory stream for every (source tree, prior "
             "destination) pair of a bounded universe and for seeded random trees (all entry types, hard-link groups, xattrs, sizes around the "
             "32KiB chunk, names sorting differently bytewise vs path-wise) in dirty and merge mode; TLC validates each recorded execution "
             "against the property-layer predicates Converged / Overlay of spec/SyncOutcome.tla evaluated on independent snapshots and the STAT log. Model -> code: the 42 (destination entry, incoming stat) pairs of spec/DiskWriterMC.tla are written by TLC with the outcome of the model's run and performed on the real DiskWriter (spec/DWTrace.tla compares and evaluates the model's invariants on the real outcome).",
        design_ref="DESIGN.md section 6 C01",
        note=_SYNC_NOTE,
        technique="TLA+ property layer (SyncOutcome, SyncTrace) + TLC trace validation of real Send/Receive executions"),
    "C02": dict(
        text="Edit histories (random initial tree, random source mutations of every kind between consecutive syncs, unchanged re-syncs, "
             "differ metadata/none) are synced step by step into the same destination with the real code; TLC checks for every step that the "
             "set of REQ ids on the wire equals Needed (up to the explicit hard-link exception set), that every identity-unchanged entry kept "
             "inode and bytes, and that a re-sync of an unchanged source is silent.",
        design_ref="DESIGN.md section 6 C02",
        note=_SYNC_NOTE,
        technique="TLA+ property layer (SyncOutcome: Changed/Needed/Exception/Kept) + TLC trace validation of real sync histories"),
    "C03": dict(
        text="Every packet sequence up to the bound over a hostile alphabet ('..', '.', '', 'a/../..', absolute, 'a//b', backslash, duplicates, "
             "unordered, children of files and of symlinks, hard links to unknown / escaping / symlink-crossing names, symlinks to outside carrying "
             "xattrs, DATA for unrequested ids, early FIN) x four prior destinations containing symlinks that point outside is sent by a scripted "
             "sender to the real Receive inside a chroot jail; TLC checks on the recorded execution that the identity snapshot of everything outside "
             "dest is unchanged, that a stream which ValidStream (or the hard-link / unrequested-data rule) rejects makes Receive fail, and that no "
             "entry at or after the first offending element was applied. Receive options are part of the space since round 6: the cases of the "
             "algorithm-layer model spec/ReceiveLinksMC.tla (metadata-only selector / Filter x kept entries x merge x prior destination, 102 cases "
             "written by TLC) are run on the real Receive and outcome and containment are compared with the model's prediction.",
        design_ref="DESIGN.md section 6 C03",
        note=_SYNC_NOTE + " Kernel symlink-following behaviour per syscall is trusted; the jail is a chroot of the same filesystem.",
        technique="TLA+ property layer (ValidStream + containment clauses in SyncTrace) + TLC trace validation of real Receive against a hostile scripted sender in a chroot jail; TLC model checking of ReceiveLinksMC with its TLC-generated cases replayed into the real code"),
    "C04": dict(
        text="Fault enumeration on the real code judged by TLC: a fault-free run of each scenario (5-file tree into empty and dirty destinations, "
             "300-file fan-out with a slow DATA path so that >132 requests stay outstanding) counts the operations of every kind; then every "
             "(kind, index) is injected once - stream failure at SendMsg/RecvMsg #k on either endpoint, cancellation at operation #k, walk error "
             "at entry k, open/read error of file k after j bytes, hasher/notify callback error at call k - followed by a fault-free follow-up "
             "transfer into the leftovers. SyncTrace.tla judges: no success without FIN / FIN echo, receive success implies convergence, both "
             "calls return once the stream is torn down (quiescence watchdog, hang confirmed by two goroutine dumps), no goroutine with fsutil "
             "frames left, follow-up converges. The algorithm-layer model spec/Protocol.tla (goroutines, bounded channels, errgroups, teardown "
             "rule, read fault, environment teardown) is model-checked for deadlock freedom after teardown and the success invariants over all "
             "interleavings of the scaled-down constants; its pinned-code configuration must reproduce the queue() hang.",
        category="fault_enumeration",
        design_ref="DESIGN.md section 6 C04",
        note=_SYNC_NOTE + " SIGKILL of the receiving process is not covered (receiver runs in-process).",
        technique="TLA+ trace monitor (SyncTrace: return rules, hang/leak events, outcome) over exhaustive single-fault enumeration of real Send/Receive"),
    "C05": dict(
        text="For every sync of the C01 pairs and C02 histories TLC checks the notification log against spec/Notify.tla: applying the events "
             "to a model of the old destination yields the new one, every identity-changed path reported exactly once with the stat as sent, "
             "no unchanged path reported, top-most deletes reported, digest = (header of the stat as sent, bytes now stored), parent before "
             "child, delete before re-add. The ContentHasher is a transparent recorder so digests decompose into comparable fields. "
             "spec/DiffMergeMC.tla transcribes the merge loop of doubleWalkDiff with its rmdir register and TLC proves the clauses for all 20736 "
             "tree pairs of a bounded universe (names a, a-b), with a sanity configuration that must be rejected. Model -> code: the 28561 (old destination, source) pairs of spec/DiffMergeMC.tla are written by TLC with the changes the algorithm model emits and run as real transfers (quick tier: every 7th); the notified (kind, path) pairs must be exactly those.",
        design_ref="DESIGN.md section 6 C05",
        note=_SYNC_NOTE,
        technique="TLA+ property layer (Notify) + TLC trace validation of real sync executions with a transparent hasher"),
    "C06": dict(
        text="The real Send runs over materialised sources against a reference receiver written from the documented protocol, under "
             "request scripts (any subset/order, eager requests racing the STAT stream, 150-400 request bursts, duplicate / unknown / "
             "non-file ids, leaving without FIN, hard-link member ids), stream capacities 0..64, delays and a post-enqueue gate; TLC "
             "validates every packet of the log against the SENDER ROLE automaton of spec/SyncTrace.tla (STAT order and end marker, DATA only "
             "for requested unfinished ids with the right bytes at the running offset, one terminator at end of file, FIN only as echo, "
             "success only after the echo, invalid ids fail the call, valid sessions succeed, progress monotone with one final call). The stream "
             "endpoints decode into the caller's message without clearing it (spec/DecodeIntoMC.tla model-checks both packet loops against that contract).",
        design_ref="DESIGN.md section 6 C06",
        note=_SYNC_NOTE,
        technique="TLA+ role automaton (SyncTrace: sender role over a FIFO pipe model) + TLC trace validation of real Send against a reference receiver"),
    "C07": dict(
        text="The real Receive runs into materialised prior destinations against a reference sender announcing synthetic views with scripted "
             "chunking (1 byte .. 1 MiB), id interleaving, DATA racing STATs, late end marker, early end of stream at every position and large "
             "fan-out; TLC validates the receiver's emissions against the RECEIVER ROLE automaton (REQ only for announced, needed, regular "
             "non-link ids, once; FIN after end marker and all terminators; success only after FIN and end of stream; failure on early EOF) "
             "and the stored bytes / final tree against SyncOutcome.",
        design_ref="DESIGN.md section 6 C07",
        note=_SYNC_NOTE,
        technique="TLA+ role automaton (SyncTrace: receiver role) + TLC trace validation of real Receive against a reference sender"),
    "C08": dict(
        text="A fixed (source, prior destination) pair with >= 12 multi-chunk files in flight is transferred by the real code under many "
             "schedules (stream capacities 0..64, seeded per-operation delays before and after every stream operation, GOMAXPROCS 1/2/4/16); TLC "
             "validates every schedule's execution against the same deterministic property-layer outcome (final tree, REQ set, notifications "
             "with digests), so outcomes are equal across schedules up to the hard-link exception; an overlap detector inside the harness "
             "stream logs concurrent SendMsg/RecvMsg calls; a second build with the Go race detector runs the same schedules and reports "
             "with fsutil frames are injected as Race events.",
        design_ref="DESIGN.md section 6 C08",
        note=_SYNC_NOTE + " Data-race freedom is judged by the Go race detector, not by TLA+ (DESIGN.md section 7).",
        technique="TLA+ trace monitor (SyncTrace outcome + Overlap/Race events) over seeded schedule exploration of real Send/Receive, plus Go race detector"),
    "C09": dict(
        text="Every tree of a bounded universe, name sets with bytes on both sides of '/', and seeded random trees (all entry types, hard-link "
             "groups across directories, xattrs, 255-byte names) are materialised and walked with Walk, WalkDir, FS.Walk (root and sub-target) "
             "and SubDirFS; TLC checks the recorded callback sequence against spec/WalkRef.tla evaluated on an independent snapshot: every entry "
             "once, never the root, strictly ascending component-wise, each stat equal to lstat/readlink/listxattr, first member of an inode "
             "group as file and later ones as links naming it, sub-roots prefixed (link names and absolute symlink targets included). OrderMC "
             "proves on the bounded path universe that the separator-lowest order is the component-wise order and keeps directory contents contiguous.",
        design_ref="DESIGN.md section 6 C09",
        note="Trusted: TLC, the harness snapshotter, ext4 as root, bounded universes and seeded random trees.",
        technique="TLA+ property layer (WalkRef, Paths/OrderMC) model-checked with TLC + TLC trace validation of real walks"),
    "C10": dict(
        text="Filtered walks of materialised trees (systematic single patterns and [X, !Y] pairs of the sub-language on a fixed tree, plus seeded "
             "random include/exclude lists with literals, *, ?, **, classes, trailing /* /** /*/**, negations, and map functions that rewrite, "
             "exclude or skip) are recorded and compared by TLC with the naive unpruned reference of spec/FilterRef.tla built from single-pattern "
             "hit matrices of moby/patternmatcher; a second reference built from the library's incremental matcher is the explanation test "
             "that separates the known finding (incremental matcher != naive verdict) from any other divergence. spec/FilterWalkMC.tla transcribes "
             "filterFS.Walk (incremental matcher with its skip rule, both pruning shortcuts, parentDirs stack, lazy ancestors) with a TLA+ "
             "semantics of the pattern sub-language and TLC proves on every pattern list of the bounded universe that pruning is unobservable and "
             "that only the matcher can make the walk diverge; the pinned double-strip variant must be rejected. Model -> code: the 7308 pattern lists of spec/FilterWalkMC.tla are written by TLC with the algorithm model's output and walked by the real filterFS.Walk, which must report exactly that.",
        design_ref="DESIGN.md section 6 C10",
        note="Trusted: TLC; moby/patternmatcher for single-pattern glob semantics; bounded pattern sub-language and seeded random cases.",
        technique="TLA+ reference filter (FilterRef) + TLC trace validation of real filtered walks with a library-derived hit matrix"),
    "C11": dict(
        text="Real Send over stacks of one or two NewFilterFS layers (include, exclude, follow-paths) on trees whose hard-link groups straddle the "
             "filter, into real Receive: TLC checks that the STAT log is accepted by ValidStream, that every link names an entry sent earlier as "
             "a plain file, the hard-link reset rule against the source's inode groups (first reported member plain with full bytes, later "
             "ones link to it), that both calls succeed and the destination converges to the view, and that Open through the same view succeeds "
             "with the right bytes exactly for the reported regular files.",
        design_ref="DESIGN.md section 6 C11",
        note=_SYNC_NOTE + " moby/patternmatcher is trusted for pattern verdicts; its incremental/plain disagreement is the listed known finding.",
        technique="TLA+ property layer (ValidStream, SyncOutcome, C11 clauses of SyncTrace) + TLC trace validation of real filtered transfers and Open probes"),
    "C13": dict(
        text="copy.Copy of seeded random trees (all entry types, hard-link groups, xattrs, special mode bits, 255-byte names) into an empty "
             "destination under option sets {chown, octal mode, symbolic mode incl. X, utime} and shapes {whole tree, sub-directory, single "
             "entry, nested new destination}, executed in a chroot jail; TLC compares the after-snapshot with the reference of spec/CopyRef.tla "
             "(placement, Image under options with a TLA+ symbolic-mode semantics, created parents, hard-link partition) and the notifier log.",
        design_ref="DESIGN.md section 6 C13",
        note="Trusted: TLC; the harness snapshotter; ext4 as root; chroot of the same filesystem as jail; kernel symlink-following per syscall; bounded universes and seeded random trees.",
        technique="TLA+ reference copy (CopyRef: overlay function, option application, SymApply) + TLC trace validation of real copy.Copy runs"),
    "C14": dict(
        text="copy.Copy runs in a chroot jail with outside sentinels; symlinks (absolute, '..'-laden, dangling, into a missing outside path, "
             "looping) are placed in the source tree, in the destination tree at the position of source entries, in the source argument and in "
             "the destination argument, x follow-links x always-replace; the overlay universe of C15 runs in the same jail. TLC checks that the "
             "identity snapshot of everything outside the two roots is unchanged and that no destination file carries sentinel bytes.",
        design_ref="DESIGN.md section 6 C14",
        note="Trusted: TLC; the harness snapshotter; ext4 as root; chroot of the same filesystem as jail; kernel symlink-following per syscall; bounded universes and seeded random trees.",
        technique="TLA+ containment clauses (CopyTrace) + TLC trace validation of real copy.Copy runs in a chroot jail with sentinels"),
    "C15": dict(
        text="Every sampled (thorough: every) combination of source tree x destination tree over a shared two-name universe (so that every type "
             "pair collides) x ten request shapes x always-replace is executed twice with the real copy.Copy; TLC evaluates the recursive overlay "
             "reference of spec/CopyRef.tla (merge, replace, stay, land inside, trailing separator, wildcard union, nested missing destination, "
             "conflicts, always-replace, destination-argument symlink resolution) and checks outcome kind, resulting tree, untouched entries, "
             "the obstacle after a conflict and idempotence.",
        design_ref="DESIGN.md section 6 C15",
        note="Trusted: TLC; the harness snapshotter; ext4 as root; chroot of the same filesystem as jail; kernel symlink-following per syscall; bounded universes and seeded random trees.",
        technique="TLA+ reference copy (CopyRef recursive overlay + chroot-style resolver) + TLC trace validation of real copy.Copy runs, bounded-exhaustive in the thorough tier"),
    "C16": dict(
        text="copy.Copy of whole trees with include/exclude lists (systematic single patterns and [X, !Y] pairs on a fixed tree plus seeded random "
             "lists) into empty and populated destinations; TLC checks the three-way equality written paths = naive reference filter (FilterRef over "
             "library hit matrices) = paths of fsutil.Walk with the same patterns, that no other directory is created, and that ancestors created "
             "on demand carry the source directory's mode, owner and xattrs; the incremental-matcher explanation test separates the known finding. "
             "spec/CopyFilterMC.tla model-checks copy.go's decision with deferred parents against the reference and against the filtered-walk algorithm for every list in scope.",
        design_ref="DESIGN.md section 6 C16",
        note="Trusted: TLC; the harness snapshotter; ext4 as root; chroot of the same filesystem as jail; kernel symlink-following per syscall; bounded universes and seeded random trees. moby/patternmatcher is trusted for single-pattern verdicts.",
        technique="TLA+ reference filter (FilterRef) + TLC trace validation of real filtered copies against reference and filtered walk"),
    "C17": dict(
        text="WriteTar over the (optionally filtered) view of seeded random trees (empty and multi-chunk files, hard-link groups, names > 100 "
             "bytes, non-ASCII, devices, fifos, xattrs); the archive is parsed with archive/tar and with a strict 512-byte block walk and "
             "extracted with GNU tar; TLC checks against spec/TarRef.tla: one member per view entry in walk order, trailing slash on directories, "
             "exact size and bytes for regular files, no payload and zero size field for symlinks and hard links, type flags, device numbers, "
             "mode, uid/gid, mtime to the second, SCHILY.xattr records, clean end of archive, and that the extracted tree equals the view. Views "
             "assembled by SubDirFS over mount names that are string prefixes of one another are included (spec/MountRouteMC.tla model-checks Walk / Open agreement for them).",
        design_ref="DESIGN.md section 6 C17",
        note="Trusted: TLC; archive/tar as reader; GNU tar 1.34 as extractor; the harness's block walker and snapshotter.",
        technique="TLA+ member/extraction predicates (TarRef) + TLC trace validation of real WriteTar output parsed two ways and extracted"),
    "C18": dict(
        text="FollowLinks runs (in a watchdogged child process) over materialised trees with symlinks (relative, absolute, '..' beyond the root, "
             "chains, cycles, links in intermediate components, dangling) and request lists (literal, non-existent, wildcards), followed by a real "
             "transfer with those follow-paths; TLC resolves every request chroot-style on the tree model (spec/Trees!ResolveFrom, FollowRef) and "
             "checks termination, sortedness, that no element lies inside another, that every traversed symlink and every final location is "
             "covered, emptiness when the root is reached, and that each request resolves to the same entry and bytes in the transferred copy. Model -> code: the 48600 (tree, request list) cases of spec/ResolverMC.tla are written by TLC with the algorithm model's result; the real FollowLinks must return exactly that list (quick tier: every 6th).",
        design_ref="DESIGN.md section 6 C18",
        note="Trusted: TLC; the harness snapshotter; ext4 as root. Wildcard requests are judged structurally only.",
        technique="TLA+ chroot-style resolver and coverage predicates (FollowRef) + TLC trace validation of real FollowLinks runs and follow-path transfers"),
    "C19": dict(
        text="Metadata-only transfers with the real Receive (real or synthetic sender) over trees with selectors none/all/files/directories/"
             "nested, sources containing an entry with the listing file's name (top level and nested), prior destinations holding a stale listing "
             "file or a symlink of that name, listings spanning several 32 KiB buffer chunks and single stats larger than a chunk; TLC checks "
             "that the decoded listing equals the STAT log minus the listing name, record by record and in order, that the destination "
             "(listing aside) converges to the projection 'selected entries plus needed ancestors', and that content was requested only for, "
             "and for all needed, selected regular files, and that no entry is applied twice. spec/MetaStackMC.tla transcribes the replay logic "
             "(STAT index, ancestor stack, forwarded sequence) and TLC proves 'forwarded = projection' and 'ids = STAT positions' for all "
             "parent-closed trees over a six-path universe and all selectors; two pinned-tree variants must be rejected. Model -> code: the 387 (stream, selector) cases of spec/MetaStackMC.tla are written by TLC with what the model forwards and records; the destination and the ids on the wire of the real transfer must be exactly those.",
        design_ref="DESIGN.md section 6 C19",
        note=_SYNC_NOTE + " The listing is decoded by the harness with the vtproto decoder and compared via a canonical stat hash.",
        technique="TLA+ property layer (Projection / MetaClauses in SyncTrace, SyncOutcome) + TLC trace validation of real metadata-only transfers"),
    "C20": dict(
        text="TLC enumerates (spec/WireGen.tla) the value-class product of the Stat/Packet fields and all token strings of a protobuf wire-format "
             "grammar up to the bound; the driver pushes every class vector through the four codec directions {vtproto, protobuf-go} x {encode, "
             "decode} and every token string (and its one-byte truncation) through both decoders under a panic and allocation monitor; message "
             "sequences incl. empty packets and packets larger than the pooled buffer are written and read back through util.NewProtoStream "
             "under fragmentations from 1-byte reads to whole-stream, re-checking earlier packets after later reads. TLC judges the recorded "
             "results (WireTrace.tla) and model-checks the reader algorithm with its pooled buffer for all sequences and fragmentations of the "
             "bounded model (FramingMC.tla, with two sanity configurations that must be rejected).",
        design_ref="DESIGN.md section 6 C20 and section 7",
        note="Trusted: TLC; google.golang.org/protobuf as the generic runtime; proto.Equal as value equality. 'Arbitrary bytes' is covered only on the grammar-bounded family; no coverage-guided fuzzing (technique family rule).",
        technique="TLC-enumerated input classes and token grammar (WireGen) + TLA+ framing reader model (FramingMC) + TLC trace validation of the real codecs and stream (WireTrace)"),
    "C12": dict(
        text="TLC proves, for every change sequence up to the bound over a hostile path alphabet, that the transcribed Validator "
             "(alg) accepts exactly what the property-layer ValidStream accepts and rejects at the same index, and that the "
             "separator-lowest order is a strict total order equal to the component-wise order on all pairs/triples of the path "
             "universe; the same bounded universe plus seeded random mutated walks are fed to the real Validator/ComparePath and "
             "every recorded verdict is validated by TLC against the property layer.",
        design_ref="DESIGN.md section 6 C12",
        note="Trusted: TLC, the Go harness that feeds fsutil.Validator, bounded universes (path alphabet, length bound); random part seeded.",
        technique="TLA+ spec (ValidStream/ValidatorAlg/Paths) model-checked with TLC + TLC trace validation of the real Validator"),
}
