"""Source of MANIFEST.json (bin/mkmanifest).  Only properties whose quick and
thorough checks pass on the unchanged tree with several seeds are CLAIMED."""

HOOK_COMMITS = []
NOTES = ("Model-based verification with explicit TLA+ specifications (spec/*.tla). Every verdict is issued by TLC: "
         "bounded-exhaustive model checking of the property/algorithm layers, plus validation of executions recorded "
         "from the real code (harness/cmd/vdrive, built from /repo's working tree with -tags verif) against the "
         "property layer. See DESIGN.md. known_findings.json lists fixed and known genuine defects.")
DEFAULT_NA = "check not built yet in this round (planned in DESIGN.md section 6); not claimed until its quick and thorough commands pass on the unchanged tree"
NOT_APPLICABLE = {}

CLAIMED = {
    "C12": dict(
        text="TLC proves, for every change sequence up to the bound over a hostile path alphabet, that the transcribed Validator "
             "(alg) accepts exactly what the property-layer ValidStream accepts and rejects at the same index, and that the "
             "separator-lowest order is a strict total order equal to the component-wise order on all pairs/triples of the path "
             "universe; the same bounded universe plus seeded random mutated walks are fed to the real Validator/ComparePath and "
             "every recorded verdict is validated by TLC against the property layer.",
        design_ref="DESIGN.md section 6 C12",
        note="Trusted: TLC, the Go harness that feeds fsutil.Validator, bounded universes (path alphabet, length bound); random part seeded.",
        technique="TLA+ spec (ValidStream/ValidatorAlg/Paths) model-checked with TLC + TLC trace validation of the real Validator"),
}
