"""Orchestration library for /verif/bin/vcheck.

build -> TLC model check -> drive real code -> TLC trace validation ->
confirm by replay -> classify against known_findings.json -> evidence -> exit code.

Exit codes: 0 property held (known findings printed), 1 VIOLATION, 2 inconclusive.
Python stdlib only.
"""
import atexit
import concurrent.futures as cf
import json
import os
import re
import shutil
import subprocess
import sys
import time

VERIF = os.path.dirname(os.path.dirname(os.path.abspath(__file__)))
REPO = os.environ.get("VERIF_REPO", "/repo")
SPEC = os.path.join(VERIF, "spec")
HARNESS = os.path.join(VERIF, "harness")
NCPU = os.cpu_count() or 4

GOENV = dict(GOFLAGS="-mod=mod", GOPROXY="off", GOSUMDB="off", GOTOOLCHAIN="local",
             CGO_ENABLED="0")


class Inconclusive(Exception):
    pass


def log(*a):
    print("[vcheck]", *a, file=sys.stderr, flush=True)


class Run:
    def __init__(self, pid, tier, seed):
        self.pid = pid
        self.tier = tier
        self.seed = seed
        self.t0 = time.time()
        self.work = os.path.join(VERIF, "work", "%s.%d" % (pid, os.getpid()))
        shutil.rmtree(self.work, ignore_errors=True)
        os.makedirs(self.work)
        if not os.environ.get("VERIF_KEEP"):
            atexit.register(lambda: shutil.rmtree(self.work, ignore_errors=True))
        self.mc = []          # model-check results
        self.trace_runs = []  # trace validation results
        self.stats = []       # driver stats
        self.vdrive = None
        self.n = 0
        self.selftests = []
        self.notes = []

    @property
    def thorough(self):
        return self.tier == "thorough"

    # ---------------------------------------------------------------- build
    def build(self, race=False):
        """Build the driver against /repo's current working tree with the verif tag."""
        out = os.path.join(self.work, "vdrive-race" if race else "vdrive")
        env = dict(os.environ, **GOENV)
        if race:
            env["CGO_ENABLED"] = "1"
        if REPO != "/repo":
            # scratch worktree: rewrite the replace directive in a private copy of the harness
            h = os.path.join(self.work, "harness")
            if not os.path.isdir(h):
                shutil.copytree(HARNESS, h)
                gm = open(os.path.join(h, "go.mod")).read().replace("=> /repo", "=> " + REPO)
                open(os.path.join(h, "go.mod"), "w").write(gm)
            hdir = h
        else:
            hdir = HARNESS
        cmd = ["go", "build", "-tags", "verif"] + (["-race"] if race else []) + ["-o", out, "./cmd/vdrive"]
        p = subprocess.run(cmd, cwd=hdir, env=env, capture_output=True, text=True)
        if p.returncode != 0:
            sys.stderr.write(p.stdout + p.stderr)
            raise Inconclusive("harness build failed against %s" % REPO)
        if not race:
            self.vdrive = out
        return out

    # ------------------------------------------------------------------ TLC
    def _specdir(self):
        self.n += 1
        d = os.path.join(self.work, "tlc%d" % self.n)
        shutil.copytree(SPEC, d)
        return d

    def tlc_mc(self, module, cfg=None, workers=None, timeout=900, xmx="6g", label=None,
               expect_error=False, extra=None, env=None, xss="64m"):
        """Model check <module>.tla with <cfg>; returns dict with distinct/generated."""
        d = self._specdir()
        cfg = cfg or module + ".cfg"
        workers = workers or NCPU
        cmd = ["java", "-XX:+UseParallelGC", "-Xmx" + xmx, "-Xss" + xss, "-cp",
               "/opt/veriftools/tla/tla2tools.jar:/opt/veriftools/tla/CommunityModules-deps.jar",
               "tlc2.TLC", "-workers", str(workers), "-metadir", os.path.join(d, "meta"),
               "-config", cfg] + (extra or []) + [module + ".tla"]
        t = time.time()
        e = dict(os.environ)
        e.pop("JAVA_TOOL_OPTIONS", None)
        if env:
            e.update(env)
        try:
            p = subprocess.run(cmd, cwd=d, capture_output=True, text=True, timeout=timeout, env=e)
        except subprocess.TimeoutExpired:
            raise Inconclusive("TLC timeout on %s/%s after %ds" % (module, cfg, timeout))
        out = p.stdout + p.stderr
        res = dict(module=module, cfg=cfg, label=label or cfg, wall_s=round(time.time() - t, 1),
                   generated=0, distinct=0, ok=False, out=out, dir=d)
        m = re.findall(r"(\d+) states generated, (\d+) distinct states found", out)
        if m:
            res["generated"], res["distinct"] = int(m[-1][0]), int(m[-1][1])
        m = re.search(r"depth of the complete state graph search is (\d+)", out)
        if m:
            res["depth"] = int(m.group(1))
        res["ok"] = ("Model checking completed. No error has been found." in out) or \
                    ("Finished in" in out and "Error:" not in out and "-simulate" in " ".join(cmd))
        if not res["ok"] and not expect_error:
            errs = [l for l in out.splitlines() if "Error" in l][:6]
            sys.stderr.write(out[-3000:])
            raise Inconclusive("TLC reported an error on the specification %s/%s: %s" % (module, cfg, errs))
        self.mc.append({k: res[k] for k in ("module", "cfg", "label", "wall_s", "generated", "distinct", "ok")})
        shutil.rmtree(os.path.join(d, "meta"), ignore_errors=True)
        return res

    def _tlc_trace_one(self, module, cfg, trace, idx, timeout, xmx):
        d = os.path.join(self.work, "tv%d_%d" % (self.n, idx))
        shutil.copytree(SPEC, d)
        outp = os.path.join(d, "verdict.ndjson")
        env = dict(os.environ, VERIF_TRACE=trace, VERIF_OUT=outp)
        env.pop("JAVA_TOOL_OPTIONS", None)
        cmd = ["java", "-XX:+UseParallelGC", "-Xmx" + xmx, "-Xss256m", "-cp",
               "/opt/veriftools/tla/tla2tools.jar:/opt/veriftools/tla/CommunityModules-deps.jar",
               "tlc2.TLC", "-workers", "1", "-metadir", os.path.join(d, "meta"),
               "-config", cfg, module + ".tla"]
        try:
            p = subprocess.run(cmd, cwd=d, capture_output=True, text=True, timeout=timeout, env=env)
        except subprocess.TimeoutExpired:
            raise Inconclusive("TLC trace validation timeout (%s shard %d)" % (module, idx))
        out = p.stdout + p.stderr
        if not os.path.exists(outp) or "Error:" in out:
            sys.stderr.write(out[-4000:])
            raise Inconclusive("TLC failed while validating a trace with %s (shard %d)" % (module, idx))
        v = json.loads(open(outp).read().splitlines()[0])
        m = re.findall(r"(\d+) states generated, (\d+) distinct states found", out)
        gen, dis = (int(m[-1][0]), int(m[-1][1])) if m else (0, 0)
        shutil.rmtree(d, ignore_errors=True)
        return v, gen, dis

    def tlc_trace(self, module, trace, cfg=None, shards=None, timeout=1200, xmx="3g", record=True):
        """Validate an ndjson trace against a trace spec.  The trace is sharded
        on case boundaries; every line of every shard must be consumed.
        Returns dict(lines, cases, failed=[{case,line,clauses,...}], drift=[...])."""
        cfg = cfg or module + ".cfg"
        self.n += 1
        lines = open(trace).read().splitlines()
        total = len(lines)
        if total == 0:
            raise Inconclusive("empty trace " + trace)
        caseof = []
        for ln in lines:
            m = re.search(r'"case":\s*(\d+)', ln)
            caseof.append(int(m.group(1)) if m else -1)
        ncases = len(set(caseof))
        shards = shards or min(NCPU, max(1, total // 1500))
        # split on case boundaries
        bounds = [0]
        target = total / shards
        for i in range(1, total):
            if caseof[i] != caseof[i - 1] and i >= target * len(bounds) and len(bounds) < shards:
                bounds.append(i)
        bounds.append(total)
        files = []
        for k in range(len(bounds) - 1):
            fn = "%s.shard%d_%d" % (trace, self.n, k)
            with open(fn, "w") as f:
                f.write("\n".join(lines[bounds[k]:bounds[k + 1]]) + "\n")
            files.append((fn, bounds[k]))
        t = time.time()
        failed, drift, consumed, gen, dis = [], [], 0, 0, 0
        with cf.ThreadPoolExecutor(max_workers=NCPU) as ex:
            futs = [ex.submit(self._tlc_trace_one, module, cfg, fn, k, timeout, xmx)
                    for k, (fn, _) in enumerate(files)]
            for (fn, off), fu in zip(files, futs):
                v, g, d = fu.result()
                consumed += v["consumed"]
                gen += g
                dis += d
                for f in v.get("failed", []):
                    f["line"] += off
                    failed.append(f)
                for f in v.get("drift", []):
                    f["line"] += off
                    drift.append(f)
                os.unlink(fn)
        if consumed != total:
            raise Inconclusive("trace spec %s consumed %d of %d lines" % (module, consumed, total))
        res = dict(module=module, lines=total, cases=ncases, failed=failed, drift=drift,
                   wall_s=round(time.time() - t, 1), generated=gen, distinct=dis, shards=len(files))
        if record:
            self.trace_runs.append({k: res[k] for k in ("module", "lines", "cases", "wall_s", "generated", "distinct", "shards")}
                                   | {"failed_cases": len({f["case"] for f in failed}), "drift_cases": len({f["case"] for f in drift})})
        res["_lines"] = lines
        res["_caseof"] = caseof
        idx = {}
        for i, c in enumerate(caseof):
            idx.setdefault(c, []).append(i)
        res["_idx"] = idx
        return res

    # --------------------------------------------------------------- driver
    def drive(self, family, name=None, extra=None, timeout=1800, replay=None, exe=None, env=None):
        name = name or family
        self.n += 1
        trace = os.path.join(self.work, "%s.%d.ndjson" % (name, self.n))
        stats = trace + ".stats.json"
        wdir = os.path.join(self.work, "drv%d" % self.n)
        os.makedirs(wdir, exist_ok=True)
        cmd = [exe or self.vdrive, family, "-out", trace, "-stats", stats, "-seed", str(self.seed),
               "-tier", self.tier, "-work", wdir]
        if replay:
            cmd += ["-replay", replay]
        cmd += extra or []
        e = dict(os.environ)
        if env:
            e.update(env)
        t = time.time()
        try:
            p = subprocess.run(cmd, capture_output=True, text=True, timeout=timeout, env=e)
        except subprocess.TimeoutExpired:
            raise Inconclusive("driver %s timed out after %ds" % (family, timeout))
        finally:
            subprocess.run(["chmod", "-R", "u+rwx", wdir], capture_output=True)
            shutil.rmtree(wdir, ignore_errors=True)
        if p.returncode != 0:
            sys.stderr.write((p.stdout + p.stderr)[-4000:])
            ex = Inconclusive("driver %s exited %d" % (family, p.returncode))
            ex.stderr = p.stderr
            ex.trace = trace
            raise ex
        st = json.load(open(stats)) if os.path.exists(stats) else {}
        st["family"] = name
        st["wall_s"] = round(time.time() - t, 1)
        st["stderr_tail"] = p.stderr[-2000:]
        if not replay:
            self.stats.append(st)
        return trace, st


# ---------------------------------------------------------------- findings
def load_known():
    p = os.path.join(VERIF, "known_findings.json")
    if not os.path.exists(p):
        return []
    return json.load(open(p)).get("findings", [])


def case_events(tr, case):
    return [json.loads(tr["_lines"][i]) for i in tr["_idx"].get(case, [])]


def finish(run, level, failures, coverage_extra=None, assumptions=None, explanation=None):
    """failures: list of dict(case, clauses, events=[...], family, confirmed(bool), signature(str|None), text)
    Decides exit code, prints VIOLATION / KNOWN-FINDING lines, writes evidence."""
    pid = run.pid
    known = [k for k in load_known() if k["property"] == pid and k["status"] == "known"]
    violations, knownhits, unconfirmed = [], {}, []
    for f in failures:
        if not f.get("confirmed", True):
            unconfirmed.append(f)
            continue
        sig = f.get("signature")
        hit = None
        for k in known:
            if sig is not None and sig == k["signature"]:
                hit = k
                break
        if hit:
            knownhits.setdefault(hit["signature"], [hit, 0])[1] += 1
        else:
            violations.append(f)
    rdir = os.path.join(VERIF, "replays", pid)
    exitcode = 0
    for sig, (k, n) in knownhits.items():
        print("KNOWN-FINDING: property=%s %s [signature=%s, %d case(s) this run]" % (pid, k["text"], sig, n))
    if violations:
        os.makedirs(rdir, exist_ok=True)
        shown = {}
        # the first case of every clause set before the second of any: no kind of failure is left without a replay file
        rank, seen_keys = [], {}
        for f in violations:
            k0 = (f.get("family"), tuple(sorted(f["clauses"])))
            rank.append(seen_keys.get(k0, 0))
            seen_keys[k0] = seen_keys.get(k0, 0) + 1
        order = sorted(range(len(violations)), key=lambda i: (rank[i], i))
        for i in order:
            f = violations[i]
            key = (f.get("family"), tuple(sorted(f["clauses"])))
            shown[key] = shown.get(key, 0) + 1
            if shown[key] > 3 or sum(shown.values()) > 40:
                continue
            # (case numbers are per family: the family is part of the name so that two families of one check cannot collide)
            fam = f.get("family")
            path = os.path.join(rdir, "%s-%s-seed%d-%scase%s.json" % (pid, run.tier, run.seed, (fam + "-") if fam and fam != "sync" else "", f["case"]))
            with open(path, "w") as fh:
                json.dump(dict(property=pid, family=f.get("family"), clauses=sorted(f["clauses"]),
                               signature=f.get("signature"), text=f.get("text", ""),
                               events=f.get("events", [])), fh)
            if True:
                print("VIOLATION property=%s replay=%s clauses=%s" % (pid, path, ",".join(sorted(f["clauses"]))))
        exitcode = 1
    elif unconfirmed:
        for f in unconfirmed[:5]:
            log("UNCONFIRMED failure (not reproduced on replay): case %s clauses %s" % (f["case"], sorted(f["clauses"])))
        exitcode = 2
    states = sum(m["distinct"] for m in run.mc) + sum(t["distinct"] for t in run.trace_runs)
    transitions = sum(m["generated"] for m in run.mc) + sum(t["generated"] for t in run.trace_runs)
    evals = sum(s.get("evaluations", 0) for s in run.stats)
    nontriv = sum(s.get("distinct_nontrivial", 0) for s in run.stats)
    samples = []
    for s in run.stats:
        samples += (s.get("samples") or [])[:3]
    if not samples:
        samples = [dict(note="no driver samples", mc=run.mc[:1])]
    cov = dict(
        states=max(states, 1), transitions=max(transitions, 1),
        traces_validated_against_impl=sum(t["cases"] for t in run.trace_runs),
        samples=_shrink(samples)[:6],
        evaluations=max(evals, 1), distinct_nontrivial=nontriv,
        rule="; ".join(s.get("rule", "") for s in run.stats if s.get("rule")),
        exhaustive=any(s.get("exhaustive") for s in run.stats),
        model_check_runs=run.mc, trace_validation_runs=run.trace_runs,
        driver_counters={s["family"]: s.get("counters", {}) for s in run.stats},
        driver_notes=[n for s in run.stats for n in (s.get("notes") or [])],
        selftests=run.selftests,
        known_findings_observed={sig: n for sig, (k, n) in knownhits.items()},
        model_drift_cases=sum(t.get("drift_cases", 0) for t in run.trace_runs),
        notes=run.notes,
        checker_cmd="TLC 1.8.0 (tlc2.TLC) via bin/vcheck %s --tier %s" % (pid, run.tier),
    )
    if explanation:
        cov["explanation"] = explanation
    if coverage_extra:
        cov.update(coverage_extra)
    ev = dict(property_id=pid, tier=run.tier, seed=run.seed, level=level, coverage=cov,
              assumptions=assumptions or [], wall_s=round(time.time() - run.t0, 1),
              violations=len(violations))
    os.makedirs(os.path.join(VERIF, "evidence"), exist_ok=True)
    tmp = os.path.join(VERIF, "evidence", ".%s.json.%d" % (pid, os.getpid()))
    with open(tmp, "w") as fh:
        json.dump(ev, fh, indent=1)
    os.replace(tmp, os.path.join(VERIF, "evidence", "%s.json" % pid))
    for t in run.trace_runs:
        if t.get("drift_cases"):
            print("MODEL-DRIFT: property=%s %d case(s) where the algorithm-layer spec %s and the code disagree (informational)"
                  % (pid, t["drift_cases"], t["module"]))
    log("%s %s seed=%d: exit %d, %d violation(s), %d known, %.1fs" %
        (pid, run.tier, run.seed, exitcode, len(violations), len(knownhits), time.time() - run.t0))
    return exitcode


def _shrink(o, depth=0):
    """keep evidence samples readable: truncate long arrays"""
    if isinstance(o, list):
        if len(o) > 12 and depth > 0:
            return [_shrink(x, depth + 1) for x in o[:12]] + ["... %d more" % (len(o) - 12)]
        return [_shrink(x, depth + 1) for x in o]
    if isinstance(o, dict):
        return {k: _shrink(v, depth + 1) for k, v in o.items()}
    return o


def confirm_by_replay(run, family, module, tr, cfg=None, signature_fn=None, text_fn=None, max_confirm=12,
                      drive_extra=None):
    """For each failing case of a trace run: re-run that case alone on the real
    code from its recorded input and re-validate with TLC.  Deterministic
    families must reproduce; a case that does not is reported unconfirmed."""
    bycase = {}
    for f in tr["failed"]:
        bycase.setdefault(f["case"], set()).update(f["clauses"])
    out = []
    # group by clause set and signature so that a flood of identical failures costs few replays
    groups = {}
    for case, clauses in bycase.items():
        evs = case_events(tr, case)
        sig = signature_fn(evs, clauses) if signature_fn else None
        groups.setdefault((tuple(sorted(clauses)), sig), []).append((case, evs))
    budget = max_confirm
    for (clauses, sig), members in groups.items():
        confirmed_group = None
        for j, (case, evs) in enumerate(members):
            confirmed = confirmed_group
            # every group is replayed at least once (its first member, whatever the budget says); the second member only
            # while the budget lasts
            if j == 0 or (j < 2 and budget > 0):
                budget -= 1
                rp = os.path.join(run.work, "replay_%s_%s.json" % (family, case))
                with open(rp, "w") as fh:
                    json.dump(evs[0] if len(evs) == 1 else dict(events=evs, **{k: v for k, v in evs[0].items() if k != "events"}), fh)
                t2, _ = run.drive(family, name=family + "-replay", replay=rp, extra=drive_extra)
                r2 = run.tlc_trace(module, t2, cfg=cfg, shards=1, record=False)
                confirmed = len(r2["failed"]) > 0
                if confirmed_group is None:
                    confirmed_group = confirmed
            out.append(dict(case=case, clauses=set(clauses), events=evs, family=family,
                            confirmed=bool(confirmed), signature=sig,
                            text=text_fn(evs, clauses) if text_fn else ""))
    return out


def model_disagreements(tr):
    """cases in which an algorithm-layer model (clauses MODEL.*) and the real code disagree"""
    return [f for f in tr["failed"] if any(c.startswith("MODEL.") for c in f["clauses"])]


def gate_model(md, fails):
    """a model / code disagreement is no verdict of any property: with a violation present the run is a violation,
    without one it is inconclusive (on the unchanged tree: the model is wrong and has to be corrected)"""
    if md and not any(f.get("signature") is None for f in fails):
        raise Inconclusive("algorithm-layer model and code disagree in %d case(s) without a violation, e.g. case %s %s"
                           % (len(md), md[0]["case"], md[0]["clauses"]))


def strip_model(tr, prefix):
    """keep the failures that carry a clause of this property; drop MODEL.* names from their clause lists"""
    out = []
    for f in tr["failed"]:
        cl = [c for c in f["clauses"] if c.startswith(prefix)]
        if cl:
            g = dict(f)
            g["clauses"] = cl
            out.append(g)
    return out


def selftest_corrupt(run, module, trace, mutate, cfg=None, name="corrupt one recorded field"):
    """Binding self-test: corrupt one recorded field of an accepted trace and
    require the trace spec to reject it.  A spec that accepts is vacuous."""
    lines = open(trace).read().splitlines()
    new = mutate([json.loads(l) for l in lines])
    if new is None:
        run.selftests.append(dict(name=name, result="skipped (no suitable event)"))
        return
    p = trace + ".selftest"
    with open(p, "w") as f:
        for e in new:
            f.write(json.dumps(e, separators=(",", ":")) + "\n")
    r = run.tlc_trace(module, p, cfg=cfg, shards=1, record=False)
    os.unlink(p)
    ok = len(r["failed"]) > 0
    run.selftests.append(dict(name=name, result="rejected" if ok else "ACCEPTED"))
    if not ok:
        raise Inconclusive("vacuous trace spec: %s accepted a corrupted trace (%s)" % (module, name))


def main(props):
    import argparse
    ap = argparse.ArgumentParser()
    ap.add_argument("pid")
    ap.add_argument("--tier", default=os.environ.get("VERIF_TIER", "quick"))
    ap.add_argument("--replay")
    a = ap.parse_args()
    seed = int(os.environ.get("VERIF_SEED", "1") or 1) % (2 ** 31)
    if a.pid not in props:
        print("unknown property", a.pid, file=sys.stderr)
        return 2
    if a.tier not in ("quick", "thorough"):
        a.tier = "quick"
    run = Run(a.pid, a.tier, seed)
    try:
        if a.replay:
            return props[a.pid].replay(run, a.replay)
        return props[a.pid].check(run)
    except Inconclusive as e:
        log("INCONCLUSIVE:", e)
        return 2
