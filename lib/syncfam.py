"""Shared logic for the properties judged by spec/SyncTrace.tla."""
import json
import os

from vlib import confirm_by_replay, finish, selftest_corrupt, Inconclusive


def pstr(p):
    return "/".join("".join(chr(b) for b in n) for n in p)


def filter_prefix(tr, prefixes):
    """keep only the clauses that belong to this property (plus harness clauses)"""
    out = []
    for f in tr["failed"]:
        cl = [c for c in f["clauses"] if c.split(".")[0] in prefixes or c.startswith("HARNESS.")]
        if cl:
            g = dict(f)
            g["clauses"] = cl
            out.append(g)
    r = dict(tr)
    r["failed"] = out
    return r


def harness_failures(tr):
    return [f for f in tr["failed"] if any(c.startswith("HARNESS.") for c in f["clauses"])]


UNPRIV_SUFFIX = "/explainedByUnprivilegedLinkWriters"


def sig_default(evs, clauses):
    if clauses and all(c.endswith(UNPRIV_SUFFIX) for c in clauses):
        return "diskwriter:unprivileged-writers-of-one-inode-race-on-its-mode"
    return None


def text_default(evs, clauses):
    b = evs[0]
    return "case origin=%s mode=%s differ=%s clauses=%s" % (b.get("origin"), b.get("mode"), b.get("differ"), sorted(clauses))


from vlib import model_disagreements, gate_model


def run_family(run, pid, family, prefixes, extra=None, sig=None, text=None, selftests=(), module="SyncTrace",
               drive_timeout=1800, assumptions=None, mc=None, level="model_checking", post=None, name=None, witness=False, also=(), env=None,
               more=None):
    run.build()
    if mc:
        mc(run)
    trace, st = run.drive(family, name=name, extra=extra, timeout=drive_timeout, env=env)
    tr_all = run.tlc_trace(module, trace)
    hf = harness_failures(tr_all)
    if hf:
        raise Inconclusive("harness-level inconsistency in trace: %s" % hf[:3])
    tr = filter_prefix(tr_all, prefixes)
    for nm, fn in selftests:
        selftest_corrupt_prefixed(run, module, trace, fn, nm, prefixes)
    fails = confirm_by_replay_prefixed(run, family, module, tr, prefixes, sig or sig_default, text or text_default, extra, witness=witness)
    # further drivers whose traces carry clauses of this property (same monitor, other scenario family)
    for fam2, extra2, name2 in also:
        t2, _ = run.drive(fam2, name=name2, extra=extra2, timeout=drive_timeout)
        tr2_all = run.tlc_trace(module, t2)
        hf = harness_failures(tr2_all)
        if hf:
            raise Inconclusive("harness-level inconsistency in trace: %s" % hf[:3])
        fails += confirm_by_replay_prefixed(run, fam2, module, filter_prefix(tr2_all, prefixes), prefixes, sig or sig_default,
                                            text or text_default, extra2, witness=witness)
    if post:
        post(run, tr_all, st)
    md = model_disagreements(tr_all)
    if more:
        # further (family, module) pairs judged by their own trace spec: returns (fails, model disagreements)
        f3, md3 = more(run)
        fails += f3
        md += md3
    gate_model(md, fails)
    return finish(run, level, fails, assumptions=assumptions or [])


def selftest_corrupt_prefixed(run, module, trace, mutate, name, prefixes):
    lines = open(trace).read().splitlines()
    evs = [json.loads(l) for l in lines]
    new = mutate(evs)
    if new is None:
        run.selftests.append(dict(name=name, result="skipped (no suitable case)"))
        return
    p = trace + ".selftest"
    with open(p, "w") as f:
        for e in new:
            f.write(json.dumps(e, separators=(",", ":")) + "\n")
    r = filter_prefix(run.tlc_trace(module, p, shards=1, record=False), prefixes)
    os.unlink(p)
    ok = len(r["failed"]) > 0
    run.selftests.append(dict(name=name, result="rejected" if ok else "ACCEPTED",
                              clauses=sorted({c for f in r["failed"] for c in f["clauses"]})))
    if not ok:
        raise Inconclusive("vacuous trace spec: %s accepted a corrupted trace (%s)" % (module, name))


def confirm_by_replay_prefixed(run, family, module, tr, prefixes, sig, text, extra, witness=False):
    """witness=True: the family is schedule dependent; a recorded execution that violates a
    clause is itself the witness (for hangs: two goroutine dumps with the same blocked fsutil
    frames).  Replays are still attempted (3 per group) and their outcome is reported."""
    import vlib
    bycase = {}
    for f in tr["failed"]:
        bycase.setdefault(f["case"], set()).update(f["clauses"])
    details = {f["case"]: f.get("detail", "") for f in tr["failed"] if f.get("detail")}
    out = []
    groups = {}
    for case, clauses in bycase.items():
        evs = vlib.case_events(tr, case)
        s = sig(evs, clauses)
        groups.setdefault((tuple(sorted(clauses)), s), []).append((case, evs))
    budget = 10
    for (clauses, s), members in groups.items():
        group_conf = None
        for j, (case, evs) in enumerate(members):
            conf = group_conf
            tries = 3 if witness else 1
            repro = None
            # every group is replayed at least once (its first member, whatever the budget says)
            if j == 0 or (j < 2 and budget > 0):
                budget -= 1
                rp = os.path.join(run.work, "replay_%s_%s.json" % (family, case))
                with open(rp, "w") as fh:
                    json.dump(dict(events=evs), fh)
                repro = 0
                for _ in range(tries):
                    t2, _ = run.drive(family, name=family + "-replay", replay=rp, extra=extra)
                    r2 = filter_prefix(run.tlc_trace(module, t2, shards=1, record=False), prefixes)
                    got = {c for f in r2["failed"] for c in f["clauses"]}
                    if got & set(clauses):
                        repro += 1
                        break
                conf = repro > 0
                if group_conf is None or conf:
                    group_conf = conf
            # transfers without CAP_DAC_OVERRIDE: whether two writers of one inode meet depends on the goroutine schedule, so
            # the recorded execution is the witness there too (family "unpriv" inside the deterministic families)
            wit = witness or bool(evs and evs[0].get("unpriv"))
            if wit:
                conf = True
            # a recorded execution that violates a safety clause is itself the witness for
            # schedule-dependent families; deterministic families must reproduce
            out.append(dict(case=case, clauses=set(clauses), events=_slim(evs), family=family,
                            confirmed=True if wit else (bool(conf) if conf is not None else bool(group_conf)),
                            signature=s, text=text(evs, clauses) + ("" if repro is None else " [replay reproduced: %s]" % (repro > 0)) + (" detail=" + details.get(case, "")[:1500] if details.get(case) else "")))
    return out


def _slim(evs):
    # keep replay files small: the Begin event (with its input) and the rest without big snapshots
    out = []
    for e in evs:
        out.append(e)
    return out
