"""Shared logic for the copy-package properties judged by spec/CopyTrace.tla."""
import json
import os

from vlib import confirm_by_replay, finish, selftest_corrupt, Inconclusive, model_disagreements, gate_model


def text(evs, clauses):
    e = evs[0]
    try:
        i = json.loads(e["input"])
        return "kind=%s srcArg=%r dstArg=%r contents=%s replace=%s wild=%s follow=%s uid=%s mode=%s sym=%r inc=%s exc=%s ok=%s err=%s src=%s dst=%s" % (
            i["kind"], i["srcArg"][:40], i["dstArg"][:40], i["contents"], i["replace"], i["wild"], i["follow"], i["uid"], i["mode"], i["sym"],
            i.get("inc"), i.get("exc"), e["ok"], e.get("err", "")[:80],
            [x["Type"][:3] + ":" + x["Path"][:20] for x in (i["src"] or [])][:12], [x["Type"][:3] + ":" + x["Path"][:20] for x in (i["dst"] or [])][:8])
    except Exception:
        return ""


def run(run, pid, whats, prefixes, assumptions, selftests, sig=None, env=None):
    run.build()
    fails = []
    traces = []
    md = []
    for what in whats:
        trace, st = run.drive("copy", name="copy-" + what, extra=["-what", what], env=env)
        traces.append(trace)
        tr = run.tlc_trace("CopyTrace", trace)
        md += model_disagreements(tr)
        hf = [f for f in tr["failed"] if any(c.startswith("HARNESS.") for c in f["clauses"])]
        if hf:
            raise Inconclusive("harness-level inconsistency in copy trace: %s" % hf[:2])
        keep = []
        for f in tr["failed"]:
            cl = [c for c in f["clauses"] if c.split(".")[0] in prefixes]
            if cl:
                g = dict(f)
                g["clauses"] = cl
                keep.append(g)
        tr["failed"] = keep
        fails += confirm_by_replay_copy(run, tr, prefixes, sig, what)
    for nm, fn, idx in selftests:
        selftest_prefixed(run, traces[idx], fn, nm, prefixes)
    gate_model(md, fails)
    return finish(run, "model_checking", fails, assumptions=assumptions)


def selftest_prefixed(run, trace, mutate, name, prefixes):
    evs = [json.loads(l) for l in open(trace).read().splitlines()]
    new = mutate(evs)
    if new is None:
        run.selftests.append(dict(name=name, result="skipped (no suitable case)"))
        return
    p = trace + ".selftest"
    with open(p, "w") as f:
        for e in new:
            f.write(json.dumps(e, separators=(",", ":")) + "\n")
    r = run.tlc_trace("CopyTrace", p, shards=1, record=False)
    os.unlink(p)
    cl = sorted({c for f in r["failed"] for c in f["clauses"] if c.split(".")[0] in prefixes})
    run.selftests.append(dict(name=name, result="rejected" if cl else "ACCEPTED", clauses=cl))
    if not cl:
        raise Inconclusive("vacuous trace spec: CopyTrace accepted a corrupted trace (%s)" % name)


def confirm_by_replay_copy(run, tr, prefixes, sig, what):
    import vlib
    out = []
    groups = {}
    for f in tr["failed"]:
        evs = vlib.case_events(tr, f["case"])
        s = sig(evs, f["clauses"]) if sig else None
        groups.setdefault((tuple(sorted(f["clauses"])), s), []).append((f, evs))
    budget = 10
    for (clauses, s), members in groups.items():
        gconf = None
        for j, (f, evs) in enumerate(members):
            conf = gconf
            if j == 0 or (j < 2 and budget > 0):
                budget -= 1
                rp = os.path.join(run.work, "replay_copy_%s.json" % f["case"])
                json.dump(evs[0], open(rp, "w"))
                t2, _ = run.drive("copy", name="copy-replay", replay=rp, extra=["-what", what])
                r2 = run.tlc_trace("CopyTrace", t2, shards=1, record=False)
                got = {c for x in r2["failed"] for c in x["clauses"]}
                conf = bool(got & set(clauses))
                if gconf is None or conf:
                    gconf = conf
            out.append(dict(case=f["case"], clauses=set(clauses), events=evs, family="copy", confirmed=bool(conf), signature=s,
                            text=text(evs, clauses) + " detail=" + (f.get("detail") or "")[:1200]))
    return out


def replay(run, pid, path, prefixes, assumptions, sig=None):
    run.build()
    d = json.load(open(path))
    evs = d.get("events") or [d]
    what = {"fidelity": "fidelity", "overlay": "overlay", "contain": "contain", "filter": "filter"}.get(evs[0].get("kind"), "fidelity")
    rp = os.path.join(run.work, "rp.json")
    json.dump(evs[0], open(rp, "w"))
    t, _ = run.drive("copy", replay=rp, extra=["-what", what])
    tr = run.tlc_trace("CopyTrace", t, shards=1)
    keep = []
    for f in tr["failed"]:
        cl = [c for c in f["clauses"] if c.split(".")[0] in prefixes]
        if cl:
            g = dict(f)
            g["clauses"] = cl
            keep.append(g)
    tr["failed"] = keep
    fails = confirm_by_replay_copy(run, tr, prefixes, sig, what)
    return finish(run, "model_checking", fails, assumptions=assumptions)
